import XalanModel.C17.Spec
import XalanModel.C17.CountersProofs
/-!
# C17 — helper lemmas about the transcribed navigation (`getPreviousNode`, `getTargetNode`, …)
-/
namespace XalanModel.C17

variable {d : Doc}

theorem Doc.WF.parent_lt (h : d.WF) {n p : Nat} (hn : n < d.size) (hp : d.parent n = some p) : p < n := by
  obtain ⟨_, h0, _, hall, _⟩ := h
  cases n with
  | zero => rw [h0] at hp; cases hp
  | succ k =>
    have := (hall (k + 1) hn (by omega)).2.2.1
    rw [hp] at this
    simpa using this

theorem Doc.WF.prevSib_lt (h : d.WF) {n s : Nat} (hn : n < d.size) (hp : d.prevSib n = some s) : s < n := by
  obtain ⟨_, _, h0, hall, _⟩ := h
  cases n with
  | zero => rw [h0] at hp; cases hp
  | succ k =>
    have := (hall (k + 1) hn (by omega)).2.2.2
    rw [hp] at this
    have h2 : 0 < s ∧ s < k + 1 := by simpa using this
    exact h2.2

theorem Doc.WF.backStep_eq (h : d.WF) {n : Nat} (hn : n < d.size) (h0 : 0 < n) : d.backStep n = some (n - 1) :=
  (h.2.2.2.1 n hn h0).1

/-- with a previous sibling, the dive ends at the node just before -/
theorem Doc.WF.dive_eq (h : d.WF) {n s : Nat} (hn : n < d.size) (hp : d.prevSib n = some s) :
    d.deepestLast d.size s = n - 1 := by
  have h0 : 0 < n := by
    cases n with
    | zero => rw [h.2.2.1] at hp; cases hp
    | succ k => omega
  have := h.backStep_eq hn h0
  simp only [Doc.backStep, hp, Option.some.injEq] at this
  exact this

/-- without a previous sibling, the parent is the node just before -/
theorem Doc.WF.parent_eq (h : d.WF) {n : Nat} (hn : n < d.size) (h0 : 0 < n) (hp : d.prevSib n = none) :
    d.parent n = some (n - 1) := by
  have := h.backStep_eq hn h0
  simpa [Doc.backStep, hp] using this

theorem prevSibling_lt (h : d.WF) (c : NumCfg) (src : Nat) :
    ∀ (f pos m : Nat), pos < d.size → prevSibling d c src f pos = some m → m < pos := by
  intro f
  induction f with
  | zero => intro pos m _ hm; simp [prevSibling] at hm
  | succ f ih =>
    intro pos m hpos hm
    simp only [prevSibling] at hm
    cases hs : d.prevSib pos with
    | none => simp [hs] at hm
    | some s =>
      have hlt := h.prevSib_lt hpos hs
      simp only [hs] at hm
      split at hm
      · cases hm; exact hlt
      · have := ih s m (by omega) hm
        omega

theorem prevAny_lt (h : d.WF) (c : NumCfg) (src : Nat) :
    ∀ (f pos m : Nat), pos < d.size → prevAny d c src f pos = .ret (some m) → m < pos := by
  intro f
  induction f with
  | zero => intro pos m _ hm; simp [prevAny] at hm
  | succ f ih =>
    intro pos m hpos hm
    simp only [prevAny] at hm
    cases hs : d.prevSib pos with
    | none =>
      simp only [hs] at hm
      cases hp : d.parent pos with
      | none =>
        simp only [hp] at hm
        split at hm <;> cases hm
      | some nx =>
        have hlt := h.parent_lt hpos hp
        simp only [hp] at hm
        split at hm
        · cases hm
        · split at hm
          · cases hm; exact hlt
          · have := ih nx m (by omega) hm
            omega
    | some s =>
      simp only [hs] at hm
      have hd := h.dive_eq hpos hs
      have hs0 : 0 < pos := by
        have := h.prevSib_lt hpos hs
        omega
      split at hm
      · cases hm; omega
      · have := ih (d.deepestLast d.size s) m (by omega) hm
        omega

theorem getPreviousNode_outside (hc : d.Closed) (c : NumCfg) (n : Nat) (hn : d.size ≤ n) :
    (getPreviousNode d c n).toOption = none := by
  obtain ⟨h1, h2, _⟩ := hc n hn
  unfold getPreviousNode
  cases c.level
  · simp [prevSibling, h2, PrevRes.toOption]
  · simp [prevSibling, h2, PrevRes.toOption]
  · simp only [prevAny, h1, h2]
    cases c.fromP <;> simp [PrevRes.toOption]

/-- `getPreviousNode` moves strictly backwards in document order on every well-formed document: the
hypothesis of the history theorem holds for the transcribed navigation. -/
theorem getPreviousNode_lt (h : d.WF) (c : NumCfg) (n m : Nat) (hn : n < d.size)
    (hm : (getPreviousNode d c n).toOption = some m) : m < n := by
  unfold getPreviousNode at hm
  cases hl : c.level with
  | any =>
    simp only [hl] at hm
    cases hr : prevAny d c n (n + 1) n with
    | nullDeref => simp [hr, PrevRes.toOption] at hm
    | ret r =>
      simp only [hr, PrevRes.toOption] at hm
      subst hm
      exact prevAny_lt h c n (n + 1) n m hn hr
  | single =>
    simp only [hl, PrevRes.toOption] at hm
    exact prevSibling_lt h c n (n + 1) n m hn hm
  | multiple =>
    simp only [hl, PrevRes.toOption] at hm
    exact prevSibling_lt h c n (n + 1) n m hn hm

end XalanModel.C17

namespace XalanModel.C17

/-! ## `level="any"` without `from` -/

/-- greatest `m ≤ n` with `f m` -/
def lastLE (f : Nat → Bool) : Nat → Option Nat
  | 0 => if f 0 then some 0 else none
  | m + 1 => if f (m + 1) then some (m + 1) else lastLE f m

/-- number of `m ≤ n` with `f m` -/
def countLE (f : Nat → Bool) : Nat → Nat
  | 0 => if f 0 then 1 else 0
  | m + 1 => countLE f m + (if f (m + 1) then 1 else 0)

theorem specAny_eq_countLE (f : Nat → Bool) (cur : Nat) : specAny f none cur = [countLE f cur] := by
  unfold specAny
  simp only [loBound, Nat.zero_le, true_and, Bool.decide_eq_true, List.cons.injEq, and_true]
  induction cur with
  | zero => simp [countLE, List.range_succ]; split <;> simp_all
  | succ k ih =>
    rw [List.range_succ, List.filter_append, List.length_append, ih]
    simp only [countLE, List.filter_cons, List.filter_nil]
    split <;> simp

variable {d : Doc}

theorem findPOAS_nofrom (h : d.WF) (c : NumCfg) (hf : c.fromP = none) (src : Nat) :
    ∀ (fuel pos : Nat), pos < d.size → pos < fuel →
      findPrecedingOrAncestorOrSelf d c src fuel (some pos) = lastLE (c.countAt src) pos := by
  intro fuel
  induction fuel with
  | zero => intro pos _ h2; omega
  | succ f ih =>
    intro pos hp hfu
    have hfm : c.fromMatches pos = false := by simp [NumCfg.fromMatches, hf]
    simp only [findPrecedingOrAncestorOrSelf, hfm, Bool.false_eq_true, if_false]
    cases pos with
    | zero =>
      simp only [lastLE]
      split
      · rfl
      · rw [h.2.2.1, h.2.1]
        cases f <;> simp [findPrecedingOrAncestorOrSelf]
    | succ k =>
      simp only [lastLE]
      split
      · rfl
      · cases hs : d.prevSib (k + 1) with
        | none =>
          simp only
          rw [h.parent_eq hp (by omega) hs]
          exact ih k (by omega) (by omega)
        | some s =>
          simp only
          rw [h.dive_eq hp hs]
          exact ih k (by omega) (by omega)

theorem prevAny_nofrom (h : d.WF) (c : NumCfg) (hf : c.fromP = none) (src : Nat)
    (hroot : c.countAt src 0 = false) :
    ∀ (fuel pos : Nat), pos < d.size → pos < fuel →
      prevAny d c src fuel pos = .ret (lastBefore (c.countAt src) pos) := by
  intro fuel
  induction fuel with
  | zero => intro pos _ h2; omega
  | succ f ih =>
    intro pos hp hfu
    have hfm : ∀ n, c.fromMatches n = false := by intro n; simp [NumCfg.fromMatches, hf]
    simp only [prevAny]
    cases pos with
    | zero =>
      rw [h.2.2.1, h.2.1]
      simp [hf, lastBefore]
    | succ k =>
      simp only [lastBefore]
      cases hs : d.prevSib (k + 1) with
      | none =>
        simp only
        rw [h.parent_eq hp (by omega) hs]
        simp only [Nat.add_sub_cancel, hfm, Bool.or_false, Doc.isDocNode]
        cases k with
        | zero => simp [hroot, lastBefore]
        | succ j =>
          have : (decide (j + 1 = 0)) = false := by simp
          simp only [this, Bool.false_eq_true, if_false]
          split
          · rfl
          · exact ih (j + 1) (by omega) (by omega)
      | some s =>
        simp only
        rw [h.dive_eq hp hs]
        simp only [Nat.add_sub_cancel]
        split
        · rfl
        · exact ih k (by omega) (by omega)

theorem lastBefore_spec (f : Nat → Bool) : ∀ (n m : Nat), lastBefore f n = some m →
    m < n ∧ f m = true ∧ (n = 0 ∨ countLE f (n - 1) = countLE f m) := by
  intro n
  induction n with
  | zero => intro m h; simp [lastBefore] at h
  | succ k ih =>
    intro m h
    simp only [lastBefore] at h
    split at h
    · rename_i hk
      cases h
      exact ⟨by omega, hk, Or.inr (by simp)⟩
    · rename_i hk
      obtain ⟨h1, h2, h3⟩ := ih m h
      refine ⟨by omega, h2, Or.inr ?_⟩
      simp only [Nat.add_sub_cancel]
      cases k with
      | zero => omega
      | succ j =>
        rcases h3 with h3 | h3
        · omega
        · simp only [Nat.add_sub_cancel] at h3
          simp only [countLE, hk, Bool.false_eq_true, if_false, Nat.add_zero]
          exact h3

theorem lastBefore_none (f : Nat → Bool) : ∀ (n : Nat), lastBefore f n = none → n = 0 ∨ countLE f (n - 1) = 0 := by
  intro n
  induction n with
  | zero => intro _; left; rfl
  | succ k ih =>
    intro h
    simp only [lastBefore] at h
    split at h
    · cases h
    · rename_i hk
      right
      simp only [Nat.add_sub_cancel]
      cases k with
      | zero => simp [countLE, hk]
      | succ j =>
        rcases ih h with h3 | h3
        · omega
        · simp only [Nat.add_sub_cancel] at h3
          simp [countLE, hk, h3]

theorem lastLE_spec (f : Nat → Bool) : ∀ (n : Nat),
    (lastLE f n = none ∧ countLE f n = 0) ∨
    (∃ t, lastLE f n = some t ∧ t ≤ n ∧ f t = true ∧ countLE f n = countLE f t) := by
  intro n
  induction n with
  | zero =>
    simp only [lastLE, countLE]
    split
    · rename_i h0; right; exact ⟨0, rfl, by omega, h0, by simp [countLE, h0]⟩
    · left; exact ⟨rfl, rfl⟩
  | succ k ih =>
    simp only [lastLE, countLE]
    split
    · rename_i hk
      right; exact ⟨k + 1, rfl, by omega, hk, by simp [countLE, hk]⟩
    · rename_i hk
      rcases ih with ⟨h1, h2⟩ | ⟨t, h1, h2, h3, h4⟩
      · left; exact ⟨h1, by simp [h2]⟩
      · right; exact ⟨t, h1, by omega, h3, by simp [h4]⟩

/-- chain length of the `level="any"` walk = number of matching nodes up to the target -/
theorem chainLen_any (prev : Nat → Option Nat) (f : Nat → Bool) (B : Nat)
    (hprev : ∀ n, n < B → f n = true → prev n = lastBefore f n) :
    ∀ (fuel t : Nat), t < fuel → t < B → f t = true → chainLen prev fuel (some t) = countLE f t := by
  intro fuel
  induction fuel with
  | zero => intro t h; omega
  | succ g ih =>
    intro t ht htB hft
    simp only [chainLen, hprev t htB hft]
    cases hl : lastBefore f t with
    | none =>
      have := lastBefore_none f t hl
      cases t with
      | zero => cases g <;> simp [chainLen, countLE, hft]
      | succ k =>
        rcases this with h0 | h0
        · omega
        · simp only [Nat.add_sub_cancel] at h0
          cases g <;> simp [chainLen, countLE, hft, h0]
    | some m =>
      obtain ⟨h1, h2, h3⟩ := lastBefore_spec f t m hl
      rw [ih m (by omega) (by omega) h2]
      cases t with
      | zero => omega
      | succ k =>
        rcases h3 with h3 | h3
        · omega
        · simp only [Nat.add_sub_cancel] at h3
          simp only [countLE, hft, if_true, h3]
          omega


theorem getPreviousNode_decreases (h : d.WF) (hc : d.Closed) (c : NumCfg) :
    ∀ n m, (getPreviousNode d c n).toOption = some m → m < n := by
  intro n m hm
  by_cases hn : n < d.size
  · exact getPreviousNode_lt h c n m hn hm
  · rw [getPreviousNode_outside hc c n (by omega)] at hm
    cases hm

/-- `level="any"`, no `from`: the counting code (navigation + cache, any history, any oracle) yields the
number of count-matching nodes up to the current node; nothing is printed for zero. -/
theorem getCountList_any_nofrom (h : d.WF) (hc : d.Closed) (c : NumCfg) (hl : c.level = .any)
    (hf : c.fromP = none) (hcons : ∀ a b, c.countAt a b = true → c.countAt b = c.countAt a)
    (src : Nat) (hs : src < d.size) (hroot : c.countAt src 0 = false)
    (after : Nat → Nat → Bool) (cs : List Counter)
    (hinv : CountersInv (fun n => (getPreviousNode d c n).toOption) cs) :
    (getCountList d c after cs src).2 = (specAny (c.countAt src) none src).filter (· ≠ 0) ∧
    CountersInv (fun n => (getPreviousNode d c n).toOption) (getCountList d c after cs src).1 := by
  have hdec := getPreviousNode_decreases h hc c
  have hcn := countNode_spec (getTargetNode d c) hdec after cs hinv src
  have htarget : getTargetNode d c src = lastLE (c.countAt src) src := by
    unfold getTargetNode
    rw [hl]
    exact findPOAS_nofrom h c hf src (src + 1) src hs (by omega)
  rw [specAny_eq_countLE]
  unfold getCountList countTargets
  simp only [hl, countList]
  refine ⟨?_, hcn.2⟩
  rw [hcn.1]
  unfold countSpec
  rw [htarget]
  rcases lastLE_spec (c.countAt src) src with ⟨h1, h2⟩ | ⟨t, h1, h2, h3, h4⟩
  · simp [h1, h2]
  · simp only [h1, h4]
    have hprev : ∀ n, n < d.size → c.countAt src n = true →
        (getPreviousNode d c n).toOption = lastBefore (c.countAt src) n := by
      intro n hn hfn
      have he := hcons src n hfn
      unfold getPreviousNode
      rw [hl]
      simp only
      rw [prevAny_nofrom h c hf n (by rw [he]; exact hroot) (n + 1) n hn (by omega), he]
      rfl
    have := chainLen_any _ (c.countAt src) d.size hprev (t + 1) t (by omega) (by omega) h3
    rw [this]


/-! ## `level="single"` / `level="multiple"` -/

theorem precedingSiblings_fuel (h : d.WF) : ∀ (f1 f2 n : Nat), n < d.size → n < f1 → n < f2 →
    d.precedingSiblings f1 n = d.precedingSiblings f2 n := by
  intro f1
  induction f1 with
  | zero => intro f2 n _ h1; omega
  | succ f ih =>
    intro f2 n hn h1 h2
    cases f2 with
    | zero => omega
    | succ g =>
      simp only [Doc.precedingSiblings]
      cases hs : d.prevSib n with
      | none => rfl
      | some s =>
        have := h.prevSib_lt hn hs
        simp only
        rw [ih g s (by omega) (by omega) (by omega)]

theorem prevSibling_fuel (h : d.WF) (c : NumCfg) (src : Nat) : ∀ (f1 f2 n : Nat), n < d.size → n < f1 → n < f2 →
    prevSibling d c src f1 n = prevSibling d c src f2 n := by
  intro f1
  induction f1 with
  | zero => intro f2 n _ h1; omega
  | succ f ih =>
    intro f2 n hn h1 h2
    cases f2 with
    | zero => omega
    | succ g =>
      simp only [prevSibling]
      cases hs : d.prevSib n with
      | none => rfl
      | some s =>
        have := h.prevSib_lt hn hs
        simp only
        rw [ih g s (by omega) (by omega) (by omega)]

theorem ancestors_fuel (h : d.WF) : ∀ (f1 f2 n : Nat), n < d.size → n ≤ f1 → n ≤ f2 →
    d.ancestors f1 n = d.ancestors f2 n := by
  intro f1
  induction f1 with
  | zero =>
    intro f2 n _ h1 _
    have : n = 0 := by omega
    subst this
    cases f2 <;> simp [Doc.ancestors, h.2.1]
  | succ f ih =>
    intro f2 n hn h1 h2
    cases f2 with
    | zero =>
      have : n = 0 := by omega
      subst this
      simp [Doc.ancestors, h.2.1]
    | succ g =>
      simp only [Doc.ancestors]
      cases hp : d.parent n with
      | none => rfl
      | some p =>
        have := h.parent_lt hn hp
        simp only
        rw [ih g p (by omega) (by omega) (by omega)]

theorem ancestors_lt (h : d.WF) : ∀ (f n : Nat), n < d.size → ∀ a ∈ d.ancestors f n, a < n := by
  intro f
  induction f with
  | zero => intro n _ a ha; simp [Doc.ancestors] at ha
  | succ f ih =>
    intro n hn a ha
    simp only [Doc.ancestors] at ha
    cases hp : d.parent n with
    | none => simp [hp] at ha
    | some p =>
      have hlt := h.parent_lt hn hp
      simp only [hp, List.mem_cons] at ha
      rcases ha with rfl | ha
      · exact hlt
      · have := ih p (by omega) a ha
        omega

/-- the sibling walk: chain length from the first matching preceding sibling = number of matching
preceding siblings -/
theorem chainLen_siblings (h : d.WF) (c : NumCfg) (g : Nat → Bool)
    (prev : Nat → Option Nat) (hdec : ∀ n m, prev n = some m → m < n)
    (hprev : ∀ n, n < d.size → g n = true → prev n = prevSibling d c n (n + 1) n)
    (hg : ∀ n, g n = true → c.countAt n = g) :
    ∀ (bound pos : Nat), pos < bound → pos < d.size → ∀ src, c.countAt src = g → ∀ fuel, pos ≤ fuel →
      chainLen prev fuel (prevSibling d c src (pos + 1) pos) =
        ((d.precedingSiblings (pos + 1) pos).filter g).length := by
  intro bound
  induction bound with
  | zero => intro pos hb; omega
  | succ b ih =>
    intro pos hb hsz src hsrc fuel hfu
    simp only [prevSibling, Doc.precedingSiblings]
    cases hs : d.prevSib pos with
    | none => cases fuel <;> simp [chainLen]
    | some s =>
      have hlt := h.prevSib_lt hsz hs
      simp only
      have hps : d.precedingSiblings pos s = d.precedingSiblings (s + 1) s :=
        precedingSiblings_fuel h pos (s + 1) s (by omega) hlt (by omega)
      have hpv : prevSibling d c src pos s = prevSibling d c src (s + 1) s :=
        prevSibling_fuel h c src pos (s + 1) s (by omega) hlt (by omega)
      rw [hps, hpv]
      have ihs := ih s (by omega) (by omega)
      simp only [hsrc]
      by_cases hgs : g s = true
      · simp only [hgs, if_true, List.filter_cons, List.length_cons]
        cases fuel with
        | zero => omega
        | succ f =>
          simp only [chainLen]
          rw [hprev s (by omega) hgs]
          rw [ihs s (hg s hgs) f (by omega)]
          omega
      · simp only [hgs, Bool.false_eq_true, if_false, List.filter_cons]
        exact ihs src hsrc fuel (by omega)

theorem findAncestor_self (c : NumCfg) (a : Nat) (ha : c.countAt a a = true) :
    findAncestor d c a (a + 1) (some a) = some a := by
  simp only [findAncestor]
  split
  · rfl
  · simp [ha]

/-- every `countNode` call made for `single`/`multiple` answers the sibling number of its node -/
theorem countNode_sibling (h : d.WF) (hc : d.Closed) (c : NumCfg) (hl : c.level ≠ .any)
    (g : Nat → Bool) (hg : ∀ n, g n = true → c.countAt n = g)
    (after : Nat → Nat → Bool) (cs : List Counter)
    (hinv : CountersInv (fun n => (getPreviousNode d c n).toOption) cs)
    (a : Nat) (ha : a < d.size) (hga : g a = true) :
    (countNode (getTargetNode d c) (fun n => (getPreviousNode d c n).toOption) after cs a).2 = siblingNumber d g a ∧
    CountersInv (fun n => (getPreviousNode d c n).toOption) (countNode (getTargetNode d c) (fun n => (getPreviousNode d c n).toOption) after cs a).1 := by
  have hdec := getPreviousNode_decreases h hc c
  have hcn := countNode_spec (getTargetNode d c) hdec after cs hinv a
  refine ⟨?_, hcn.2⟩
  rw [hcn.1]
  have hprev : ∀ n, (getPreviousNode d c n).toOption = prevSibling d c n (n + 1) n := by
    intro n
    unfold getPreviousNode
    cases hlv : c.level with
    | any => exact absurd hlv hl
    | single => rfl
    | multiple => rfl
  have htarget : getTargetNode d c a = some a := by
    unfold getTargetNode
    have haa : c.countAt a a = true := by rw [hg a hga]; exact hga
    cases hlv : c.level with
    | any => exact absurd hlv hl
    | single => exact findAncestor_self c a haa
    | multiple => exact findAncestor_self c a haa
  unfold countSpec
  rw [htarget]
  simp only [chainLen, hprev a]
  unfold siblingNumber
  cases a with
  | zero =>
    -- the document node has no siblings
    simp [prevSibling, Doc.precedingSiblings, h.2.2.1, chainLen]
  | succ k =>
    have hk := chainLen_siblings h c g (fun n => (getPreviousNode d c n).toOption) hdec
      (fun n _ _ => hprev n) hg (k + 2) (k + 1) (by omega) ha (k + 1) (hg (k + 1) hga) (k + 1) (by omega)
    rw [hk]

theorem countList_siblings (h : d.WF) (hc : d.Closed) (c : NumCfg) (hl : c.level ≠ .any)
    (g : Nat → Bool) (hg : ∀ n, g n = true → c.countAt n = g) (after : Nat → Nat → Bool) :
    ∀ (L : List Nat) (cs : List Counter), (∀ a ∈ L, a < d.size ∧ g a = true) →
      CountersInv (fun n => (getPreviousNode d c n).toOption) cs →
      (countList (getTargetNode d c) (fun n => (getPreviousNode d c n).toOption) after cs L).2 = L.map (siblingNumber d g) ∧
      CountersInv (fun n => (getPreviousNode d c n).toOption)
        (countList (getTargetNode d c) (fun n => (getPreviousNode d c n).toOption) after cs L).1 := by
  intro L
  induction L with
  | nil => intro cs _ hinv; exact ⟨rfl, hinv⟩
  | cons a rest ih =>
    intro cs hL hinv
    have ha := hL a (by simp)
    have h1 := countNode_sibling h hc c hl g hg after cs hinv a ha.1 ha.2
    have h2 := ih _ (fun x hx => hL x (by simp [hx])) h1.2
    constructor
    · simp only [countList, List.map_cons, h1.1, h2.1]
    · simpa only [countList] using h2.2

/-- `getMatchingAncestors`, `multiple`: the ancestor-or-self nodes up to (excluding) the first one matching
`from`, filtered by `count` -/
theorem getMatchingAncestors_multiple (c : NumCfg) (src : Nat) : ∀ (f node : Nat),
    getMatchingAncestors d c src false (f + 1) (some node) =
      ((node :: d.ancestors f node).takeWhile (fun a => !c.fromMatches a)).filter (c.countAt src) := by
  intro f
  induction f with
  | zero =>
    intro node
    by_cases hfm : c.fromMatches node = true <;> by_cases hcn : c.countAt src node = true <;>
      simp [getMatchingAncestors, Doc.ancestors, hfm, hcn]
  | succ f ih =>
    intro node
    rw [getMatchingAncestors]
    cases hp : d.parent node with
    | none =>
      by_cases hfm : c.fromMatches node = true <;> by_cases hcn : c.countAt src node = true <;>
        simp [getMatchingAncestors, Doc.ancestors, hfm, hcn, hp]
    | some p =>
      rw [ih p]
      by_cases hfm : c.fromMatches node = true <;> by_cases hcn : c.countAt src node = true <;>
        simp [Doc.ancestors, hfm, hcn, hp]

/-- `getMatchingAncestors`, `single`: the first ancestor-or-self matching `count`; `from` is not consulted -/
theorem getMatchingAncestors_single (c : NumCfg) (src : Nat) : ∀ (f node : Nat),
    getMatchingAncestors d c src true (f + 1) (some node) =
      ((node :: d.ancestors f node).find? (c.countAt src)).toList := by
  intro f
  induction f with
  | zero =>
    intro node
    by_cases hcn : c.countAt src node = true <;>
      simp [getMatchingAncestors, Doc.ancestors, hcn]
  | succ f ih =>
    intro node
    rw [getMatchingAncestors]
    cases hp : d.parent node with
    | none =>
      by_cases hcn : c.countAt src node = true <;>
        simp [getMatchingAncestors, Doc.ancestors, hcn, hp]
    | some p =>
      rw [ih p]
      by_cases hcn : c.countAt src node = true <;>
        simp [Doc.ancestors, hcn, hp]


theorem takeWhile_all {α : Type} (p : α → Bool) : ∀ (l : List α), (∀ a ∈ l, p a = true) → l.takeWhile p = l := by
  intro l
  induction l with
  | nil => intro _; rfl
  | cons x xs ih =>
    intro hp
    simp only [List.takeWhile_cons, hp x (by simp), if_true, List.cons.injEq, true_and]
    exact ih (fun a ha => hp a (by simp [ha]))

theorem aos_lt (h : d.WF) (src : Nat) (hs : src < d.size) :
    ∀ a ∈ src :: d.ancestors (src + 1) src, a < d.size := by
  intro a ha
  simp only [List.mem_cons] at ha
  rcases ha with rfl | ha
  · exact hs
  · have := ancestors_lt h (src + 1) src hs a ha
    omega

/-- `level="multiple"`: the counting code yields the §7.7 list whenever the current node itself does not
match `from` (in particular whenever `from` is absent). -/
theorem getCountList_multiple (h : d.WF) (hc : d.Closed) (c : NumCfg) (hl : c.level = .multiple)
    (hcons : ∀ a b, c.countAt a b = true → c.countAt b = c.countAt a)
    (src : Nat) (hs : src < d.size) (hself : c.fromMatches src = false)
    (after : Nat → Nat → Bool) (cs : List Counter)
    (hinv : CountersInv (fun n => (getPreviousNode d c n).toOption) cs) :
    (getCountList d c after cs src).2 = specMultiple d (c.countAt src) c.fromP src ∧
    CountersInv (fun n => (getPreviousNode d c n).toOption) (getCountList d c after cs src).1 := by
  have hne : c.level ≠ .any := by rw [hl]; decide
  have hanc : d.ancestors src src = d.ancestors (src + 1) src :=
    ancestors_fuel h src (src + 1) src hs (by omega) (by omega)
  have hsearched : (src :: d.ancestors (src + 1) src).takeWhile (fun a => !c.fromMatches a) =
      searched d c.fromP src := by
    unfold searched
    simp only [List.takeWhile_cons, hself, Bool.not_false, if_true]
    cases hfp : c.fromP with
    | none =>
      simp only [List.cons.injEq, true_and]
      apply takeWhile_all
      intro a _
      simp [NumCfg.fromMatches, hfp]
    | some f =>
      simp only [List.cons.injEq, true_and]
      congr 1
      funext a
      simp [NumCfg.fromMatches, hfp]
  have htargets : countTargets d c src = ((searched d c.fromP src).filter (c.countAt src)).reverse := by
    unfold countTargets
    rw [hl]
    simp only
    rw [getMatchingAncestors_multiple c src src src, hanc, hsearched]
  have hall : ∀ a ∈ ((searched d c.fromP src).filter (c.countAt src)).reverse,
      a < d.size ∧ c.countAt src a = true := by
    intro a ha
    simp only [List.mem_reverse, List.mem_filter] at ha
    refine ⟨?_, ha.2⟩
    rw [← hsearched] at ha
    exact aos_lt h src hs a ((List.takeWhile_sublist _).subset ha.1)
  have := countList_siblings h hc c hne (c.countAt src) (fun n hn => hcons src n hn) after _ cs hall hinv
  unfold getCountList
  rw [htargets]
  simp only [hl]
  exact ⟨this.1, this.2⟩

/-- `level="single"`: the counting code yields the §7.7 list *of the instruction without its `from`
attribute* — `from` is not consulted at all. -/
theorem getCountList_single (h : d.WF) (hc : d.Closed) (c : NumCfg) (hl : c.level = .single)
    (hcons : ∀ a b, c.countAt a b = true → c.countAt b = c.countAt a)
    (src : Nat) (hs : src < d.size)
    (after : Nat → Nat → Bool) (cs : List Counter)
    (hinv : CountersInv (fun n => (getPreviousNode d c n).toOption) cs) :
    (getCountList d c after cs src).2 = specSingle d (c.countAt src) none src ∧
    CountersInv (fun n => (getPreviousNode d c n).toOption) (getCountList d c after cs src).1 := by
  have hne : c.level ≠ .any := by rw [hl]; decide
  have hanc : d.ancestors src src = d.ancestors (src + 1) src :=
    ancestors_fuel h src (src + 1) src hs (by omega) (by omega)
  have htargets : countTargets d c src =
      ((src :: d.ancestors (src + 1) src).find? (c.countAt src)).toList := by
    unfold countTargets
    rw [hl]
    simp only
    rw [getMatchingAncestors_single c src src src, hanc]
    cases ((src :: d.ancestors (src + 1) src).find? (c.countAt src)) <;> simp
  have hall : ∀ a ∈ ((src :: d.ancestors (src + 1) src).find? (c.countAt src)).toList,
      a < d.size ∧ c.countAt src a = true := by
    intro a ha
    simp only [Option.mem_toList] at ha
    exact ⟨aos_lt h src hs a (List.mem_of_find?_eq_some ha), by simpa using List.find?_some ha⟩
  have := countList_siblings h hc c hne (c.countAt src) (fun n hn => hcons src n hn) after _ cs hall hinv
  unfold getCountList
  rw [htargets]
  simp only [hl]
  refine ⟨?_, this.2⟩
  rw [this.1]
  unfold specSingle searched
  simp only
  cases ((src :: d.ancestors (src + 1) src).find? (c.countAt src)) <;> simp

/-! ## `level="any"` with `from` (from-matching nodes have children) -/


theorem Doc.WF.prevSib_pos (h : d.WF) {n s : Nat} (hn : n < d.size) (hp : d.prevSib n = some s) : 0 < s := by
  obtain ⟨_, _, h0, hall, _⟩ := h
  cases n with
  | zero => rw [h0] at hp; cases hp
  | succ k =>
    have := (hall (k + 1) hn (by omega)).2.2.2
    rw [hp] at this
    have h2 : 0 < s ∧ s < k + 1 := by simpa using this
    exact h2.1

theorem Doc.WF.lastChild_gt (h : d.WF) {n c : Nat} (hn : n < d.size) (hc : d.lastChild n = some c) : n < c ∧ c < d.size := by
  have := h.2.2.2.2 n hn
  rw [hc] at this
  simpa using this

theorem deepestLast_ge (h : d.WF) : ∀ (f s : Nat), s < d.size → s ≤ d.deepestLast f s ∧ d.deepestLast f s < d.size := by
  intro f
  induction f with
  | zero => intro s hs; simp [Doc.deepestLast, hs]
  | succ f ih =>
    intro s hs
    simp only [Doc.deepestLast]
    cases hc : d.lastChild s with
    | none => simp [hs]
    | some c =>
      have := h.lastChild_gt hs hc
      have := ih c this.2
      simp only
      omega

theorem deepestLast_leaf (h : d.WF) : ∀ (f s : Nat), s < d.size → d.size ≤ s + f →
    d.lastChild (d.deepestLast f s) = none := by
  intro f
  induction f with
  | zero => intro s hs hf; omega
  | succ f ih =>
    intro s hs hf
    simp only [Doc.deepestLast]
    cases hc : d.lastChild s with
    | none => simpa using hc
    | some c =>
      have := h.lastChild_gt hs hc
      exact ih c this.2 (by omega)

/-- `findPrecedingOrAncestorOrSelf` with `from` -/
def lastLEF (f g : Nat → Bool) : Nat → Option Nat
  | 0 => if f 0 then none else if g 0 then some 0 else none
  | m + 1 => if f (m + 1) then none else if g (m + 1) then some (m + 1) else lastLEF f g m

/-- `getPreviousNode` (`any`) with `from`, when no childless node matches `from` -/
def lastBeforeF (f g : Nat → Bool) : Nat → Option Nat
  | 0 => none
  | m + 1 => if f m then none else if g m then some m else lastBeforeF f g m

/-- scanning down from `n`: stop at the first `f`, count the `g` -/
def cntDown (f g : Nat → Bool) : Nat → Nat
  | 0 => if f 0 then 0 else if g 0 then 1 else 0
  | m + 1 => if f (m + 1) then 0 else (if g (m + 1) then 1 else 0) + cntDown f g m

theorem findPOAS_from (h : d.WF) (c : NumCfg) (src : Nat) :
    ∀ (fuel pos : Nat), pos < d.size → pos < fuel →
      findPrecedingOrAncestorOrSelf d c src fuel (some pos) = lastLEF c.fromMatches (c.countAt src) pos := by
  intro fuel
  induction fuel with
  | zero => intro pos _ h2; omega
  | succ f ih =>
    intro pos hp hfu
    simp only [findPrecedingOrAncestorOrSelf]
    cases pos with
    | zero =>
      simp only [lastLEF]
      split
      · rfl
      · split
        · rfl
        · rw [h.2.2.1, h.2.1]
          cases f <;> simp [findPrecedingOrAncestorOrSelf]
    | succ k =>
      simp only [lastLEF]
      split
      · rfl
      · split
        · rfl
        · cases hs : d.prevSib (k + 1) with
          | none =>
            simp only
            rw [h.parent_eq hp (by omega) hs]
            exact ih k (by omega) (by omega)
          | some s =>
            simp only
            rw [h.dive_eq hp hs]
            exact ih k (by omega) (by omega)

theorem prevAny_from (h : d.WF) (c : NumCfg) (src : Nat) (hroot : c.countAt src 0 = false)
    (hleaf : ∀ m, m < d.size → c.fromMatches m = true → (d.lastChild m).isSome = true) :
    ∀ (fuel pos : Nat), pos < d.size → pos < fuel → 1 ≤ pos →
      prevAny d c src fuel pos = .ret (lastBeforeF c.fromMatches (c.countAt src) pos) := by
  intro fuel
  induction fuel with
  | zero => intro pos _ h2; omega
  | succ f ih =>
    intro pos hp hfu h1
    simp only [prevAny]
    obtain ⟨k, rfl⟩ : ∃ k, pos = k + 1 := ⟨pos - 1, by omega⟩
    simp only [lastBeforeF]
    cases hs : d.prevSib (k + 1) with
    | none =>
      simp only
      rw [h.parent_eq hp (by omega) hs]
      simp only [Nat.add_sub_cancel, Doc.isDocNode]
      cases k with
      | zero =>
        simp only [decide_true, Bool.true_or, if_true]
        split
        · rfl
        · simp [hroot, lastBeforeF]
      | succ j =>
        have : (decide (j + 1 = 0)) = false := by simp
        simp only [this, Bool.false_or]
        split
        · rfl
        · split
          · rfl
          · exact ih (j + 1) (by omega) (by omega) (by omega)
    | some s =>
      simp only
      have hsl := h.prevSib_lt hp hs
      have hsp := h.prevSib_pos hp hs
      have hdive := h.dive_eq hp hs
      have hge := deepestLast_ge h d.size s (by omega)
      have hleafk : d.lastChild (d.deepestLast d.size s) = none := deepestLast_leaf h d.size s (by omega) (by omega)
      rw [hdive] at hleafk hge ⊢
      simp only [Nat.add_sub_cancel] at hleafk hge ⊢
      have hfk : c.fromMatches k = false := by
        cases hfm : c.fromMatches k with
        | false => rfl
        | true =>
          have := hleaf k (by omega) hfm
          rw [hleafk] at this
          cases this
      simp only [hfk, Bool.false_eq_true, if_false]
      split
      · rfl
      · exact ih k (by omega) (by omega) (by omega)

theorem lastLEF_spec (f g : Nat → Bool) : ∀ (n : Nat),
    (lastLEF f g n = none ∧ cntDown f g n = 0) ∨
    (∃ t, lastLEF f g n = some t ∧ t ≤ n ∧ g t = true ∧ f t = false ∧ cntDown f g n = cntDown f g t) := by
  intro n
  induction n with
  | zero =>
    simp only [lastLEF, cntDown]
    by_cases hf : f 0 = true
    · left; simp [hf]
    · by_cases hg : g 0 = true
      · right; exact ⟨0, by simp [hf, hg], by omega, hg, by simpa using hf, rfl⟩
      · left; simp [hf, hg]
  | succ k ih =>
    simp only [lastLEF, cntDown]
    by_cases hf : f (k + 1) = true
    · left; simp [hf]
    · by_cases hg : g (k + 1) = true
      · right; exact ⟨k + 1, by simp [hf, hg], by omega, hg, by simpa using hf, rfl⟩
      · rcases ih with ⟨h1, h2⟩ | ⟨t, h1, h2, h3, h4, h5⟩
        · left; simp [hf, hg, h1, h2]
        · right; exact ⟨t, by simp [hf, hg, h1], by omega, h3, h4, by simp [hf, hg, h5]⟩

theorem lastBeforeF_succ (f g : Nat → Bool) (m : Nat) :
    lastBeforeF f g (m + 1) = if f m then none else if g m then some m else lastBeforeF f g m := rfl

theorem cntDown_succ (f g : Nat → Bool) (m : Nat) :
    cntDown f g (m + 1) = if f (m + 1) then 0 else (if g (m + 1) then 1 else 0) + cntDown f g m := rfl

theorem lastBeforeF_spec (f g : Nat → Bool) : ∀ (t : Nat),
    (lastBeforeF f g (t + 1) = none → cntDown f g t = 0) ∧
    (∀ m, lastBeforeF f g (t + 1) = some m → m ≤ t ∧ g m = true ∧ f m = false ∧ cntDown f g t = cntDown f g m) := by
  intro t
  induction t with
  | zero =>
    rw [lastBeforeF_succ]
    by_cases hf : f 0 = true
    · simp [hf, cntDown]
    · by_cases hg : g 0 = true
      · simp [hf, hg]
      · simp [hf, hg, cntDown, lastBeforeF]
  | succ k ih =>
    rw [lastBeforeF_succ, cntDown_succ]
    by_cases hf : f (k + 1) = true
    · simp [hf]
    · by_cases hg : g (k + 1) = true
      · simp only [hf, hg, Bool.false_eq_true, if_false, if_true]
        refine ⟨(by intro h; cases h), ?_⟩
        intro m hm
        simp only [Option.some.injEq] at hm
        subst hm
        exact ⟨by omega, hg, by simpa using hf, by rw [cntDown_succ]; simp [hf, hg]⟩
      · simp only [hf, hg, Bool.false_eq_true, if_false, Nat.zero_add]
        refine ⟨ih.1, ?_⟩
        intro m hm
        have := ih.2 m hm
        exact ⟨by omega, this.2.1, this.2.2.1, this.2.2.2⟩

theorem chainLen_anyF (prev : Nat → Option Nat) (f g : Nat → Bool) (B : Nat)
    (hprev : ∀ n, n < B → 1 ≤ n → g n = true → prev n = lastBeforeF f g n) (hroot : g 0 = false) :
    ∀ (fuel t : Nat), t < fuel → t < B → g t = true → f t = false →
      chainLen prev fuel (some t) = cntDown f g t := by
  intro fuel
  induction fuel with
  | zero => intro t h; omega
  | succ q ih =>
    intro t ht htB hgt hft
    cases t with
    | zero => rw [hroot] at hgt; cases hgt
    | succ k =>
      simp only [chainLen, hprev (k + 1) htB (by omega) hgt]
      have hs := lastBeforeF_spec f g k
      rw [cntDown_succ]
      simp only [hft, hgt, Bool.false_eq_true, if_false, if_true]
      cases hl : lastBeforeF f g (k + 1) with
      | none =>
        have := hs.1 hl
        cases q <;> simp [chainLen, this]
      | some m =>
        have := hs.2 m hl
        rw [ih m (by omega) (by omega) this.2.1 this.2.2.1, this.2.2.2]


theorem lastBefore_between (f : Nat → Bool) : ∀ (n : Nat),
    (lastBefore f n = none → ∀ m, m < n → f m = false) ∧
    (∀ F, lastBefore f n = some F → F < n ∧ f F = true ∧ ∀ m, F < m → m < n → f m = false) := by
  intro n
  induction n with
  | zero => exact ⟨fun _ m hm => by omega, fun F h => by simp [lastBefore] at h⟩
  | succ k ih =>
    simp only [lastBefore]
    by_cases hk : f k = true
    · simp only [hk, if_true]
      refine ⟨(by intro h; cases h), ?_⟩
      intro F hF
      simp only [Option.some.injEq] at hF
      subst hF
      exact ⟨by omega, hk, fun m h1 h2 => by omega⟩
    · simp only [hk, Bool.false_eq_true, if_false]
      have hkf : f k = false := by simpa using hk
      refine ⟨?_, ?_⟩
      · intro h m hm
        by_cases hmk : m = k
        · subst hmk; exact hkf
        · exact ih.1 h m (by omega)
      · intro F hF
        obtain ⟨h1, h2, h3⟩ := ih.2 F hF
        refine ⟨by omega, h2, ?_⟩
        intro m hm1 hm2
        by_cases hmk : m = k
        · subst hmk; exact hkf
        · exact h3 m hm1 (by omega)

theorem filter_range_lt (g : Nat → Bool) (lo : Nat) : ∀ (n : Nat), n < lo →
    ((List.range (n + 1)).filter (fun m => decide (lo ≤ m ∧ g m = true))).length = 0 := by
  intro n hn
  have : (List.range (n + 1)).filter (fun m => decide (lo ≤ m ∧ g m = true)) = [] := by
    apply List.filter_eq_nil_iff.mpr
    intro a ha
    simp only [List.mem_range] at ha
    simp; omega
  rw [this]; rfl

theorem cntDown_range (f g : Nat → Bool) (lo : Nat) : ∀ (n : Nat), lo ≤ n + 1 →
    (∀ m, lo ≤ m → m ≤ n → f m = false) → (lo = 0 ∨ f (lo - 1) = true) →
    cntDown f g n = ((List.range (n + 1)).filter (fun m => decide (lo ≤ m ∧ g m = true))).length := by
  intro n
  induction n with
  | zero =>
    intro hlo hno hbelow
    simp only [cntDown]
    by_cases hl0 : lo = 0
    · subst hl0
      have := hno 0 (by omega) (by omega)
      simp only [this, Bool.false_eq_true, if_false]
      by_cases hg : g 0 = true <;> simp [List.range_succ, hg]
    · have hl1 : lo = 1 := by omega
      subst hl1
      rcases hbelow with h | h
      · omega
      · simp only [Nat.sub_self] at h
        simp [h, List.range_succ]
  | succ k ih =>
    intro hlo hno hbelow
    rw [cntDown_succ]
    by_cases hle : lo ≤ k + 1
    · have hfk := hno (k + 1) hle (by omega)
      simp only [hfk, Bool.false_eq_true, if_false]
      rw [ih hle (fun m h1 h2 => hno m h1 (by omega)) hbelow]
      rw [List.range_succ (n := k + 1), List.filter_append, List.length_append]
      have hone : ((List.filter (fun m => decide (lo ≤ m ∧ g m = true)) [k + 1]).length) = (if g (k + 1) = true then 1 else 0) := by
        by_cases hg : g (k + 1) = true
        · simp [hg, hle]
        · have hg' : g (k + 1) = false := by simpa using hg
          simp [hg']
      rw [hone]
      omega
    · have hl : lo = k + 2 := by omega
      subst hl
      rcases hbelow with h | h
      · omega
      · have h' : f (k + 1) = true := h
        simp only [h', if_true]
        exact (filter_range_lt g (k + 2) (k + 1) (by omega)).symm

theorem loBound_some_none (f : Nat → Bool) (cur : Nat) (h : lastBefore f cur = none) : loBound (some f) cur = 0 := by
  simp [loBound, h]

theorem loBound_some_some (f : Nat → Bool) (cur F : Nat) (h : lastBefore f cur = some F) : loBound (some f) cur = F + 1 := by
  simp [loBound, h]

theorem specAny_eq_cntDown (f g : Nat → Bool) (cur : Nat) (hself : f cur = false) :
    specAny g (some f) cur = [cntDown f g cur] := by
  have hb := lastBefore_between f cur
  obtain ⟨hc1, hc2, hc3⟩ : loBound (some f) cur ≤ cur + 1 ∧
      (∀ m, loBound (some f) cur ≤ m → m ≤ cur → f m = false) ∧
      (loBound (some f) cur = 0 ∨ f (loBound (some f) cur - 1) = true) := by
    cases hl : lastBefore f cur with
    | none =>
      rw [loBound_some_none f cur hl]
      refine ⟨by omega, ?_, Or.inl rfl⟩
      intro m _ h2
      by_cases hmc : m = cur
      · subst hmc; exact hself
      · exact hb.1 hl m (by omega)
    | some F =>
      rw [loBound_some_some f cur F hl]
      obtain ⟨h1, h2, h3⟩ := hb.2 F hl
      refine ⟨by omega, ?_, Or.inr (by simpa using h2)⟩
      intro m hm1 hm2
      by_cases hmc : m = cur
      · subst hmc; exact hself
      · exact h3 m (by omega) (by omega)
  unfold specAny
  rw [cntDown_range f g (loBound (some f) cur) cur hc1 hc2 hc3]

/-- `level="any"` **with** `from`, when only nodes that have children match `from` and the current node does
not: the counting code yields the §7.7 count (zero prints nothing). -/
theorem getCountList_any_from (h : d.WF) (hc : d.Closed) (c : NumCfg) (hl : c.level = .any)
    (f : Nat → Bool) (hf : c.fromP = some f)
    (hcons : ∀ a b, c.countAt a b = true → c.countAt b = c.countAt a)
    (src : Nat) (hs : src < d.size) (hroot : c.countAt src 0 = false)
    (hleaf : ∀ m, m < d.size → f m = true → (d.lastChild m).isSome = true) (hself : f src = false)
    (after : Nat → Nat → Bool) (cs : List Counter)
    (hinv : CountersInv (fun n => (getPreviousNode d c n).toOption) cs) :
    (getCountList d c after cs src).2 = (specAny (c.countAt src) (some f) src).filter (· ≠ 0) ∧
    CountersInv (fun n => (getPreviousNode d c n).toOption) (getCountList d c after cs src).1 := by
  have hfm : c.fromMatches = f := by funext n; simp [NumCfg.fromMatches, hf]
  have hdec := getPreviousNode_decreases h hc c
  have hcn := countNode_spec (getTargetNode d c) hdec after cs hinv src
  have htarget : getTargetNode d c src = lastLEF f (c.countAt src) src := by
    unfold getTargetNode
    rw [hl]
    simp only
    rw [findPOAS_from h c src (src + 1) src hs (by omega), hfm]
  rw [specAny_eq_cntDown f (c.countAt src) src hself]
  unfold getCountList countTargets
  simp only [hl, countList]
  refine ⟨?_, hcn.2⟩
  rw [hcn.1]
  unfold countSpec
  rw [htarget]
  rcases lastLEF_spec f (c.countAt src) src with ⟨h1, h2⟩ | ⟨t, h1, h2, h3, h4, h5⟩
  · simp [h1, h2]
  · simp only [h1, h5]
    have hprev : ∀ n, n < d.size → 1 ≤ n → c.countAt src n = true →
        (getPreviousNode d c n).toOption = lastBeforeF f (c.countAt src) n := by
      intro n hn hn1 hgn
      have he := hcons src n hgn
      unfold getPreviousNode
      rw [hl]
      simp only
      rw [prevAny_from h c n (by rw [he]; exact hroot) (by rw [hfm]; exact hleaf) (n + 1) n hn (by omega) hn1, he, hfm]
      rfl
    rw [chainLen_anyF _ f (c.countAt src) d.size hprev hroot (t + 1) t (by omega) (by omega) h3 h4]



/-- when no proper ancestor matches `from`, §7.7 `single` does not depend on `from` -/
theorem specSingle_from_irrelevant (d : Doc) (g f : Nat → Bool) (cur : Nat)
    (h : ∀ a ∈ d.ancestors (cur + 1) cur, f a = false) :
    specSingle d g (some f) cur = specSingle d g none cur := by
  unfold specSingle searched
  simp only
  rw [takeWhile_all (fun a => decide ¬ f a = true) _ (fun a ha => by simp [h a ha])]

end XalanModel.C17
