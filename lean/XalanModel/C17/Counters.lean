/-!
# C17 — `CountersTable::countNode` and `Counter::getPreviouslyCounted` (CountersTable.cpp:53-177)

The per-instruction cache of `xsl:number`.  Nodes are natural numbers (document-order indices); the three
things the table calls out to are parameters:

* `target : Nat → Option Nat`   — `ElemNumber::getTargetNode`
* `prev   : Nat → Option Nat`   — `ElemNumber::getPreviousNode`
* `after  : Nat → Nat → Bool`   — `StylesheetExecutionContext::isNodeAfter` (an *arbitrary* oracle here)

The table for one `ElemNumber` id is a list of `Counter`s; `m_newFound` is empty between calls and is a local
accumulator in the model.  Core Lean only.
-/
namespace XalanModel.C17

/-- `struct Counter`: `m_countNodesStartCount`, `m_countNodes` (forward document order) -/
structure Counter where
  startCount : Nat := 0
  nodes : List Nat := []
deriving Repr, DecidableEq

/-- the loop of `Counter::getPreviouslyCounted`, over the node vector *reversed* (index `i` of the C++ loop
is the length of the remaining list) -/
def scanBack (after : Nat → Nat → Bool) (startCount node : Nat) : List Nat → Nat
  | [] => 0
  | counted :: rest =>
    if node = counted then (rest.length + 1) + startCount
    else if after counted node then 0
    else scanBack after startCount node rest

/-- `Counter::getPreviouslyCounted` -/
def Counter.getPreviouslyCounted (after : Nat → Nat → Bool) (c : Counter) (node : Nat) : Nat :=
  scanBack after c.startCount node c.nodes.reverse

/-- first loop of `countNode`: the first counter that reports a positive count -/
def firstCounted (after : Nat → Nat → Bool) (node : Nat) : List Counter → Option Nat
  | [] => none
  | c :: cs =>
    let k := c.getPreviouslyCounted after node
    if k > 0 then some k else firstCounted after node cs

/-- inner loop over the counters inside the walk: the first counter whose last cached node is `target`;
returns the counters with `m_newFound` appended (reversed) to that one, and `cacheLen + startCount`. -/
def hitLast (target : Nat) (newFoundRev : List Nat) : List Counter → Option (List Counter × Nat)
  | [] => none
  | c :: cs =>
    if c.nodes.length > 0 ∧ c.nodes.getLast? = some target then
      some ({ c with nodes := c.nodes ++ newFoundRev } :: cs, c.nodes.length + c.startCount)
    else (hitLast target newFoundRev cs).map fun r => (c :: r.1, r.2)

/-- the `for (; 0 != target; target = getPreviousNode(target))` loop.  `newFoundRev` is `m_newFound`
most-recent-first (i.e. already in the order `appendBtoFList` appends it). -/
def walk (prev : Nat → Option Nat) (counters : List Counter) :
    Nat → Option Nat → List Nat → Nat → List Counter × Nat
  | _, none, newFoundRev, count =>
    -- no counter found: make one
    (counters ++ [{ startCount := 0, nodes := newFoundRev }], count)
  | 0, some _, _, count => (counters, count)       -- fuel exhausted (unreachable when `prev` decreases)
  | fuel + 1, some t, newFoundRev, count =>
    match (if count ≠ 0 then hitLast t newFoundRev counters else none) with
    | some (cs', k) => (cs', count + k)
    | none => walk prev counters fuel (prev t) (t :: newFoundRev) (count + 1)

/-- `CountersTable::countNode` for one `ElemNumber` (its counter vector is `counters`) -/
def countNode (target prev : Nat → Option Nat) (after : Nat → Nat → Bool)
    (counters : List Counter) (node : Nat) : List Counter × Nat :=
  match target node with
  | none => (counters, 0)
  | some t =>
    match firstCounted after t counters with
    | some k => (counters, k)
    | none => walk prev counters (t + 1) (some t) [] 0

/-- a history of `countNode` calls on one instruction, starting from `counters`; returns the answers -/
def runHistory (target prev : Nat → Option Nat) (after : Nat → Nat → Bool) :
    List Counter → List Nat → List Nat
  | _, [] => []
  | cs, n :: rest =>
    let r := countNode target prev after cs n
    r.2 :: runHistory target prev after r.1 rest

/-- state after a history -/
def stateAfter (target prev : Nat → Option Nat) (after : Nat → Nat → Bool) :
    List Counter → List Nat → List Counter
  | cs, [] => cs
  | cs, n :: rest => stateAfter target prev after (countNode target prev after cs n).1 rest

/-- **Specification**: the length of the `getPreviousNode` chain starting at `t`
(the definition the cache must reproduce).  `fuel` as in `walk`. -/
def chainLen (prev : Nat → Option Nat) : Nat → Option Nat → Nat
  | _, none => 0
  | 0, some _ => 0
  | fuel + 1, some t => 1 + chainLen prev fuel (prev t)

/-- what `countNode` must answer, whatever was counted before -/
def countSpec (target prev : Nat → Option Nat) (node : Nat) : Nat :=
  match target node with
  | none => 0
  | some t => chainLen prev (t + 1) (some t)

end XalanModel.C17
