import XalanModel.C17.Format
/-!
# C17 — helper lemmas for `traditionalAlphaCount` over the Greek bundle (letter-value="traditional")
-/
namespace XalanModel.C17
open XalanModel.Generated.C17

theorem tradAdditive_acc (b : NumberingBundle) : ∀ (gs : List (Nat × Nat)) (v : Nat) (acc : List Nat),
    tradAdditive b gs v acc = (tradAdditive b gs v []).map (acc ++ ·) := by
  intro gs
  induction gs with
  | nil => intro v acc; simp [tradAdditive]
  | cons p rest ih =>
    intro v acc
    obtain ⟨g, t⟩ := p
    simp only [tradAdditive]
    split
    · exact ih v acc
    · split
      · rw [ih (v % g) (acc ++ _), ih (v % g) ([] ++ _)]
        simp [Option.map_map, Function.comp_def, List.append_assoc]
      · rfl

theorem decodeTradGo_acc (b : NumberingBundle) : ∀ (s : Str) (pend : Option Nat) (acc : Nat),
    decodeTradGo b s pend acc = (decodeTradGo b s pend 0).map (· + acc) := by
  intro s
  induction s with
  | nil => intro pend acc; cases pend <;> simp [decodeTradGo]
  | cons c rest ih =>
    intro pend acc
    cases pend with
    | some m =>
      simp only [decodeTradGo]
      cases tradLetterValue b c with
      | none => rfl
      | some x =>
        simp only
        rw [ih none (acc + m * x), ih none (0 + m * x)]
        simp [Option.map_map, Function.comp_def]
        cases decodeTradGo b rest none 0 <;> simp <;> omega
    | none =>
      simp only [decodeTradGo]
      cases (b.multiplierChars.zip b.multipliers).find? (fun p => p.1 == c) with
      | some p => simp only; exact ih (some p.2) acc
      | none =>
        simp only
        cases tradLetterValue b c with
        | none => rfl
        | some x =>
          simp only
          rw [ih none (acc + x), ih none (0 + x)]
          simp [Option.map_map, Function.comp_def]
          cases decodeTradGo b rest none 0 <;> simp <;> omega

/-- the additive part alone, 0 … 999: kernel evaluation in two blocks -/
def tradAddOk (r : Nat) : Bool :=
  match tradAdditive elalphaBundle (elalphaBundle.groups.zip elalphaBundle.tables) r [] with
  | some s => decodeTradGo elalphaBundle s none 0 == some r
  | none => false

theorem tradAdd_block_0 : ∀ a, a < 5 → ∀ c, c < 100 → tradAddOk (100 * a + c) = true := by decide +kernel
theorem tradAdd_block_1 : ∀ a, a < 5 → ∀ c, c < 100 → tradAddOk (100 * (5 + a) + c) = true := by decide +kernel

theorem tradAddOk_all (r : Nat) (h : r < 1000) : tradAddOk r = true := by
  have e : 100 * (r / 100) + r % 100 = r := Nat.div_add_mod r 100
  have hb : r % 100 < 100 := Nat.mod_lt _ (by omega)
  rw [← e]
  by_cases h5 : r / 100 < 5
  · exact tradAdd_block_0 (r / 100) h5 (r % 100) hb
  · have : r / 100 = 5 + (r / 100 - 5) := by omega
    rw [this]
    exact tradAdd_block_1 (r / 100 - 5) (by omega) (r % 100) hb

/-- the thousands: for 1 … 9 thousands the multiplier character followed by the units letter -/
def tradThousandOk (a : Nat) : Bool :=
  match tradMultGroup elalphaBundle a 985 true (elalphaBundle.groups.zip elalphaBundle.tables) with
  | some [m, x] => m == 985 && tradLetterValue elalphaBundle x == some a
  | _ => false

theorem tradThousandOk_all : ∀ a, a < 10 → 1 ≤ a → tradThousandOk a = true := by decide +kernel

theorem tradThousands (a : Nat) (h1 : a < 10) (h2 : 1 ≤ a) :
    ∃ x, tradMultGroup elalphaBundle a 985 true (elalphaBundle.groups.zip elalphaBundle.tables) = some [985, x] ∧
      tradLetterValue elalphaBundle x = some a := by
  have h := tradThousandOk_all a h1 h2
  unfold tradThousandOk at h
  split at h
  · rename_i m x heq
    simp only [Bool.and_eq_true, beq_iff_eq] at h
    exact ⟨x, by rw [heq, h.1], h.2⟩
  · cases h

/-- **traditional Greek numbering round trip**, 1 … 9999 -/
theorem traditional_roundtrip_aux (n : Nat) (h1 : 1 ≤ n) (h2 : n ≤ 9999) :
    decodeTraditional elalphaBundle (traditionalAlphaCount elalphaBundle n) = some n := by
  have hadd := tradAddOk_all (n % 1000) (Nat.mod_lt _ (by omega))
  unfold tradAddOk at hadd
  have hm : elalphaBundle.multipliers.zip elalphaBundle.multiplierChars = [(1000, 985)] := by decide
  unfold traditionalAlphaCount decodeTraditional
  rw [hm]
  simp only [tradMultLoop]
  by_cases hlt : n < 1000
  · simp only [hlt, if_true]
    have hmod : n % 1000 = n := Nat.mod_eq_of_lt hlt
    rw [hmod] at hadd
    cases hs : tradAdditive elalphaBundle (elalphaBundle.groups.zip elalphaBundle.tables) n [] with
    | none => simp [hs] at hadd
    | some s =>
      simp only [hs] at hadd ⊢
      simpa using hadd
  · simp only [hlt, if_false]
    obtain ⟨x, hx1, hx2⟩ := tradThousands (n / 1000) (by omega) (by omega)
    have hemp : ([] : List (Nat × Nat)).isEmpty = true := rfl
    rw [hemp, hx1]
    simp only [List.nil_append]
    rw [tradAdditive_acc]
    cases hs : tradAdditive elalphaBundle (elalphaBundle.groups.zip elalphaBundle.tables) (n % 1000) [] with
    | none => simp [hs] at hadd
    | some s =>
      simp only [hs, Option.map_some] at hadd ⊢
      have hfind : (elalphaBundle.multiplierChars.zip elalphaBundle.multipliers).find? (fun p => p.1 == 985) = some (985, 1000) := by decide
      simp only [List.cons_append, List.nil_append, decodeTradGo, hfind, hx2]
      rw [decodeTradGo_acc]
      have hdec : decodeTradGo elalphaBundle s none 0 = some (n % 1000) := by simpa using hadd
      rw [hdec]
      simp only [Option.map_some, Option.some.injEq]
      have := Nat.div_add_mod n 1000
      omega

/-- beyond 9999 the multiplicative part keeps only the leading digit of the number of thousands -/
theorem traditional_collision : traditionalAlphaCount elalphaBundle 10000 = traditionalAlphaCount elalphaBundle 11000 := by
  decide +kernel

end XalanModel.C17
