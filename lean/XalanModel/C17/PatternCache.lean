import XalanModel.Generated.C17_PatternCache
/-!
# C17 — the run-time match-pattern cache behind the default count pattern

`ElemNumber::getCountMatchPattern` builds the default count pattern of a node as a *string* (`name`, `prefix:name`,
`@prefix:name`, a synthesized `nsN:name`, `text()`, …) and compiles it through
`StylesheetExecutionContextDefault::createMatchPattern(str, resolver)` with a resolver for that node.  That function keeps
a cache keyed on the string alone; `Generated.C17.bypassesCache` is its admission condition as the current source has
it (translate/c17_patterncache.py).  A string whose meaning depends on the resolver — one with a namespace prefix — must
bypass the cache, or the pattern compiled for the first node named `p:x` is reused for a node whose `p` is bound to
another namespace, and `xsl:number` counts nodes of another expanded name.  Core Lean only.
-/
namespace XalanModel.C17
open XalanModel.Generated.C17

/-- `indexOf(str, ':')`: position of the first colon, the length when there is none -/
def firstColon : List Nat → Nat
  | [] => 0
  | c :: cs => if c = 58 then 0 else firstColon cs + 1

/-- is the pattern string answered from (or stored into) the string-keyed cache? -/
def servedFromCache (s : List Nat) : Bool :=
  !bypassesCache (firstColon s) s.length (s.getD (firstColon s + 1) 0)

/-- the string has a colon that is not the last character and is not followed by another colon (a prefix, not an axis) -/
def PrefixColon (s : List Nat) : Prop :=
  firstColon s + 1 < s.length ∧ s.getD (firstColon s + 1) 0 ≠ 58

instance (s : List Nat) : Decidable (PrefixColon s) := by unfold PrefixColon; exact inferInstance

theorem firstColon_append (pre rest : List Nat) (h : 58 ∉ pre) : firstColon (pre ++ 58 :: rest) = pre.length := by
  induction pre with
  | nil => simp [firstColon]
  | cons c cs ih =>
    have hc : c ≠ 58 := fun e => h (by simp [e])
    have := ih (fun hm => h (by simp [hm]))
    simp [firstColon, hc, this]

/-- the default count pattern of a node with a prefixed name (`lead` = `[]` for an element, `[@]` for an attribute) -/
theorem qname_prefixColon (lead pre loc : List Nat) (hl : 58 ∉ lead) (hp : 58 ∉ pre) (c : Nat) (cs : List Nat)
    (hloc : loc = c :: cs) (hc : c ≠ 58) : PrefixColon (lead ++ pre ++ 58 :: loc) := by
  have hnot : 58 ∉ lead ++ pre := by simp [hl, hp]
  have hf := firstColon_append (lead ++ pre) loc hnot
  subst hloc
  refine ⟨by rw [hf]; simp; omega, ?_⟩
  rw [hf]
  have e : lead ++ pre ++ 58 :: c :: cs = (lead ++ pre ++ [58]) ++ c :: cs := by simp
  have hlen : (lead ++ pre ++ [58]).length = (lead ++ pre).length + 1 := by simp; omega
  have : (lead ++ pre ++ 58 :: c :: cs).getD ((lead ++ pre).length + 1) 0 = c := by
    rw [e, ← hlen]
    unfold List.getD
    rw [List.getElem?_append_right (Nat.le_refl _)]
    simp
  rw [this]; exact hc


/-! ## The cache as a bounded least-recently-used map (`createMatchPattern` + `addToXPathCache`) -/

/-- one entry of `m_matchPatternCache`: key (the pattern string), the compiled pattern, the clock of its last use -/
structure CacheEntry (α : Type) where
  key : List Nat
  value : α
  clock : Nat

/-- the `while` loop of `addToXPathCache`: position of the first entry whose clock is the lowest one below `lowest`
(`none` = no entry is older than the current clock: the code's `earliest` stays `end()`) -/
def victimFrom {α : Type} : List (CacheEntry α) → Nat → Nat → Option Nat → Option Nat
  | [], _, _, best => best
  | e :: rest, i, lowest, best =>
    if e.clock < lowest then victimFrom rest (i + 1) e.clock (some i) else victimFrom rest (i + 1) lowest best

/-- `addToXPathCache(pattern, theXPath)` at clock `now` -/
def addToCache {α : Type} (act : EvictionAction) (cap now : Nat) (c : List (CacheEntry α)) (key : List Nat) (v : α) :
    List (CacheEntry α) :=
  if c.length = cap then
    match victimFrom c 0 now none with
    | none => c ++ [⟨key, v, now⟩]             -- not reachable while the clock advances between two fills
    | some i =>
      match act with
      | .eraseVictimInsertNewKey => c.eraseIdx i ++ [⟨key, v, now⟩]
      | .overwriteVictimValueInPlace => c.modify i fun e => { e with value := v, clock := now }
  else c ++ [⟨key, v, now⟩]

/-- `createMatchPattern(str, resolver)` at clock `now`; `compile` = `m_xsltProcessor->createMatchPattern` (for a string
that is served from the cache it does not depend on the resolver: `pattern_cache_never_serves_prefixed`) -/
def cacheLookup {α : Type} (compile : List Nat → α) (act : EvictionAction) (cap now : Nat) (c : List (CacheEntry α))
    (key : List Nat) : α × List (CacheEntry α) :=
  if servedFromCache key = false then (compile key, c)
  else
    match c.findIdx? (fun e => e.key == key) with
    | some i => ((c.getD i ⟨key, compile key, 0⟩).value, c.modify i fun e => { e with clock := now })
    | none => (compile key, addToCache act cap now c key (compile key))

/-- a history of lookups (the clock advances by one per lookup); the patterns handed out -/
def runLookups {α : Type} (compile : List Nat → α) (act : EvictionAction) (cap : Nat) :
    List (CacheEntry α) → Nat → List (List Nat) → List α
  | _, _, [] => []
  | c, now, k :: rest =>
    let r := cacheLookup compile act cap now c k
    r.1 :: runLookups compile act cap r.2 (now + 1) rest

/-- every cached pattern is the one its key compiles to -/
def CacheInv {α : Type} (compile : List Nat → α) (c : List (CacheEntry α)) : Prop := ∀ e ∈ c, e.value = compile e.key

theorem cacheInv_modify_clock {α : Type} (compile : List Nat → α) (c : List (CacheEntry α)) (i now : Nat)
    (h : CacheInv compile c) : CacheInv compile (c.modify i fun e => { e with clock := now }) := by
  intro e he
  rw [List.mem_iff_getElem] at he
  obtain ⟨j, hj, rfl⟩ := he
  rw [List.getElem_modify]
  have hj' : j < c.length := by simpa using hj
  split
  · exact h c[j] (List.getElem_mem hj')
  · exact h _ (List.getElem_mem hj')

theorem cacheLookup_spec {α : Type} (compile : List Nat → α) (cap now : Nat) (c : List (CacheEntry α)) (key : List Nat)
    (h : CacheInv compile c) :
    (cacheLookup compile .eraseVictimInsertNewKey cap now c key).1 = compile key ∧
    CacheInv compile (cacheLookup compile .eraseVictimInsertNewKey cap now c key).2 := by
  unfold cacheLookup
  split
  · exact ⟨rfl, h⟩
  · cases hf : c.findIdx? (fun e => e.key == key) with
    | some i =>
      simp only
      have hi := List.findIdx?_eq_some_iff_getElem.mp hf
      obtain ⟨hlt, hk, _⟩ := hi
      refine ⟨?_, cacheInv_modify_clock compile c i now h⟩
      have hget : c.getD i ⟨key, compile key, 0⟩ = c[i] := by simp [List.getD, hlt]
      rw [hget, h _ (List.getElem_mem hlt)]
      have : c[i].key = key := by simpa using hk
      rw [this]
    | none =>
      refine ⟨rfl, ?_⟩
      show CacheInv compile (addToCache .eraseVictimInsertNewKey cap now c key (compile key))
      have hnew : CacheInv compile [⟨key, compile key, now⟩] := by
        intro e he
        simp only [List.mem_singleton] at he
        subst he; rfl
      unfold addToCache
      split
      · cases victimFrom c 0 now none with
        | none =>
          intro e he
          rcases List.mem_append.mp he with h1 | h1
          · exact h e h1
          · exact hnew e h1
        | some i =>
          intro e he
          rcases List.mem_append.mp he with h1 | h1
          · exact h e (List.mem_of_mem_eraseIdx h1)
          · exact hnew e h1
      · intro e he
        rcases List.mem_append.mp he with h1 | h1
        · exact h e h1
        · exact hnew e h1

theorem runLookups_spec {α : Type} (compile : List Nat → α) (cap : Nat) : ∀ (keys : List (List Nat)) (c : List (CacheEntry α)) (now : Nat),
    CacheInv compile c → runLookups compile .eraseVictimInsertNewKey cap c now keys = keys.map compile := by
  intro keys
  induction keys with
  | nil => intro _ _ _; rfl
  | cons k rest ih =>
    intro c now h
    have hs := cacheLookup_spec compile cap now c k h
    simp only [runLookups, List.map_cons, hs.1, ih _ _ hs.2]

end XalanModel.C17
