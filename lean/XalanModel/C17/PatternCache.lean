import XalanModel.Generated.C17_PatternCache
/-!
# C17 — the run-time match-pattern cache behind the default count pattern

`ElemNumber::getCountMatchPattern` builds the default count pattern of a node as a *string* (`name`, `prefix:name`,
`@prefix:name`, a synthesized `nsN:name`, `text()`, …) and compiles it through
`StylesheetExecutionContextDefault::createMatchPattern(str, resolver)` with a resolver for that node.  That function keeps
a cache keyed on the string alone; `Generated.C17.bypassesCache` is its admission condition as the current source has
it (translate/c17_patterncache.py).  A string whose meaning depends on the resolver — one with a namespace prefix — must
bypass the cache, or the pattern compiled for the first node named `p:x` is reused for a node whose `p` is bound to
another namespace, and `xsl:number` counts nodes of another expanded name.  Core Lean only.
-/
namespace XalanModel.C17
open XalanModel.Generated.C17

/-- `indexOf(str, ':')`: position of the first colon, the length when there is none -/
def firstColon : List Nat → Nat
  | [] => 0
  | c :: cs => if c = 58 then 0 else firstColon cs + 1

/-- is the pattern string answered from (or stored into) the string-keyed cache? -/
def servedFromCache (s : List Nat) : Bool :=
  !bypassesCache (firstColon s) s.length (s.getD (firstColon s + 1) 0)

/-- the string has a colon that is not the last character and is not followed by another colon (a prefix, not an axis) -/
def PrefixColon (s : List Nat) : Prop :=
  firstColon s + 1 < s.length ∧ s.getD (firstColon s + 1) 0 ≠ 58

instance (s : List Nat) : Decidable (PrefixColon s) := by unfold PrefixColon; exact inferInstance

theorem firstColon_append (pre rest : List Nat) (h : 58 ∉ pre) : firstColon (pre ++ 58 :: rest) = pre.length := by
  induction pre with
  | nil => simp [firstColon]
  | cons c cs ih =>
    have hc : c ≠ 58 := fun e => h (by simp [e])
    have := ih (fun hm => h (by simp [hm]))
    simp [firstColon, hc, this]

/-- the default count pattern of a node with a prefixed name (`lead` = `[]` for an element, `[@]` for an attribute) -/
theorem qname_prefixColon (lead pre loc : List Nat) (hl : 58 ∉ lead) (hp : 58 ∉ pre) (c : Nat) (cs : List Nat)
    (hloc : loc = c :: cs) (hc : c ≠ 58) : PrefixColon (lead ++ pre ++ 58 :: loc) := by
  have hnot : 58 ∉ lead ++ pre := by simp [hl, hp]
  have hf := firstColon_append (lead ++ pre) loc hnot
  subst hloc
  refine ⟨by rw [hf]; simp; omega, ?_⟩
  rw [hf]
  have e : lead ++ pre ++ 58 :: c :: cs = (lead ++ pre ++ [58]) ++ c :: cs := by simp
  have hlen : (lead ++ pre ++ [58]).length = (lead ++ pre).length + 1 := by simp; omega
  have : (lead ++ pre ++ 58 :: c :: cs).getD ((lead ++ pre).length + 1) 0 = c := by
    rw [e, ← hlen]
    unfold List.getD
    rw [List.getElem?_append_right (Nat.le_refl _)]
    simp
  rw [this]; exact hc

end XalanModel.C17
