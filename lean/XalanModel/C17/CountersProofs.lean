import XalanModel.C17.Counters
/-!
# C17 — helper lemmas for the counters cache (`CountersTable::countNode`)

Invariant: every cached node vector is a *complete* `getPreviousNode` chain (read from its last element
backwards, each element's previous node is the element before it, and the first element has none), with
`m_countNodesStartCount = 0`.  Under it the position of a node in a vector is its chain length, whatever the
`isNodeAfter` oracle makes `getPreviouslyCounted` skip.
-/
namespace XalanModel.C17

/-- `l` (last cached node first) is a complete chain of `prev` -/
def RevChain (prev : Nat → Option Nat) : List Nat → Prop
  | [] => True
  | a :: rest => prev a = rest.head? ∧ RevChain prev rest

/-- `m_newFound` (most recent first) links up: the most recent node's previous node is `tgt`, and each older
node's previous node is the next more recent one -/
def Link (prev : Nat → Option Nat) : List Nat → Option Nat → Prop
  | [], _ => True
  | a :: rest, tgt => prev a = tgt ∧ Link prev rest (some a)

def Counter.Inv (prev : Nat → Option Nat) (c : Counter) : Prop :=
  c.startCount = 0 ∧ RevChain prev c.nodes.reverse

def CountersInv (prev : Nat → Option Nat) (cs : List Counter) : Prop := ∀ c ∈ cs, c.Inv prev

variable {prev : Nat → Option Nat}

theorem chainLen_revChain (hdec : ∀ n m, prev n = some m → m < n) :
    ∀ (rest : List Nat) (a fuel : Nat), RevChain prev (a :: rest) → a < fuel →
      chainLen prev fuel (some a) = rest.length + 1 := by
  intro rest
  induction rest with
  | nil =>
    intro a fuel h hf
    obtain ⟨h1, _⟩ := h
    cases fuel with
    | zero => omega
    | succ f =>
      simp only [List.head?_nil] at h1
      simp [chainLen, h1]
  | cons b r ih =>
    intro a fuel h hf
    obtain ⟨h1, h2⟩ := h
    simp only [List.head?_cons] at h1
    cases fuel with
    | zero => omega
    | succ f =>
      have hb := hdec a b h1
      have := ih b f h2 (by omega)
      simp only [chainLen, h1, this, List.length_cons]
      omega

theorem revChain_append (nf : List Nat) : ∀ (L : List Nat), Link prev nf L.head? → RevChain prev L →
    RevChain prev (nf.reverse ++ L) := by
  induction nf with
  | nil => intro L _ h; simpa using h
  | cons a rest ih =>
    intro L hl hr
    obtain ⟨h1, h2⟩ := hl
    have : RevChain prev (a :: L) := ⟨h1, hr⟩
    have := ih (a :: L) (by simpa using h2) this
    simpa [List.reverse_cons, List.append_assoc] using this

theorem scanBack_spec (hdec : ∀ n m, prev n = some m → m < n) (after : Nat → Nat → Bool) (node : Nat) :
    ∀ (l : List Nat), RevChain prev l → scanBack after 0 node l = 0 ∨
      scanBack after 0 node l = chainLen prev (node + 1) (some node) := by
  intro l
  induction l with
  | nil => intro _; left; rfl
  | cons c rest ih =>
    intro h
    simp only [scanBack]
    split
    · rename_i heq
      right
      subst heq
      rw [chainLen_revChain hdec rest node (node + 1) h (by omega)]
    · split
      · left; rfl
      · exact ih h.2

theorem firstCounted_spec (hdec : ∀ n m, prev n = some m → m < n) (after : Nat → Nat → Bool) (node : Nat) :
    ∀ (cs : List Counter), CountersInv prev cs → ∀ k, firstCounted after node cs = some k →
      k = chainLen prev (node + 1) (some node) := by
  intro cs
  induction cs with
  | nil => intro _ k h; simp [firstCounted] at h
  | cons c rest ih =>
    intro hinv k h
    simp only [firstCounted] at h
    split at h
    · rename_i hpos
      simp only [Option.some.injEq] at h
      have hc := hinv c (by simp)
      have := scanBack_spec hdec after node c.nodes.reverse hc.2
      simp only [Counter.getPreviouslyCounted, hc.1] at hpos h
      rcases this with h0 | h1
      · omega
      · omega
    · exact ih (fun c' hc' => hinv c' (by simp [hc'])) k h

theorem hitLast_spec (hdec : ∀ n m, prev n = some m → m < n) (t : Nat) (nf : List Nat) (hl : Link prev nf (some t)) :
    ∀ (cs : List Counter), CountersInv prev cs → ∀ cs' k, hitLast t nf cs = some (cs', k) →
      CountersInv prev cs' ∧ k = chainLen prev (t + 1) (some t) := by
  intro cs
  induction cs with
  | nil => intro _ cs' k h; simp [hitLast] at h
  | cons c rest ih =>
    intro hinv cs' k h
    simp only [hitLast] at h
    have hc := hinv c (by simp)
    have hrest : CountersInv prev rest := fun c' hc' => hinv c' (by simp [hc'])
    split at h
    · rename_i hhit
      simp only [Option.some.injEq, Prod.mk.injEq] at h
      obtain ⟨h1, h2⟩ := h
      subst h1 h2
      have hhead : c.nodes.reverse.head? = some t := by
        rw [List.head?_reverse]; exact hhit.2
      constructor
      · intro c' hc'
        simp only [List.mem_cons] at hc'
        rcases hc' with rfl | hm
        · refine ⟨hc.1, ?_⟩
          simp only [List.reverse_append]
          exact revChain_append nf c.nodes.reverse (by rw [hhead]; exact hl) hc.2
        · exact hrest c' hm
      · -- the cached vector is `t :: …` read backwards
        cases hrev : c.nodes.reverse with
        | nil => rw [hrev] at hhead; simp at hhead
        | cons a r =>
          rw [hrev] at hhead
          simp only [List.head?_cons, Option.some.injEq] at hhead
          subst hhead
          have hch : RevChain prev (a :: r) := by rw [← hrev]; exact hc.2
          rw [chainLen_revChain hdec r a (a + 1) hch (by omega)]
          have hlen : c.nodes.length = r.length + 1 := by
            have := congrArg List.length hrev
            simpa using this
          rw [hc.1, hlen]
    · cases hr : hitLast t nf rest with
      | none => simp [hr] at h
      | some p =>
        simp only [hr, Option.map_some, Option.some.injEq, Prod.mk.injEq] at h
        obtain ⟨h1, h2⟩ := h
        obtain ⟨i1, i2⟩ := ih hrest p.1 p.2 (by simp [hr])
        subst h1 h2
        refine ⟨?_, i2⟩
        intro c' hc'
        simp only [List.mem_cons] at hc'
        rcases hc' with rfl | hm
        · exact hc
        · exact i1 c' hm

theorem chainLen_fuel (hdec : ∀ n m, prev n = some m → m < n) :
    ∀ (f1 f2 t : Nat), t < f1 → t < f2 → chainLen prev f1 (some t) = chainLen prev f2 (some t) := by
  intro f1
  induction f1 with
  | zero => intro f2 t h; omega
  | succ f ih =>
    intro f2 t h1 h2
    cases f2 with
    | zero => omega
    | succ g =>
      simp only [chainLen]
      cases hp : prev t with
      | none => cases f <;> cases g <;> simp [chainLen]
      | some m =>
        have hm := hdec t m hp
        rw [ih g m (by omega) (by omega)]

theorem walk_spec (hdec : ∀ n m, prev n = some m → m < n) (cs : List Counter) (hinv : CountersInv prev cs) :
    ∀ (fuel : Nat) (tgt : Option Nat) (nf : List Nat) (count : Nat),
      Link prev nf tgt → count = nf.length → (∀ t, tgt = some t → t < fuel) →
      (walk prev cs fuel tgt nf count).2 = count + chainLen prev fuel tgt ∧
      CountersInv prev (walk prev cs fuel tgt nf count).1 := by
  intro fuel
  induction fuel with
  | zero =>
    intro tgt nf count hl hc hf
    cases tgt with
    | none =>
      simp only [walk, chainLen, Nat.add_zero, true_and]
      intro c hc'
      simp only [List.mem_append, List.mem_singleton] at hc'
      rcases hc' with h | rfl
      · exact hinv c h
      · exact ⟨rfl, by simpa using revChain_append nf [] (by simpa using hl) trivial⟩
    | some t => exact absurd (hf t rfl) (by omega)
  | succ f ih =>
    intro tgt nf count hl hc hf
    cases tgt with
    | none =>
      simp only [walk, chainLen, Nat.add_zero, true_and]
      intro c hc'
      simp only [List.mem_append, List.mem_singleton] at hc'
      rcases hc' with h | rfl
      · exact hinv c h
      · exact ⟨rfl, by simpa using revChain_append nf [] (by simpa using hl) trivial⟩
    | some t =>
      have htf := hf t rfl
      simp only [walk]
      cases hh : (if count ≠ 0 then hitLast t nf cs else none) with
      | some p =>
        obtain ⟨cs', k⟩ := p
        have hhit : hitLast t nf cs = some (cs', k) := by
          split at hh
          · exact hh
          · cases hh
        obtain ⟨i1, i2⟩ := hitLast_spec hdec t nf hl cs hinv cs' k hhit
        simp only
        refine ⟨?_, i1⟩
        rw [i2, chainLen_fuel hdec (t + 1) (f + 1) t (by omega) htf]
      | none =>
        simp only
        have hl' : Link prev (t :: nf) (prev t) := ⟨rfl, hl⟩
        have := ih (prev t) (t :: nf) (count + 1) hl' (by simp [hc])
          (by intro m hm; have := hdec t m hm; omega)
        refine ⟨?_, this.2⟩
        rw [this.1]
        simp only [chainLen]
        omega

/-- one `countNode` call: the answer is the chain length from the target, and the invariant is kept -/
theorem countNode_spec (target : Nat → Option Nat) (hdec : ∀ n m, prev n = some m → m < n)
    (after : Nat → Nat → Bool) (cs : List Counter) (hinv : CountersInv prev cs) (node : Nat) :
    (countNode target prev after cs node).2 = countSpec target prev node ∧
    CountersInv prev (countNode target prev after cs node).1 := by
  unfold countNode countSpec
  cases target node with
  | none => exact ⟨rfl, hinv⟩
  | some t =>
    simp only
    cases hfc : firstCounted after t cs with
    | some k =>
      simp only
      exact ⟨firstCounted_spec hdec after t cs hinv k hfc, hinv⟩
    | none =>
      simp only
      have := walk_spec hdec cs hinv (t + 1) (some t) [] 0 trivial rfl (by intro t' h; cases h; omega)
      simpa using this

theorem stateAfter_inv (target : Nat → Option Nat) (hdec : ∀ n m, prev n = some m → m < n)
    (after : Nat → Nat → Bool) : ∀ (h : List Nat) (cs : List Counter), CountersInv prev cs →
      CountersInv prev (stateAfter target prev after cs h) := by
  intro h
  induction h with
  | nil => intro cs hi; exact hi
  | cons n rest ih =>
    intro cs hi
    exact ih _ (countNode_spec target hdec after cs hi n).2

theorem runHistory_spec (target : Nat → Option Nat) (hdec : ∀ n m, prev n = some m → m < n)
    (after : Nat → Nat → Bool) : ∀ (h : List Nat) (cs : List Counter), CountersInv prev cs →
      runHistory target prev after cs h = h.map (countSpec target prev) := by
  intro h
  induction h with
  | nil => intro cs _; rfl
  | cons n rest ih =>
    intro cs hi
    have := countNode_spec target hdec after cs hi n
    simp only [runHistory, List.map_cons, this.1, ih _ this.2]

end XalanModel.C17
