import XalanModel.C17.FormatProofs
/-!
# C17 — helper lemmas for `formatNumberList`: tokenizer blocks, the token cursor, list round trip
-/
namespace XalanModel.C17

/-! ## tokenizer: blocks -/

variable (alnum : Nat → Bool)

/-- all characters of `t` have class `cls` -/
def Homog (cls : Bool) (t : Str) : Prop := ∀ c ∈ t, alnum c = cls

/-- `rest` is empty or begins with a character of the other class -/
def StartsOther (cls : Bool) (rest : Str) : Prop := ∀ c, rest.head? = some c → alnum c ≠ cls

theorem spanClass_block (cls : Bool) : ∀ (xs rest : Str), Homog alnum cls xs → StartsOther alnum cls rest →
    spanClass alnum cls (xs ++ rest) = (xs, rest) := by
  intro xs
  induction xs with
  | nil =>
    intro rest _ hr
    cases rest with
    | nil => rfl
    | cons c cs =>
      have := hr c rfl
      simp [spanClass, this]
  | cons x xs ih =>
    intro rest hx hr
    have h1 : alnum x = cls := hx x (by simp)
    simp only [List.cons_append, spanClass, h1, if_true]
    rw [ih rest (fun c hc => hx c (by simp [hc])) hr]

theorem tokenizeFuel_ge : ∀ (f1 f2 : Nat) (s : Str), s.length ≤ f1 → s.length ≤ f2 →
    tokenizeFuel alnum f1 s = tokenizeFuel alnum f2 s := by
  intro f1
  induction f1 with
  | zero =>
    intro f2 s h _
    have : s = [] := by cases s <;> simp_all
    subst this
    cases f2 <;> rfl
  | succ f ih =>
    intro f2 s h1 h2
    cases s with
    | nil => cases f2 <;> rfl
    | cons c cs =>
      cases f2 with
      | zero => simp at h2
      | succ g =>
        simp only [tokenizeFuel]
        have hl := spanClass_length alnum (alnum c) cs
        simp only [List.length_cons] at h1 h2
        rw [ih g _ (by omega) (by omega)]

/-- tokenizing a block followed by something that starts in the other class -/
theorem tokenize_block (cls : Bool) (c : Nat) (xs rest : Str) (hc : alnum c = cls) (hx : Homog alnum cls xs)
    (hr : StartsOther alnum cls rest) :
    tokenize alnum ((c :: xs) ++ rest) = (c :: xs) :: tokenize alnum rest := by
  unfold tokenize
  simp only [List.cons_append, List.length_cons, tokenizeFuel]
  rw [hc, spanClass_block alnum cls xs rest hx hr]
  simp only
  rw [tokenizeFuel_ge alnum _ rest.length rest (by simp) (by simp)]


theorem spanClass_fst_homog (cls : Bool) : ∀ (s : Str), Homog alnum cls (spanClass alnum cls s).1 := by
  intro s
  induction s with
  | nil => intro c hc; simp [spanClass] at hc
  | cons x xs ih =>
    intro c hc
    simp only [spanClass] at hc
    split at hc
    · rename_i hx
      simp only [List.mem_cons] at hc
      rcases hc with rfl | hc
      · exact hx
      · exact ih c hc
    · simp at hc

theorem spanClass_snd_other (cls : Bool) : ∀ (s : Str), StartsOther alnum cls (spanClass alnum cls s).2 := by
  intro s
  induction s with
  | nil => intro c hc; simp [spanClass] at hc
  | cons x xs ih =>
    intro c hc
    simp only [spanClass] at hc
    split at hc
    · exact ih c hc
    · rename_i hx
      simp only [List.head?_cons, Option.some.injEq] at hc
      subst hc
      exact hx

theorem spanClass_append (cls : Bool) : ∀ (s : Str), (spanClass alnum cls s).1 ++ (spanClass alnum cls s).2 = s := by
  intro s
  induction s with
  | nil => rfl
  | cons x xs ih =>
    simp only [spanClass]
    split
    · simp [ih]
    · rfl

/-- tokens alternate in class, each is non-empty and homogeneous; the first has class `cls` -/
def Alt : Bool → List Str → Prop
  | _, [] => True
  | cls, t :: ts => t ≠ [] ∧ Homog alnum cls t ∧ Alt (!cls) ts

theorem tokenizeFuel_alt : ∀ (f : Nat) (c : Nat) (cs : Str), (c :: cs).length ≤ f →
    Alt alnum (alnum c) (tokenizeFuel alnum f (c :: cs)) := by
  intro f
  induction f with
  | zero => intro c cs h; simp at h
  | succ f ih =>
    intro c cs h
    simp only [tokenizeFuel, Alt]
    refine ⟨by simp, ?_, ?_⟩
    · intro x hx
      simp only [List.mem_cons] at hx
      rcases hx with rfl | hx
      · rfl
      · exact spanClass_fst_homog alnum (alnum c) cs x hx
    · have hl := spanClass_length alnum (alnum c) cs
      have ho := spanClass_snd_other alnum (alnum c) cs
      cases hr : (spanClass alnum (alnum c) cs).2 with
      | nil => cases f <;> simp [tokenizeFuel, Alt]
      | cons c' cs' =>
        rw [hr] at hl ho
        have hc' : alnum c' = !alnum c := by
          have := ho c' rfl
          cases h1 : alnum c' <;> cases h2 : alnum c <;> simp_all
        rw [← hc']
        exact ih c' cs' (by simp only [List.length_cons] at h hl ⊢; omega)

theorem tokenizeFuel_flatten : ∀ (f : Nat) (s : Str), s.length ≤ f → (tokenizeFuel alnum f s).flatten = s := by
  intro f
  induction f with
  | zero => intro s h; have : s = [] := by cases s <;> simp_all
            subst this; rfl
  | succ f ih =>
    intro s h
    cases s with
    | nil => rfl
    | cons c cs =>
      simp only [tokenizeFuel, List.flatten_cons, List.cons_append, List.cons.injEq, true_and]
      have hl := spanClass_length alnum (alnum c) cs
      rw [ih _ (by simp only [List.length_cons] at h; omega)]
      exact spanClass_append alnum (alnum c) cs


/-- `body` is `f₁ ++ s₁ ++ f₂ ++ … ++ fₖ` with non-empty letter/digit strings `fᵢ` and non-empty separators `sᵢ`
made of other characters -/
inductive Body : List Str → Str → Prop
  | one (f : Str) : f ≠ [] → Homog alnum true f → Body [f] f
  | more (f sep : Str) (fs : List Str) (b : Str) : f ≠ [] → Homog alnum true f → sep ≠ [] → Homog alnum false sep →
      Body fs b → Body (f :: fs) (f ++ sep ++ b)

theorem Body.head_alnum {fs : List Str} {b : Str} (h : Body alnum fs b) : ∃ c cs, b = c :: cs ∧ alnum c = true := by
  cases h with
  | one _ hne hh =>
    cases b with
    | nil => exact absurd rfl hne
    | cons c cs => exact ⟨c, cs, rfl, hh c (by simp)⟩
  | more f sep fs b' hne hh _ _ _ =>
    cases f with
    | nil => exact absurd rfl hne
    | cons c cs => exact ⟨c, cs ++ sep ++ b', by simp, hh c (by simp)⟩

theorem startsOther_of_homog (cls : Bool) (t : Str) (h : Homog alnum (!cls) t) : StartsOther alnum cls t := by
  intro c hc
  cases t with
  | nil => simp at hc
  | cons x xs =>
    simp only [List.head?_cons, Option.some.injEq] at hc
    subst hc
    have := h x (by simp)
    cases hx : alnum x <;> cases cls <;> simp_all

/-- tokenizing `body ++ trailer`: the letter/digit tokens are exactly the `fᵢ` -/
theorem tokenize_body (trailer : Str) (ht : Homog alnum false trailer) : ∀ (fs : List Str) (b : Str), Body alnum fs b →
    (tokenize alnum (b ++ trailer)).filter (firstIsAlnum alnum) = fs := by
  intro fs b hb
  induction hb with
  | one f hne hh =>
    cases f with
    | nil => exact absurd rfl hne
    | cons c cs =>
      rw [tokenize_block alnum true c cs trailer (hh c (by simp)) (fun x hx => hh x (by simp [hx]))
        (startsOther_of_homog alnum true trailer (by simpa using ht))]
      have h1 : firstIsAlnum alnum (c :: cs) = true := by simp [firstIsAlnum, hh c (by simp)]
      simp only [List.filter_cons, h1, if_true, List.cons.injEq, true_and]
      cases trailer with
      | nil => rfl
      | cons t ts =>
        have := tokenize_block alnum false t ts [] (ht t (by simp)) (fun x hx => ht x (by simp [hx])) (by intro c hc; simp at hc)
        simp only [List.append_nil] at this
        rw [this]
        have h2 : firstIsAlnum alnum (t :: ts) = false := by simp [firstIsAlnum, ht t (by simp)]
        simp [h2, tokenize, tokenizeFuel]
  | more f sep fs b hne hh hsne hsh hb ih =>
    cases f with
    | nil => exact absurd rfl hne
    | cons c cs =>
      cases sep with
      | nil => exact absurd rfl hsne
      | cons p ps =>
        obtain ⟨x, xs, hbx, hxa⟩ := Body.head_alnum alnum hb
        have e1 : (c :: cs) ++ (p :: ps) ++ b ++ trailer = (c :: cs) ++ ((p :: ps) ++ (b ++ trailer)) := by simp
        rw [e1, tokenize_block alnum true c cs _ (hh c (by simp)) (fun x hx => hh x (by simp [hx]))
          (by intro y hy; simp only [List.cons_append, List.head?_cons, Option.some.injEq] at hy; subst hy
              simp [hsh p (by simp)])]
        rw [tokenize_block alnum false p ps _ (hsh p (by simp)) (fun x hx => hsh x (by simp [hx]))
          (by intro y hy; rw [hbx] at hy; simp only [List.cons_append, List.head?_cons, Option.some.injEq] at hy; subst hy
              simp [hxa])]
        have h1 : firstIsAlnum alnum (c :: cs) = true := by simp [firstIsAlnum, hh c (by simp)]
        have h2 : firstIsAlnum alnum (p :: ps) = false := by simp [firstIsAlnum, hsh p (by simp)]
        simp only [List.filter_cons, h1, h2, if_true, Bool.false_eq_true, if_false, ih]

theorem tokenize_leader_body (leader trailer : Str) (hl : Homog alnum false leader) (ht : Homog alnum false trailer)
    (fs : List Str) (b : Str) (hb : Body alnum fs b) :
    (tokenize alnum (leader ++ b ++ trailer)).filter (firstIsAlnum alnum) = fs := by
  cases leader with
  | nil => simpa using tokenize_body alnum trailer ht fs b hb
  | cons p ps =>
    obtain ⟨x, xs, hbx, hxa⟩ := Body.head_alnum alnum hb
    have e1 : (p :: ps) ++ b ++ trailer = (p :: ps) ++ (b ++ trailer) := by simp
    rw [e1, tokenize_block alnum false p ps _ (hl p (by simp)) (fun x hx => hl x (by simp [hx]))
      (by intro y hy; rw [hbx] at hy; simp only [List.cons_append, List.head?_cons, Option.some.injEq] at hy; subst hy
          simp [hxa])]
    have h2 : firstIsAlnum alnum (p :: ps) = false := by simp [firstIsAlnum, hl p (by simp)]
    simp only [List.filter_cons, h2, Bool.false_eq_true, if_false]
    exact tokenize_body alnum trailer ht fs b hb


/-! ## every formatted number is a non-empty letter/digit string that decodes back -/

structure AlnumOK (alnum : Nat → Bool) : Prop where
  digit : ∀ c, 48 ≤ c → c ≤ 57 → alnum c = true
  upper : ∀ c, 65 ≤ c → c ≤ 90 → alnum c = true
  lower : ∀ c, 97 ≤ c → c ≤ 122 → alnum c = true
  dot : alnum 46 = false

def TypeOK (t : Nat) : Prop := t ∉ unsupportedTypes ∧ t ≠ 0x03B1

instance (t : Nat) : Decidable (TypeOK t) := by unfold TypeOK; exact inferInstance

theorem foldl_bind_none (f : Nat → Nat → Option Nat) (cs : List Nat) :
    cs.foldl (fun (acc : Option Nat) c => acc.bind fun a => f a c) none = none := by
  induction cs with
  | nil => rfl
  | cons c cs ih => simpa using ih

theorem decodeAlpha_chars : ∀ (s : Str) (a n : Nat),
    s.foldl (fun (acc : Option Nat) c => acc.bind fun a => if 65 ≤ c ∧ c ≤ 90 then some (a * 26 + (c - 64)) else none) (some a) = some n →
    ∀ c ∈ s, 65 ≤ c ∧ c ≤ 90 := by
  intro s
  induction s with
  | nil => intro _ _ _ c hc; simp at hc
  | cons x xs ih =>
    intro a n h c hc
    simp only [List.foldl_cons, Option.bind_some] at h
    by_cases hx : 65 ≤ x ∧ x ≤ 90
    · simp only [hx, and_self, if_true] at h
      simp only [List.mem_cons] at hc
      rcases hc with rfl | hc
      · exact hx
      · exact ih _ n h c hc
    · simp only [hx, if_false] at h
      have := foldl_bind_none (fun a c => if 65 ≤ c ∧ c ≤ 90 then some (a * 26 + (c - 64)) else none) xs
      rw [this] at h
      cases h

theorem digit_chars : ∀ (s : Str) (a n : Nat), s.foldl digitStep (some a) = some n → ∀ c ∈ s, 48 ≤ c ∧ c ≤ 57 := by
  intro s
  induction s with
  | nil => intro _ _ _ c hc; simp at hc
  | cons x xs ih =>
    intro a n h c hc
    simp only [List.foldl_cons, digitStep, Option.bind_some] at h
    by_cases hx : 48 ≤ x ∧ x ≤ 57
    · simp only [hx, and_self, if_true] at h
      simp only [List.mem_cons] at hc
      rcases hc with rfl | hc
      · exact hx
      · exact ih _ n h c hc
    · simp only [hx, if_false] at h
      have : xs.foldl digitStep none = none := by
        unfold digitStep
        exact foldl_bind_none (fun a c => if 48 ≤ c ∧ c ≤ 57 then some (a * 10 + (c - 48)) else none) xs
      rw [this] at h
      cases h

theorem upper_lower (s : Str) (h : ∀ c ∈ s, 65 ≤ c ∧ c ≤ 90) : toUpperASCII (toLowerASCII s) = s := by
  unfold toUpperASCII toLowerASCII
  rw [List.map_map]
  conv => rhs; rw [← List.map_id s]
  apply List.map_congr_left
  intro c hc
  have := h c hc
  simp only [Function.comp, this, and_self, if_true, id]
  have h2 : 97 ≤ c + 32 ∧ c + 32 ≤ 122 := by omega
  simp only [h2, and_self, if_true]
  omega

theorem lower_chars (s : Str) (h : ∀ c ∈ s, 65 ≤ c ∧ c ≤ 90) : ∀ c ∈ toLowerASCII s, 97 ≤ c ∧ c ≤ 122 := by
  intro c hc
  unfold toLowerASCII at hc
  simp only [List.mem_map] at hc
  obtain ⟨x, hx, rfl⟩ := hc
  have := h x hx
  simp only [this, and_self, if_true]
  omega

theorem romanLetter_range (c v : Nat) (h : romanLetterValue c = some v) : 65 ≤ c ∧ c ≤ 90 := by
  unfold romanLetterValue at h
  repeat' split at h
  all_goals first | omega | cases h

theorem mapM_roman_chars : ∀ (s : Str) (vs : List Nat), s.mapM romanLetterValue = some vs → ∀ c ∈ s, 65 ≤ c ∧ c ≤ 90 := by
  intro s
  induction s with
  | nil => intro _ _ c hc; simp at hc
  | cons x xs ih =>
    intro vs h c hc
    rw [List.mapM_cons] at h
    cases hx : romanLetterValue x with
    | none => simp [hx] at h
    | some v =>
      cases hxs : xs.mapM romanLetterValue with
      | none => simp [hx, hxs] at h
      | some ws =>
        simp only [List.mem_cons] at hc
        rcases hc with rfl | hc
        · exact romanLetter_range _ v hx
        · exact ih ws hxs c hc

theorem roman_chars (s : Str) (n : Nat) (h : decodeRoman s = some n) : ∀ c ∈ s, 65 ≤ c ∧ c ≤ 90 := by
  unfold decodeRoman at h
  cases hm : s.mapM romanLetterValue with
  | none => simp [hm] at h
  | some vs => exact mapM_roman_chars s vs hm


/-- the number fits the numbering type of its format token: at least 1; inside the 100-slot buffer for the
alphabetic types (every 64-bit value does); at most 3999 for the roman types; no bound for decimal types -/
def NumFits (t n : Nat) : Prop :=
  1 ≤ n ∧ ((t = 65 ∨ t = 97) → n < 26 ^ XalanModel.Generated.C17.alphaBufLen) ∧ ((t = 73 ∨ t = 105) → n ≤ 3999)

instance (t n : Nat) : Decidable (NumFits t n) := by unfold NumFits; exact inferInstance

theorem formatted_ok (ha : AlnumOK alnum) (t width n : Nat) (ht : TypeOK t) (hfit : NumFits t n) :
    ∃ s, getFormattedNumber {} t width n = some s ∧ s ≠ [] ∧ Homog alnum true s ∧ decodeNumber t [] s = some n := by
  have h1 : 1 ≤ n := hfit.1
  unfold getFormattedNumber decodeNumber
  by_cases e65 : t = 65
  · have hpow := hfit.2.1 (Or.inl e65)
    obtain ⟨s, hs, hd, _⟩ := int2alphaCount_roundtrip n h1 hpow
    have hch := decodeAlpha_chars s 0 n hd
    refine ⟨s, by simp [e65, hs], ?_, fun c hc => ha.upper c (hch c hc).1 (hch c hc).2, by simp [e65, hd]⟩
    intro he; subst he; simp [decodeAlpha] at hd; omega
  by_cases e97 : t = 97
  · have hpow := hfit.2.1 (Or.inr e97)
    obtain ⟨s, hs, hd, _⟩ := int2alphaCount_roundtrip n h1 hpow
    have hch := decodeAlpha_chars s 0 n hd
    have hl := lower_chars s hch
    refine ⟨toLowerASCII s, by simp [e97, hs], ?_, fun c hc => ha.lower c (hl c hc).1 (hl c hc).2, ?_⟩
    · intro he
      have : s = [] := by
        unfold toLowerASCII at he
        simpa using he
      subst this; simp [decodeAlpha] at hd; omega
    · simp [e97, upper_lower s hch, hd]
  by_cases e73 : t = 73
  · have h2 := hfit.2.2 (Or.inl e73)
    obtain ⟨s, hs, hd⟩ := toRoman_roundtrip n h1 h2
    have hch := roman_chars s n hd
    refine ⟨s, by simp [e73, hs], ?_, fun c hc => ha.upper c (hch c hc).1 (hch c hc).2, by simp [e73, hd]⟩
    intro he; subst he; simp [decodeRoman, decodeRomanVals] at hd; omega
  by_cases e105 : t = 105
  · have h2 := hfit.2.2 (Or.inr e105)
    obtain ⟨s, hs, hd⟩ := toRoman_roundtrip n h1 h2
    have hch := roman_chars s n hd
    have hl := lower_chars s hch
    refine ⟨toLowerASCII s, by simp [e105, hs], ?_, fun c hc => ha.lower c (hl c hc).1 (hl c hc).2, ?_⟩
    · intro he
      have : s = [] := by
        unfold toLowerASCII at he
        simpa using he
      subst this; simp [decodeRoman, decodeRomanVals] at hd; omega
    · simp [e105, upper_lower s hch, hd]
  · have hd := formatDecimal_roundtrip n width
    have hd' : (formatDecimal {} width n).foldl digitStep (some 0) = some n := by
      have : ∀ s : Str, decodeDecimal [] s = s.foldl digitStep (some 0) := by
        intro s
        unfold decodeDecimal
        have : (s.filter fun c => decide ¬ ([] : Str).contains c = true) = s := by
          apply List.filter_eq_self.mpr
          intro a _
          simp
        rw [this]; rfl
      rw [← this]; exact hd
    have hch := digit_chars _ 0 n hd'
    refine ⟨formatDecimal {} width n, by simp [e65, e97, e73, e105, ht.1, ht.2], ?_,
      fun c hc => ha.digit c (hch c hc).1 (hch c hc).2, by simp [e65, e97, e73, e105, hd]⟩
    intro he
    rw [he] at hd'
    simp at hd'
    omega


/-! ## the token cursor of `formatNumberList` as a list -/

def restOf (toks : List Str) (tI it : Nat) : List Str := (toks.take tI).drop it

def lastc (t : Str) : Nat := t.getD (t.length - 1) 0

theorem restOf_cons (toks : List Str) (tI it : Nat) (h1 : it < tI) (h2 : tI ≤ toks.length) :
    restOf toks tI it = toks.getD it [] :: restOf toks tI (it + 1) := by
  unfold restOf
  have hl : it < (toks.take tI).length := by simp; omega
  rw [List.drop_eq_getElem_cons hl]
  congr 1
  rw [List.getElem_take]
  have : it < toks.length := by omega
  simp [List.getD, this]

theorem restOf_nil (toks : List Str) (tI it : Nat) (h1 : tI ≤ it) : restOf toks tI it = [] := by
  unfold restOf
  apply List.drop_eq_nil_of_le
  simp; omega

theorem restOf_ne (toks : List Str) (tI it : Nat) (h0 : it ≤ tI) (h2 : tI ≤ toks.length) :
    (it ≠ tI) ↔ restOf toks tI it ≠ [] := by
  constructor
  · intro h
    rw [restOf_cons toks tI it (by omega) h2]
    simp
  · intro h he
    exact h (restOf_nil toks tI it (by omega))

theorem alt_head_af (t : Str) (hne : t ≠ []) (hh : Homog alnum true t) : firstIsAlnum alnum t = true := by
  cases t with
  | nil => exact absurd rfl hne
  | cons c cs => simp [firstIsAlnum, hh c (by simp)]

theorem alt_head_naf (t : Str) (hne : t ≠ []) (hh : Homog alnum false t) : firstIsAlnum alnum t = false := by
  cases t with
  | nil => exact absurd rfl hne
  | cons c cs => simp [firstIsAlnum, hh c (by simp)]

/-- what one round of the token cursor does, by the shape of the remaining tokens -/
theorem fmtStep_spec (toks : List Str) (tI : Nat) (st : FmtState) (h0 : st.it ≤ tI) (h2 : tI ≤ toks.length) :
    (restOf toks tI st.it = [] ∧ fmtStep toks tI st = st) ∨
    (∃ a, restOf toks tI st.it = [a] ∧
      fmtStep toks tI st = { st with numberWidth := a.length, numberType := lastc a, it := st.it + 1 } ∧
      restOf toks tI (st.it + 1) = []) ∨
    (∃ a n r, restOf toks tI st.it = a :: n :: r ∧
      fmtStep toks tI st = { st with numberWidth := a.length, numberType := lastc a, it := st.it + 2, sep := some n } ∧
      restOf toks tI (st.it + 2) = r) := by
  by_cases he : st.it = tI
  · left
    refine ⟨restOf_nil toks tI st.it (by omega), ?_⟩
    simp [fmtStep, he]
  · right
    have hc := restOf_cons toks tI st.it (by omega) h2
    by_cases he2 : st.it + 1 = tI
    · left
      refine ⟨toks.getD st.it [], ?_, ?_, restOf_nil toks tI (st.it + 1) (by omega)⟩
      · rw [hc, restOf_nil toks tI (st.it + 1) (by omega)]
      · simp [fmtStep, he, he2, lastc]
    · right
      have hc2 := restOf_cons toks tI (st.it + 1) (by omega) h2
      refine ⟨toks.getD st.it [], toks.getD (st.it + 1) [], restOf toks tI (st.it + 2), ?_, ?_, rfl⟩
      · rw [hc, hc2]
      · simp [fmtStep, he, he2, lastc]


def typesOf (alnum : Nat → Bool) (r : List Str) : List Nat := (r.filter (firstIsAlnum alnum)).map lastc

theorem getD_append_left' (a b : List Nat) (i d : Nat) (h : i < a.length) : (a ++ b).getD i d = a.getD i d := by
  simp [List.getD, List.getElem?_append_left h]

theorem getD_append_len (a : List Nat) (x : Nat) (b : List Nat) (d : Nat) : (a ++ x :: b).getD a.length d = x := by
  simp [List.getD]

theorem getD_ge (a : List Nat) (i d : Nat) (h : a.length ≤ i) : a.getD i d = d := by
  simp [List.getD, List.getElem?_eq_none h]

/-- the main induction: the loop of `formatNumberList` produces a `Body`, and every number decodes back under the
numbering type that the *list of letter/digit tokens* assigns to its position (last one repeating) -/
theorem fmtLoop_body (ha : AlnumOK alnum) (g : Grouping) (gs : Str)
    (hnum : ∀ t width n, TypeOK t → NumFits t n →
      ∃ s, getFormattedNumber g t width n = some s ∧ s ≠ [] ∧ Homog alnum true s ∧ decodeNumber t gs s = some n)
    (toks : List Str) (tI : Nat) (h2 : tI ≤ toks.length) (T : List Nat)
    (hT : ∀ t ∈ T, TypeOK t) :
    ∀ (l : List Nat) (st : FmtState) (done : List Nat) (j : Nat),
      l ≠ [] → (∀ i, i < l.length → NumFits (T.getD (j + i) (T.getLastD 49)) (l.getD i 0)) →
      st.it ≤ tI → Alt alnum true (restOf toks tI st.it) →
      T = done ++ typesOf alnum (restOf toks tI st.it) →
      st.numberType = done.getLastD 49 →
      (restOf toks tI st.it ≠ [] → done.length = j) → done.length ≤ j →
      (∀ s, st.sep = some s → s ≠ [] ∧ Homog alnum false s) →
      ∃ body fs, fmtLoop alnum g toks tI l st = some body ∧ Body alnum fs body ∧ fs.length = l.length ∧
        ∀ i, i < l.length → decodeNumber (T.getD (j + i) (T.getLastD 49)) gs (fs.getD i []) = some (l.getD i 0) := by
  intro l
  induction l with
  | nil => intro _ _ _ h; exact absurd rfl h
  | cons n rest ih =>
    intro st done j _ hl h0 halt hTd hty hj hdj hsep
    have hn0 := hl 0 (by simp)
    simp only [Nat.add_zero, List.getD_cons_zero] at hn0
    -- one round of the cursor
    have hstep : ∃ st' done', st' = fmtStep toks tI st ∧ st'.it ≤ tI ∧ Alt alnum true (restOf toks tI st'.it) ∧
        T = done' ++ typesOf alnum (restOf toks tI st'.it) ∧ st'.numberType = done'.getLastD 49 ∧
        (restOf toks tI st'.it ≠ [] → done'.length = j + 1) ∧ done'.length ≤ j + 1 ∧
        (∀ s, st'.sep = some s → s ≠ [] ∧ Homog alnum false s) ∧
        T.getD j (T.getLastD 49) = st'.numberType := by
      rcases fmtStep_spec toks tI st h0 h2 with ⟨hr, hs⟩ | ⟨a, hr, hs, hr'⟩ | ⟨a, sp, r, hr, hs, hr'⟩
      · refine ⟨st, done, hs.symm, h0, halt, hTd, hty, ?_, by omega, hsep, ?_⟩
        · intro hne; exact absurd hr hne
        · rw [hr] at hTd
          simp only [typesOf, List.filter_nil, List.map_nil, List.append_nil] at hTd
          rw [hTd, getD_ge done j _ hdj, hty]
      · rw [hr] at halt hTd hj
        obtain ⟨hane, hah, _⟩ := halt
        have haf := alt_head_af alnum a hane hah
        have hTd' : T = (done ++ [lastc a]) ++ typesOf alnum (restOf toks tI (st.it + 1)) := by
          rw [hr', hTd]; simp [typesOf, haf]
        have hjd : done.length = j := hj (by simp)
        refine ⟨_, done ++ [lastc a], hs.symm, by
          have := (restOf_ne toks tI st.it h0 h2).mpr (by rw [hr]; simp)
          simp only; omega, by simp only; rw [hr']; trivial, by simpa using hTd', by simp, ?_, by simp; omega, by simpa using hsep, ?_⟩
        · intro hne; simp only at hne; exact absurd hr' hne
        · rw [hTd]
          simp only [typesOf, List.filter_cons, haf, if_true, List.filter_nil, List.map_cons, List.map_nil]
          rw [← hjd, getD_append_len]
      · rw [hr] at halt hTd hj
        obtain ⟨hane, hah, hspne, hsph, hralt⟩ := halt
        simp only [Bool.not_true, Bool.not_false] at hsph hralt
        have haf := alt_head_af alnum a hane hah
        have hnaf := alt_head_naf alnum sp hspne hsph
        have hjd : done.length = j := hj (by simp)
        have hty2 : typesOf alnum (a :: sp :: r) = lastc a :: typesOf alnum r := by
          simp [typesOf, haf, hnaf]
        refine ⟨_, done ++ [lastc a], hs.symm, ?_, by simp only; rw [hr']; exact hralt, ?_, by simp, ?_, by simp; omega, ?_, ?_⟩
        · have h1 := (restOf_ne toks tI st.it h0 h2).mpr (by rw [hr]; simp)
          have h3 : restOf toks tI (st.it + 1) ≠ [] := by
            rw [restOf_cons toks tI st.it (by omega) h2] at hr
            simp only [List.cons.injEq] at hr
            rw [hr.2]; simp
          have h4 := (restOf_ne toks tI (st.it + 1) (by omega) h2).mpr h3
          simp only; omega
        · simp only; rw [hr', hTd, hty2]; simp
        · intro _; simp; omega
        · intro s hs'; simp only [Option.some.injEq] at hs'; subst hs'; exact ⟨hspne, hsph⟩
        · rw [hTd, hty2, ← hjd, getD_append_len]
    obtain ⟨st', done', hst', h0', halt', hTd', hty', hj', hdj', hsep', htype⟩ := hstep
    -- the formatted number
    have htok : TypeOK st'.numberType := by
      rw [← htype]
      by_cases hjl : j < T.length
      · exact hT _ (by simp [List.getD, List.getElem?_eq_getElem hjl])
      · rw [getD_ge T j _ (by omega)]
        cases hTe : T with
        | nil => simp [TypeOK, unsupportedTypes]
        | cons x xs =>
          have : (x :: xs).getLastD 49 ∈ x :: xs := by
            rw [List.getLastD_eq_getLast?]
            simp only [Option.getD]
            cases hg : (x :: xs).getLast? with
            | none => simp at hg
            | some y => exact List.mem_of_getLast? hg
          rw [hTe] at hT
          exact hT _ this
    obtain ⟨s, hs, hsne, hsh, hsd⟩ := hnum st'.numberType st'.numberWidth n htok (by rw [← htype]; exact hn0)
    simp only [fmtLoop, ← hst', hs]
    cases rest with
    | nil =>
      refine ⟨s, [s], by simp, Body.one s hsne hsh, rfl, ?_⟩
      intro i hi
      simp only [List.length_cons, List.length_nil] at hi
      have : i = 0 := by omega
      subst this
      have e : T.getD (j + 0) (T.getLastD 49) = st'.numberType := by rw [Nat.add_zero]; exact htype
      rw [e]
      simpa using hsd
    | cons m rest' =>
      obtain ⟨body, fs, hb, hbody, hlen, hdec⟩ := ih st' done' (j + 1) (by simp)
        (fun i hi => by
          have := hl (i + 1) (by simp only [List.length_cons] at hi ⊢; omega)
          simpa [Nat.add_assoc, Nat.add_comm 1 i] using this) h0' halt' hTd' hty' hj' hdj' hsep'
      have hsepok : (st'.sep.getD [46]) ≠ [] ∧ Homog alnum false (st'.sep.getD [46]) := by
        cases hsp : st'.sep with
        | none =>
          simp only [Option.getD]
          exact ⟨by simp, by intro c hc; simp at hc; subst hc; exact ha.dot⟩
        | some sp => simpa using hsep' sp hsp
      refine ⟨s ++ st'.sep.getD [46] ++ body, s :: fs, by simp [hb], Body.more s _ fs body hsne hsh hsepok.1 hsepok.2 hbody,
        by simp [hlen], ?_⟩
      intro i hi
      cases i with
      | zero =>
        have e : T.getD (j + 0) (T.getLastD 49) = st'.numberType := by rw [Nat.add_zero]; exact htype
        rw [e]
        simpa using hsd
      | succ k =>
        have := hdec k (by simp only [List.length_cons] at hi ⊢; omega)
        simpa [Nat.add_assoc, Nat.add_comm 1 k] using this


theorem Alt.take {cls : Bool} : ∀ {l : List Str} (k : Nat), Alt alnum cls l → Alt alnum cls (l.take k) := by
  intro l
  induction l generalizing cls with
  | nil => intro k _; simp [Alt]
  | cons t ts ih =>
    intro k h
    cases k with
    | zero => simp [Alt]
    | succ k => exact ⟨h.1, h.2.1, ih k h.2.2⟩

theorem Alt.mem {cls : Bool} : ∀ {l : List Str}, Alt alnum cls l → ∀ t ∈ l, t ≠ [] ∧ (Homog alnum true t ∨ Homog alnum false t) := by
  intro l
  induction l generalizing cls with
  | nil => intro _ t ht; simp at ht
  | cons x xs ih =>
    intro h t ht
    simp only [List.mem_cons] at ht
    rcases ht with rfl | ht
    · refine ⟨h.1, ?_⟩
      cases cls
      · right; exact h.2.1
      · left; exact h.2.1
    · exact ih h.2.2 t ht

theorem homog_of_naf (t : Str) (hne : t ≠ []) (h : Homog alnum true t ∨ Homog alnum false t)
    (hn : firstIsAlnum alnum t = false) : Homog alnum false t := by
  rcases h with h | h
  · have := alt_head_af alnum t hne h
    rw [this] at hn; cases hn
  · exact h

theorem mapM_zipIdx_decode (F : Nat → Str → Option Nat) : ∀ (fs : List Str) (l : List Nat) (k : Nat),
    fs.length = l.length → (∀ i, i < l.length → F (k + i) (fs.getD i []) = some (l.getD i 0)) →
    (fs.zipIdx k).mapM (fun (p : Str × Nat) => F p.2 p.1) = some l := by
  intro fs
  induction fs with
  | nil =>
    intro l k hlen _
    cases l with
    | nil => rfl
    | cons _ _ => simp at hlen
  | cons f fs ih =>
    intro l k hlen h
    cases l with
    | nil => simp at hlen
    | cons n ns =>
      have h0 := h 0 (by simp)
      simp only [Nat.add_zero, List.getD_cons_zero] at h0
      have ih' := ih ns (k + 1) (by simpa using hlen) (by
        intro i hi
        have := h (i + 1) (by simp only [List.length_cons]; omega)
        simpa [Nat.add_assoc, Nat.add_comm 1 i] using this)
      simp only [List.zipIdx_cons, List.mapM_cons, h0, ih']
      rfl


theorem typesOf_append (a b : List Str) : typesOf alnum (a ++ b) = typesOf alnum a ++ typesOf alnum b := by
  simp [typesOf]

theorem drop_last_getD (l : List Str) (h : l ≠ []) : l.drop (l.length - 1) = [l.getD (l.length - 1) []] := by
  have hl : l.length - 1 < l.length := by
    cases l with
    | nil => exact absurd rfl h
    | cons _ _ => simp
  rw [List.drop_eq_getElem_cons hl]
  have : l.drop (l.length - 1 + 1) = [] := List.drop_eq_nil_of_le (by omega)
  rw [this]
  simp [List.getD, hl]

theorem filter_naf_singleton (t : Str) (h : firstIsAlnum alnum t = false) : [t].filter (firstIsAlnum alnum) = [] := by
  simp [h]

/-- **formatList_roundtrip** (helper form) -/
theorem formatList_roundtrip_gen (ha : AlnumOK alnum) (g : Grouping) (gs : Str)
    (hnum : ∀ t width n, TypeOK t → NumFits t n →
      ∃ s, getFormattedNumber g t width n = some s ∧ s ≠ [] ∧ Homog alnum true s ∧ decodeNumber t gs s = some n)
    (fmt : Str)
    (hgs : ∀ out : Str, decodeList alnum g fmt out =
      (((tokenize alnum out).filter (firstIsAlnum alnum)).zipIdx).mapM
        (fun (p : Str × Nat) => decodeNumber ((numberTypes alnum fmt).getD p.2 ((numberTypes alnum fmt).getLastD 49)) gs p.1))
    (l : List Nat) (hl : l ≠ [])
    (hr : ∀ i, i < l.length → NumFits ((numberTypes alnum fmt).getD i ((numberTypes alnum fmt).getLastD 49)) (l.getD i 0))
    (ht : ∀ t ∈ numberTypes alnum fmt, TypeOK t) :
    ∃ out, formatNumberList alnum g fmt l = some out ∧ decodeList alnum g fmt out = some l := by
  simp only [hgs]
  have hnt : numberTypes alnum fmt = typesOf alnum (tokenize alnum (if fmt.isEmpty then [49] else fmt)) := by
    simp only [numberTypes, typesOf]
    rfl
  rw [hnt] at ht hr ⊢
  simp only [formatNumberList, formatNumberListP]
  generalize XalanModel.Generated.C17.singlePunctuationTokenIsAlsoSuffix = sb
  have hne : (if fmt.isEmpty then [49] else fmt) ≠ [] := by
    split
    · simp
    · rename_i h; intro he; rw [he] at h; simp at h
  generalize (if fmt.isEmpty then [49] else fmt) = fmt' at hne ht hr ⊢
  cases fmt' with
  | nil => exact absurd rfl hne
  | cons c cs =>
    have halt : Alt alnum (alnum c) (tokenize alnum (c :: cs)) := tokenizeFuel_alt alnum _ c cs (Nat.le_refl _)
    have htne : tokenize alnum (c :: cs) ≠ [] := by simp [tokenize, tokenizeFuel]
    generalize tokenize alnum (c :: cs) = toks at halt htne ht hr ⊢
    cases toks with
    | nil => exact absurd rfl htne
    | cons t0 ts =>
      obtain ⟨ht0ne, ht0h, htsalt⟩ := halt
      -- trailer index
      generalize htI : (if (t0 :: ts).length > 1 ∧ ¬ firstIsAlnum alnum ((t0 :: ts).getD ((t0 :: ts).length - 1) []) = true
          then (t0 :: ts).length - 1 else (t0 :: ts).length) = tI
      have htI1 : 1 ≤ tI ∧ tI ≤ (t0 :: ts).length := by
        rw [← htI]; split
        · rename_i h; simp only [List.length_cons] at h ⊢; omega
        · simp
      have hsplit : t0 :: ts = (t0 :: ts).take tI ++ (t0 :: ts).drop tI := (List.take_append_drop tI _).symm
      -- the trailer
      have htrail : typesOf alnum ((t0 :: ts).drop tI) = [] ∧
          Homog alnum false (if tI ≠ (t0 :: ts).length then (t0 :: ts).getD tI [] else []) := by
        rw [← htI]
        split
        · rename_i h
          have hd := drop_last_getD (t0 :: ts) (by simp)
          have hnaf : firstIsAlnum alnum ((t0 :: ts).getD ((t0 :: ts).length - 1) []) = false := by
            simpa using h.2
          have hneq : (t0 :: ts).length - 1 ≠ (t0 :: ts).length := by simp
          simp only [hneq, ne_eq, not_false_eq_true, if_true]
          refine ⟨by rw [hd]; unfold typesOf; rw [filter_naf_singleton alnum _ hnaf]; rfl, ?_⟩
          have hmem : (t0 :: ts).getD ((t0 :: ts).length - 1) [] ∈ (t0 :: ts) := by
            have : (t0 :: ts).getD ((t0 :: ts).length - 1) [] ∈ (t0 :: ts).drop ((t0 :: ts).length - 1) := by rw [hd]; simp
            exact List.mem_of_mem_drop this
          have halt0 : Alt alnum (alnum c) (t0 :: ts) := ⟨ht0ne, ht0h, htsalt⟩
          obtain ⟨h1, h2⟩ := Alt.mem alnum halt0 _ hmem
          exact homog_of_naf alnum _ h1 h2 hnaf
        · refine ⟨by simp [typesOf], ?_⟩
          simp only [ne_eq, not_true_eq_false, if_false]
          intro c hc; simp at hc
      -- the suffix: the trailing token, or (when the code has that branch) the single punctuation token again
      have htrailH : Homog alnum false
          (if tI ≠ (t0 :: ts).length then (t0 :: ts).getD tI []
            else if sb = true ∧ (t0 :: ts).length = 1 ∧ ((t0 :: ts).length > 0 ∧ ¬ firstIsAlnum alnum ((t0 :: ts).getD 0 []) = true)
              then (t0 :: ts).getD 0 [] else []) := by
        by_cases hti : tI ≠ (t0 :: ts).length
        · have := htrail.2
          simp only [hti, ne_eq, not_false_eq_true, if_true] at this ⊢
          exact this
        · simp only [hti, if_false]
          split
          · rename_i hc
            have hnaf : firstIsAlnum alnum t0 = false := by simpa using hc.2.2.2
            have halt0 : Alt alnum (alnum c) (t0 :: ts) := ⟨ht0ne, ht0h, htsalt⟩
            obtain ⟨h1, h2⟩ := Alt.mem alnum halt0 t0 (by simp)
            simpa using homog_of_naf alnum t0 h1 h2 hnaf
          · intro x hx; simp at hx
      generalize (if tI ≠ (t0 :: ts).length then (t0 :: ts).getD tI []
            else if sb = true ∧ (t0 :: ts).length = 1 ∧ ((t0 :: ts).length > 0 ∧ ¬ firstIsAlnum alnum ((t0 :: ts).getD 0 []) = true)
              then (t0 :: ts).getD 0 [] else []) = trailer at htrailH ⊢
      by_cases haf0 : firstIsAlnum alnum t0 = true
      · -- no leader
        have hcls : alnum c = true := by
          cases t0 with
          | nil => exact absurd rfl ht0ne
          | cons x xs =>
            have := ht0h x (by simp)
            simp only [firstIsAlnum, List.headD_cons] at haf0
            rw [← this]; exact haf0
        rw [hcls] at ht0h htsalt
        have hcond : ¬ ((t0 :: ts).length > 0 ∧ ¬ firstIsAlnum alnum ((t0 :: ts).getD 0 []) = true) := by
          simp [haf0]
        simp only [if_neg hcond]
        have hmid : restOf (t0 :: ts) tI 0 = (t0 :: ts).take tI := by simp [restOf]
        have haltm : Alt alnum true (restOf (t0 :: ts) tI 0) := by
          rw [hmid]; exact Alt.take alnum tI ⟨ht0ne, ht0h, htsalt⟩
        have hT : typesOf alnum (t0 :: ts) = [] ++ typesOf alnum (restOf (t0 :: ts) tI 0) := by
          rw [hmid]
          conv => lhs; rw [hsplit]
          rw [typesOf_append, htrail.1]; simp
        obtain ⟨body, fs, hb, hbody, hlen, hdec⟩ := fmtLoop_body alnum ha g gs hnum (t0 :: ts) tI htI1.2 (typesOf alnum (t0 :: ts)) ht
          l { it := 0 } [] 0 hl (by simpa using hr) (by simp) haltm hT rfl (fun _ => rfl) (by simp) (by intro s hs; cases hs)
        refine ⟨[] ++ body ++ trailer, by rw [hb]; rfl, ?_⟩
        rw [tokenize_leader_body alnum [] _ (by intro c hc; simp at hc) htrailH fs body hbody]
        exact mapM_zipIdx_decode (fun i s => decodeNumber ((typesOf alnum (t0 :: ts)).getD i ((typesOf alnum (t0 :: ts)).getLastD 49)) gs s)
          fs l 0 hlen hdec
      · -- leader = t0
        have haf0' : firstIsAlnum alnum t0 = false := by simpa using haf0
        have hcls : alnum c = false := by
          cases t0 with
          | nil => exact absurd rfl ht0ne
          | cons x xs =>
            have := ht0h x (by simp)
            simp only [firstIsAlnum, List.headD_cons] at haf0'
            rw [← this]; exact haf0'
        rw [hcls] at ht0h htsalt
        simp only [Bool.not_false] at htsalt
        have hcond : ((t0 :: ts).length > 0 ∧ ¬ firstIsAlnum alnum ((t0 :: ts).getD 0 []) = true) := by
          simp [haf0']
        simp only [if_pos hcond]
        have hmid : restOf (t0 :: ts) tI 1 = ts.take (tI - 1) := by
          unfold restOf
          obtain ⟨k, hk⟩ : ∃ k, tI = k + 1 := ⟨tI - 1, by omega⟩
          subst hk
          simp
        have haltm : Alt alnum true (restOf (t0 :: ts) tI 1) := by
          rw [hmid]; exact Alt.take alnum _ htsalt
        have hT : typesOf alnum (t0 :: ts) = [] ++ typesOf alnum (restOf (t0 :: ts) tI 1) := by
          rw [hmid]
          conv => lhs; rw [hsplit]
          rw [typesOf_append, htrail.1]
          obtain ⟨k, hk⟩ : ∃ k, tI = k + 1 := ⟨tI - 1, by omega⟩
          subst hk
          simp [typesOf, haf0']
        obtain ⟨body, fs, hb, hbody, hlen, hdec⟩ := fmtLoop_body alnum ha g gs hnum (t0 :: ts) tI htI1.2 (typesOf alnum (t0 :: ts)) ht
          l { it := 1 } [] 0 hl (by simpa using hr) htI1.1 haltm hT rfl (fun _ => rfl) (by simp) (by intro s hs; cases hs)
        refine ⟨(t0 :: ts).getD 0 [] ++ body ++ trailer, by rw [hb]; rfl, ?_⟩
        rw [tokenize_leader_body alnum _ _ (by simpa using ht0h) htrailH fs body hbody]
        exact mapM_zipIdx_decode (fun i s => decodeNumber ((typesOf alnum (t0 :: ts)).getD i ((typesOf alnum (t0 :: ts)).getLastD 49)) gs s)
          fs l 0 hlen hdec


/-- the list round trip without grouping -/
theorem formatList_roundtrip_aux (ha : AlnumOK alnum) (fmt : Str) (l : List Nat) (hl : l ≠ [])
    (hr : ∀ i, i < l.length → NumFits ((numberTypes alnum fmt).getD i ((numberTypes alnum fmt).getLastD 49)) (l.getD i 0))
    (ht : ∀ t ∈ numberTypes alnum fmt, TypeOK t) :
    ∃ out, formatNumberList alnum {} fmt l = some out ∧ decodeList alnum {} fmt out = some l := by
  apply formatList_roundtrip_gen alnum ha {} [] (fun t w n ht hf => formatted_ok alnum ha t w n ht hf) fmt _ l hl hr ht
  intro out
  have e : (fun c => alnum c || ([] : Str).contains c) = alnum := by funext c; simp
  simp only [decodeList, Bool.false_eq_true, false_and, if_false, e]

end XalanModel.C17
