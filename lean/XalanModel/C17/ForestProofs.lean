import XalanModel.C17.Forest
/-!
# C17 — every flattened forest is a well-formed, closed `Doc`
-/
namespace XalanModel.C17

theorem Forest.infos_length : ∀ (f : Forest) (p s : Nat) (prev : Option Nat), (Forest.infos p s prev f).length = f.size := by
  intro f
  induction f with
  | nil => intro p s prev; rfl
  | cons k r ihk ihr =>
    intro p s prev
    simp only [Forest.infos, List.length_cons, List.length_append, ihk, ihr, Forest.size]
    omega

theorem Forest.lastIdx_none : ∀ (f : Forest) (b : Nat), Forest.lastIdx b f = none → f = .nil := by
  intro f b h
  cases f with
  | nil => rfl
  | cons k r =>
    simp only [Forest.lastIdx] at h
    split at h <;> cases h

/-- the facts `Doc.WF` asks of node `n` -/
def NodeFacts (G : List NodeInfo) (n : Nat) : Prop :=
  (∃ q, (Doc.ofInfos G).parent n = some q ∧ q < n) ∧
  (∀ r, (Doc.ofInfos G).prevSib n = some r → 0 < r ∧ r < n) ∧
  (∀ c, (Doc.ofInfos G).lastChild n = some c → n < c ∧ c < G.length) ∧
  (Doc.ofInfos G).backStep n = some (n - 1)

theorem getElem?_block (A X B : List NodeInfo) (j : Nat) (hj : j < X.length) :
    (A ++ X ++ B)[A.length + j]? = X[j]? := by
  rw [List.append_assoc, List.getElem?_append_right (by omega)]
  simp only [Nat.add_sub_cancel_left]
  rw [List.getElem?_append_left hj]

theorem infos_facts (G : List NodeInfo) : ∀ (f : Forest) (A B : List NodeInfo) (p s : Nat) (prev : Option Nat),
    G = A ++ Forest.infos p s prev f ++ B → A.length = s → p < s →
    (∀ r, prev = some r → 0 < r ∧ r < s) →
    (prev = none → s = p + 1) →
    (∀ r, prev = some r → (Doc.ofInfos G).deepestLast G.length r = s - 1) →
    (∀ n, s ≤ n → n < s + f.size → NodeFacts G n) ∧
    (∀ c, Forest.lastIdx s f = some c → s ≤ c ∧ c < s + f.size ∧
      ∀ fuel, f.size ≤ fuel → (Doc.ofInfos G).deepestLast fuel c = s + f.size - 1) := by
  intro f
  induction f with
  | nil =>
    intro A B p s prev _ _ _ _ _ _
    refine ⟨fun n h1 h2 => ?_, fun c h => ?_⟩
    · simp only [Forest.size] at h2; omega
    · simp [Forest.lastIdx] at h
  | cons k r ihk ihr =>
    intro A B p s prev hG hA hps hprev hstart0 hstart1
    -- the block
    have hsz : (Forest.cons k r).size = 1 + k.size + r.size := rfl
    have hlenG : G.length = s + (1 + k.size + r.size) + B.length := by
      rw [hG]; simp only [List.length_append, Forest.infos_length, hA, hsz]
    let e : NodeInfo := ⟨some p, prev, Forest.lastIdx (s + 1) k⟩
    have hGe : G = A ++ (e :: (Forest.infos s (s + 1) none k ++ Forest.infos p (s + 1 + k.size) (some s) r)) ++ B := by
      rw [hG]; rfl
    have he : G[s]? = some e := by
      have := getElem?_block A (e :: (Forest.infos s (s + 1) none k ++ Forest.infos p (s + 1 + k.size) (some s) r)) B 0 (by simp)
      rw [← hGe, hA] at this
      simpa using this
    -- children
    have hk := ihk (A ++ [e]) (Forest.infos p (s + 1 + k.size) (some s) r ++ B) s (s + 1) none
      (by rw [hGe]; simp [List.append_assoc]) (by simp [hA]) (by omega) (by intro r h; cases h) (fun _ => rfl) (by intro r h; cases h)
    -- the last node of the first tree
    have hdl : ∀ fuel, 1 + k.size ≤ fuel → (Doc.ofInfos G).deepestLast fuel s = s + k.size := by
      intro fuel hf
      obtain ⟨f', rfl⟩ : ∃ f', fuel = f' + 1 := ⟨fuel - 1, by omega⟩
      simp only [Doc.deepestLast]
      have hlc : (Doc.ofInfos G).lastChild s = Forest.lastIdx (s + 1) k := by
        simp [Doc.ofInfos, he, e]
      rw [hlc]
      cases hl : Forest.lastIdx (s + 1) k with
      | none =>
        have := Forest.lastIdx_none k (s + 1) hl
        subst this
        simp [Forest.size]
      | some c =>
        simp only
        rw [(hk.2 c hl).2.2 f' (by omega)]
        have := (hk.2 c hl).1
        have hkpos : 0 < k.size := by
          cases k with
          | nil => simp [Forest.lastIdx] at hl
          | cons _ _ => simp [Forest.size]; omega
        omega
    -- following siblings
    have hr := ihr (A ++ e :: Forest.infos s (s + 1) none k) B p (s + 1 + k.size) (some s)
      (by rw [hGe]; simp [List.append_assoc]) (by simp [hA, Forest.infos_length]; omega) (by omega)
      (by intro x hx; cases hx; omega) (by intro h; cases h)
      (by intro x hx; cases hx; rw [hdl G.length (by omega)]; omega)
    constructor
    · intro n h1 h2
      by_cases hn : n = s
      · subst hn
        have hpar : (Doc.ofInfos G).parent n = some p := by simp [Doc.ofInfos, he, e]
        have hps' : (Doc.ofInfos G).prevSib n = prev := by simp [Doc.ofInfos, he, e]
        have hlc : (Doc.ofInfos G).lastChild n = Forest.lastIdx (n + 1) k := by simp [Doc.ofInfos, he, e]
        refine ⟨⟨p, hpar, hps⟩, ?_, ?_, ?_⟩
        · intro x hx; rw [hps'] at hx; exact hprev x hx
        · intro c hc
          rw [hlc] at hc
          have := hk.2 c hc
          omega
        · unfold Doc.backStep
          rw [hps']
          cases hpv : prev with
          | none =>
            simp only [hpar]
            have := hstart0 hpv
            rw [this]; simp
          | some x =>
            show some ((Doc.ofInfos G).deepestLast G.length x) = some (n - 1)
            rw [hstart1 x hpv]
      · by_cases hn2 : n < s + 1 + k.size
        · exact hk.1 n (by omega) (by omega)
        · exact hr.1 n (by omega) (by simp only [hsz] at h2; omega)
    · intro c hc
      simp only [Forest.lastIdx] at hc
      cases hl : Forest.lastIdx (s + 1 + k.size) r with
      | none =>
        rw [hl] at hc
        simp only [Option.some.injEq] at hc
        subst hc
        have := Forest.lastIdx_none r _ hl
        subst this
        refine ⟨by omega, by simp [Forest.size]; omega, ?_⟩
        intro fuel hf
        simp only [Forest.size] at hf ⊢
        rw [hdl fuel (by omega)]
        omega
      | some c' =>
        rw [hl] at hc
        simp only [Option.some.injEq] at hc
        subst hc
        obtain ⟨h1, h2, h3⟩ := hr.2 c' hl
        refine ⟨by omega, by simp only [hsz]; omega, ?_⟩
        intro fuel hf
        simp only [hsz] at hf ⊢
        rw [h3 fuel (by omega)]
        omega


/-- **every forest flattens to a well-formed document** -/
theorem Doc.ofForest_wf (top : Forest) : (Doc.ofForest top).WF := by
  let G := docInfos top
  let root : NodeInfo := ⟨none, none, Forest.lastIdx 1 top⟩
  have hG : G = [root] ++ Forest.infos 0 1 none top ++ [] := by simp [G, docInfos, root]
  have hlen : G.length = 1 + top.size := by simp [G, docInfos, Forest.infos_length]; omega
  have hf := infos_facts G top [root] [] 0 1 none hG rfl (by omega) (by intro r h; cases h) (fun _ => rfl) (by intro r h; cases h)
  have h0 : G[0]? = some root := by simp [G, docInfos, root]
  show (Doc.ofInfos G).WF
  refine ⟨by show 0 < G.length; omega, by simp [Doc.ofInfos, h0, root], by simp [Doc.ofInfos, h0, root], ?_, ?_⟩
  · intro n hn hpos
    have hn' : n < 1 + top.size := by have : n < G.length := hn; omega
    obtain ⟨⟨q, hq1, hq2⟩, hps, _, hbs⟩ := hf.1 n (by omega) hn'
    refine ⟨hbs, by rw [hq1]; rfl, by rw [hq1]; simpa using hq2, ?_⟩
    cases hp : (Doc.ofInfos G).prevSib n with
    | none => rfl
    | some r => simpa using hps r hp
  · intro n hn
    have hn' : n < 1 + top.size := by have : n < G.length := hn; omega
    cases hl : (Doc.ofInfos G).lastChild n with
    | none => rfl
    | some c =>
      by_cases hz : n = 0
      · subst hz
        have hlc : (Doc.ofInfos G).lastChild 0 = Forest.lastIdx 1 top := by simp [Doc.ofInfos, h0, root]
        rw [hlc] at hl
        have := hf.2 c hl
        show (some c).all _ = true
        simp only [Option.all_some, decide_eq_true_eq]
        exact ⟨by omega, by show c < G.length; omega⟩
      · obtain ⟨_, _, hlc, _⟩ := hf.1 n (by omega) hn'
        have := hlc c hl
        show (some c).all _ = true
        simp only [Option.all_some, decide_eq_true_eq]
        exact ⟨this.1, this.2⟩

theorem Doc.ofInfos_closed (l : List NodeInfo) : (Doc.ofInfos l).Closed := by
  intro n hn
  have h : l[n]? = none := List.getElem?_eq_none hn
  simp [Doc.ofInfos, h]

theorem Doc.ofForest_closed (top : Forest) : (Doc.ofForest top).Closed := Doc.ofInfos_closed _

end XalanModel.C17
