import XalanModel.C17.Format
/-!
# C17 — helper lemmas for the formatters (alphabetic, roman, decimal)
-/
namespace XalanModel.C17
open XalanModel.Generated.C17

/-! ## alphabetic -/

/-- value of a list of table indices, least significant first (index 0 stands for the digit 26) -/
def decIdx : List Nat → Nat
  | [] => 0
  | d :: ds => (if d = 0 then 26 else d) + 26 * decIdx ds

theorem alphaCorrection_cases (li c : Nat) : alphaCorrection 26 li c = 0 ∨ alphaCorrection 26 li c = 25 := by
  unfold alphaCorrection; split <;> simp

/-- the loop computes the bijective base-26 digits of `val` minus the pending borrow -/
theorem alphaLoop_dec : ∀ (fuel val corr li : Nat), 1 ≤ val → val < fuel →
    decIdx (alphaLoop 26 fuel val corr li) + (if alphaCorrection 26 li corr = 0 then 0 else 1) = val := by
  intro fuel
  induction fuel with
  | zero => intro val corr li h1 h2; omega
  | succ f ih =>
    intro val corr li h1 h2
    simp only [alphaLoop]
    generalize hc : alphaCorrection 26 li corr = c
    have hcc : c = 0 ∨ c = 25 := by rw [← hc]; exact alphaCorrection_cases li corr
    by_cases hbrk : (val + c) % 26 = 0 ∧ val / 26 = 0
    · simp only [hbrk, and_self, if_true, decIdx]
      rcases hcc with rfl | rfl <;> simp <;> omega
    · simp only [hbrk, if_false]
      by_cases hv : val / 26 > 0
      · simp only [hv, if_true, decIdx]
        have := ih (val / 26) c ((val + c) % 26) (by omega) (by omega)
        unfold alphaCorrection at this
        rcases hcc with rfl | rfl
        · simp only [Nat.add_zero, ne_eq, not_true_eq_false, false_and, or_false] at this ⊢
          split at this <;> split <;> simp at * <;> omega
        · simp only [ne_eq] at this ⊢
          split at this <;> split <;> simp at * <;> omega
      · simp only [hv, if_false, decIdx]
        rcases hcc with rfl | rfl <;> simp at * <;> split <;> omega

theorem alphaLoop_lt : ∀ (fuel val corr li : Nat), ∀ i ∈ alphaLoop 26 fuel val corr li, i < 26 := by
  intro fuel
  induction fuel with
  | zero => intro val corr li i h; simp [alphaLoop] at h
  | succ f ih =>
    intro val corr li i h
    simp only [alphaLoop] at h
    split at h
    · simp at h
    · simp only [List.mem_cons] at h
      rcases h with rfl | h
      · exact Nat.mod_lt _ (by omega)
      · split at h
        · exact ih _ _ _ i h
        · simp at h

theorem alphaLoop_length : ∀ (k fuel val corr li : Nat), 1 ≤ k → val < 26 ^ k →
    (alphaLoop 26 fuel val corr li).length ≤ k := by
  intro k
  induction k with
  | zero => intro _ _ _ _ h; omega
  | succ k ih =>
    intro fuel val corr li _ hv
    cases fuel with
    | zero => simp [alphaLoop]
    | succ f =>
      simp only [alphaLoop]
      split
      · simp
      · simp only [List.length_cons]
        split
        · rename_i hpos
          have hlt : val / 26 < 26 ^ k := by
            apply Nat.div_lt_of_lt_mul
            rw [Nat.pow_succ, Nat.mul_comm] at hv
            exact hv
          have hk : 1 ≤ k := by
            cases k with
            | zero => simp at hlt; omega
            | succ k' => omega
          have := ih f (val / 26) (alphaCorrection 26 li corr) ((val + alphaCorrection 26 li corr) % 26) hk hlt
          omega
        · simp

theorem writeBackward_go (cs : List Nat) : ∀ (p : Nat) (acc : Str), cs.length ≤ p + 1 →
    writeBackward.go cs (some p) acc = some (cs.reverse ++ acc) := by
  induction cs with
  | nil => intro p acc _; simp [writeBackward.go]
  | cons c cs ih =>
    intro p acc h
    simp only [writeBackward.go]
    cases cs with
    | nil => simp [writeBackward.go]
    | cons d ds =>
      simp only [List.length_cons] at h
      have hp : ¬ p = 0 := by omega
      simp only [hp, if_false]
      rw [ih (p - 1) (c :: acc) (by simp only [List.length_cons]; omega)]
      simp

theorem writeBackward_ok (buflen : Nat) (cs : List Nat) (h : cs.length ≤ buflen) (hb : 0 < buflen) :
    writeBackward buflen cs = some cs.reverse := by
  unfold writeBackward
  have : ¬ buflen = 0 := by omega
  simp only [this, if_false]
  rw [writeBackward_go cs (buflen - 1) [] (by omega)]
  simp

theorem alphaTable_spec : ∀ d, d < 26 →
    65 ≤ alphaTable.getD d 0 ∧ alphaTable.getD d 0 ≤ 90 ∧
    alphaTable.getD d 0 - 64 = (if d = 0 then 26 else d) := by decide

theorem decodeAlpha_indices : ∀ (l : List Nat), (∀ i ∈ l, i < 26) →
    decodeAlpha ((l.map fun i => alphaTable.getD i 0).reverse) = some (decIdx l) := by
  intro l
  unfold decodeAlpha
  rw [List.foldl_reverse]
  induction l with
  | nil => intro _; rfl
  | cons d ds ih =>
    intro h
    have hd := alphaTable_spec d (h d (by simp))
    have := ih (fun i hi => h i (by simp [hi]))
    simp only [List.map_cons, List.foldr_cons, this, Option.bind_some, hd.1, hd.2.1, and_self, if_true, decIdx, hd.2.2]
    congr 1
    omega

theorem alphaTable_length : alphaTable.length = 26 := by decide

/-! ## roman: the complete range 1 … 3999, by kernel evaluation in blocks of 500 -/

def romanOk (n : Nat) : Bool :=
  n == 0 || (match toRoman n with
    | some s => (match decodeRoman s with
      | some m => m == n
      | none => false)
    | none => false)

theorem roman_block_0 : ∀ a, a < 5 → ∀ b, b < 100 → romanOk (100 * (0 + a) + b) = true := by decide +kernel
theorem roman_block_1 : ∀ a, a < 5 → ∀ b, b < 100 → romanOk (100 * (5 + a) + b) = true := by decide +kernel
theorem roman_block_2 : ∀ a, a < 5 → ∀ b, b < 100 → romanOk (100 * (10 + a) + b) = true := by decide +kernel
theorem roman_block_3 : ∀ a, a < 5 → ∀ b, b < 100 → romanOk (100 * (15 + a) + b) = true := by decide +kernel
theorem roman_block_4 : ∀ a, a < 5 → ∀ b, b < 100 → romanOk (100 * (20 + a) + b) = true := by decide +kernel
theorem roman_block_5 : ∀ a, a < 5 → ∀ b, b < 100 → romanOk (100 * (25 + a) + b) = true := by decide +kernel
theorem roman_block_6 : ∀ a, a < 5 → ∀ b, b < 100 → romanOk (100 * (30 + a) + b) = true := by decide +kernel
theorem roman_block_7 : ∀ a, a < 5 → ∀ b, b < 100 → romanOk (100 * (35 + a) + b) = true := by decide +kernel

theorem romanOk_all (n : Nat) (h : n < 4000) : romanOk n = true := by
  have e : 100 * (n / 100) + n % 100 = n := Nat.div_add_mod n 100
  have hb : n % 100 < 100 := Nat.mod_lt _ (by omega)
  have hq : n / 100 < 40 := by omega
  rw [← e]
  generalize n / 100 = q at hq ⊢
  generalize n % 100 = b at hb ⊢
  have h5 : q / 5 < 8 := by omega
  have e5 : q = 5 * (q / 5) + q % 5 := (Nat.div_add_mod q 5).symm
  have hr : q % 5 < 5 := Nat.mod_lt _ (by omega)
  rw [e5]
  generalize q % 5 = a at hr ⊢
  generalize q / 5 = k at h5 ⊢
  match k, h5 with
  | 0, _ => exact roman_block_0 a hr b hb
  | 1, _ => exact roman_block_1 a hr b hb
  | 2, _ => exact roman_block_2 a hr b hb
  | 3, _ => exact roman_block_3 a hr b hb
  | 4, _ => exact roman_block_4 a hr b hb
  | 5, _ => exact roman_block_5 a hr b hb
  | 6, _ => exact roman_block_6 a hr b hb
  | 7, _ => exact roman_block_7 a hr b hb

/-! ## decimal -/

def digitStep (acc : Option Nat) (c : Nat) : Option Nat :=
  acc.bind fun a => if 48 ≤ c ∧ c ≤ 57 then some (a * 10 + (c - 48)) else none

theorem decimalDigitsFuel_fold : ∀ (f n : Nat) (acc : Str), n < f →
    (decimalDigitsFuel f n acc).foldl digitStep (some 0) = acc.foldl digitStep (some n) := by
  intro f
  induction f with
  | zero => intro n acc h; omega
  | succ f ih =>
    intro n acc h
    simp only [decimalDigitsFuel]
    split
    · rename_i hlt
      have h1 : 48 ≤ 48 + n ∧ 48 + n ≤ 57 := by omega
      simp only [List.foldl_cons, digitStep, Option.bind_some, h1, and_self, if_true]
      congr 2
      omega
    · rename_i hge
      rw [ih (n / 10) _ (by omega)]
      have h1 : 48 ≤ 48 + n % 10 ∧ 48 + n % 10 ≤ 57 := by omega
      simp only [List.foldl_cons, digitStep, Option.bind_some, h1, and_self, if_true]
      congr 2
      omega

theorem zeros_fold (k : Nat) (s : Str) :
    ((List.replicate k [48]).flatten ++ s).foldl digitStep (some 0) = s.foldl digitStep (some 0) := by
  induction k with
  | zero => simp
  | succ k ih =>
    simp only [List.replicate_succ, List.flatten_cons, List.cons_append, List.nil_append, List.foldl_cons]
    simpa [digitStep] using ih

/-! ## the three round trips (restated as property theorems in `Props/C17.lean`) -/

theorem int2alphaCount_roundtrip (n : Nat) (h1 : 1 ≤ n) (hb : n < 26 ^ alphaBufLen) :
    ∃ s, int2alphaCount alphaTable n = some s ∧ decodeAlpha s = some n ∧ s.length ≤ alphaBufLen := by
  have hlen : (alphaIndices 26 n).length ≤ alphaBufLen :=
    alphaLoop_length alphaBufLen (n + 1) n 0 1 (by decide) hb
  have hdec := alphaLoop_dec (n + 1) n 0 1 h1 (by omega)
  have hlt := alphaLoop_lt (n + 1) n 0 1
  have h0 : alphaCorrection 26 1 0 = 0 := by decide
  simp only [h0, if_true, Nat.add_zero] at hdec
  refine ⟨((alphaIndices 26 n).map fun i => alphaTable.getD i 0).reverse, ?_, ?_, ?_⟩
  · unfold int2alphaCount
    rw [alphaTable_length]
    exact writeBackward_ok alphaBufLen _ (by simpa using hlen) (by decide)
  · show decodeAlpha ((alphaLoop 26 (n + 1) n 0 1).map fun i => alphaTable.getD i 0).reverse = some n
    rw [decodeAlpha_indices _ hlt]
    exact congrArg some hdec
  · simpa using hlen

theorem toRoman_roundtrip (n : Nat) (h1 : 1 ≤ n) (h2 : n ≤ 3999) :
    ∃ s, toRoman n = some s ∧ decodeRoman s = some n := by
  have h := romanOk_all n (by omega)
  unfold romanOk at h
  have hn : (n == 0) = false := by simp; omega
  simp only [hn, Bool.false_or] at h
  cases ht : toRoman n with
  | none => simp [ht] at h
  | some s =>
    simp only [ht] at h
    cases hd : decodeRoman s with
    | none => simp [hd] at h
    | some m =>
      simp only [hd, beq_iff_eq] at h
      exact ⟨s, rfl, by rw [hd, h]⟩

theorem formatDecimal_roundtrip (n width : Nat) :
    decodeDecimal [] (formatDecimal {} width n) = some n := by
  have hd : ∀ s : Str, decodeDecimal [] s = s.foldl digitStep (some 0) := by
    intro s
    unfold decodeDecimal
    have : (s.filter fun c => decide ¬ ([] : Str).contains c = true) = s := by
      apply List.filter_eq_self.mpr
      intro a _
      simp
    rw [this]
    rfl
  rw [hd]
  have hg : ∀ v : Str, applyGrouping {} v = v := by
    intro v
    simp [applyGrouping]
  unfold formatDecimal
  simp only [hg]
  have hz : decimalDigits 0 = [48] := by decide
  have hfold : (decimalDigits n).foldl digitStep (some 0) = some n := by
    unfold decimalDigits
    rw [decimalDigitsFuel_fold (n + 1) n [] (by omega)]
    rfl
  split
  · rw [hz, zeros_fold, hfold]
  · exact hfold


end XalanModel.C17
