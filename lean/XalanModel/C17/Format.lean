import XalanModel.Generated.C17_NumberTables
import XalanModel.Generated.C17_NavShape
/-!
# C17 — formatting half of `xsl:number` (ElemNumber.cpp, XalanNumberFormat.cpp)

Transcription, branch by branch, of

* `ElemNumber::NumberFormatStringTokenizer::countTokens / nextToken`   (ElemNumber.cpp:1609-1693)
* `ElemNumber::formatNumberList`                                        (ElemNumber.cpp:891-1041)
* `ElemNumber::getFormattedNumber`                                      (ElemNumber.cpp:1335-1441)
* `ElemNumber::int2alphaCount` with its `buf[buflen + 1]`               (ElemNumber.cpp:1471-1551)
* `ElemNumber::toRoman` over `s_romanConvertTable`                      (ElemNumber.cpp:1556-1605)
* `XalanNumberFormat::format(XMLUInt64)` / `applyGrouping`              (XalanNumberFormat.cpp:160-222)

Characters are UTF-16 code units (`Nat`), strings are `List Nat`.  `isXMLLetterOrDigit` is a parameter
(`alnum`); the driver instantiates it with the ASCII part of the XML tables.  The tables and the two
constants (`romanMax`, `alphaBufLen`) come from `Generated.C17` (regenerated from the source every run).

Next to the transcription: the *decoders* (`decodeAlpha`, `decodeRoman`, `decodeDecimal`, `decodeList`), which
are the specification side of the round-trip theorems; they do not use the generated tables.
Core Lean only.
-/
namespace XalanModel.C17
open XalanModel.Generated.C17

abbrev Str := List Nat

/-! ## Tokenizer -/

/-- the two inner `while` loops of `countTokens` / `nextToken`: longest prefix whose characters all have
class `cls` -/
def spanClass (alnum : Nat → Bool) (cls : Bool) : Str → Str × Str
  | [] => ([], [])
  | c :: cs =>
    if alnum c = cls then
      let r := spanClass alnum cls cs
      (c :: r.1, r.2)
    else ([], c :: cs)

theorem spanClass_length (alnum : Nat → Bool) (cls : Bool) (s : Str) :
    (spanClass alnum cls s).2.length ≤ s.length := by
  induction s with
  | nil => simp [spanClass]
  | cons c cs ih =>
    simp only [spanClass]
    split
    · simp only [List.length_cons]; omega
    · simp

/-- `countTokens` + repeated `nextToken`: maximal runs of letters/digits and of other characters.
`fuel` bounds the outer `while (currpos < m_maxPosition)`; each round consumes at least one character. -/
def tokenizeFuel (alnum : Nat → Bool) : Nat → Str → List Str
  | 0, _ => []
  | _, [] => []
  | f + 1, c :: cs =>
    let r := spanClass alnum (alnum c) cs
    (c :: r.1) :: tokenizeFuel alnum f r.2

def tokenize (alnum : Nat → Bool) (s : Str) : List Str := tokenizeFuel alnum s.length s

/-! ## Alphabetic numbering: `int2alphaCount` -/

/-- the `correction` assignment at the top of the do-loop -/
def alphaCorrection (radix lookupIndex correction : Nat) : Nat :=
  if lookupIndex = 0 ∨ (correction ≠ 0 ∧ lookupIndex = radix - 1) then radix - 1 else 0

/-- The do/while loop, producing the table indices in the order they are written
(least significant first).  `fuel` is structural only: `val` is divided by `radix ≥ 2` each round. -/
def alphaLoop (radix : Nat) : Nat → Nat → Nat → Nat → List Nat
  | 0, _, _, _ => []
  | fuel + 1, val, correction, lookupIndex =>
    let correction' := alphaCorrection radix lookupIndex correction
    let lookupIndex' := (val + correction') % radix
    let val' := val / radix
    if lookupIndex' = 0 ∧ val' = 0 then []            -- `break`: would be a leading zero
    else lookupIndex' :: (if val' > 0 then alphaLoop radix fuel val' correction' lookupIndex' else [])

/-- indices written by the loop for `val` (lookupIndex starts at 1, correction at 0) -/
def alphaIndices (radix val : Nat) : List Nat := alphaLoop radix (val + 1) val 0 1

/-- `buf[charPos--] = c` for a buffer that is filled from index `buflen - 1` downwards: the written suffix
is kept as a list, `charPos` is `none` once it has wrapped below 0; a write through a wrapped `charPos`
is outside the buffer (`none` = memory error). -/
def writeBackward (buflen : Nat) (chars : List Nat) : Option Str :=
  let rec go : List Nat → Option Nat → Str → Option Str
    | [], _, acc => some acc
    | _ :: _, none, _ => none
    | c :: cs, some p, acc => go cs (if p = 0 then none else some (p - 1)) (c :: acc)
  if buflen = 0 then (if chars.isEmpty then some [] else none) else go chars (some (buflen - 1)) []

/-- `ElemNumber::int2alphaCount(val, table, length, theResult)`; `none` = a write outside `buf`. -/
def int2alphaCount (table : List Nat) (val : Nat) : Option Str :=
  writeBackward alphaBufLen ((alphaIndices table.length val).map fun i => table.getD i 0)

/-! ## Roman numbering: `toRoman` -/

/-- inner `while (localValue >= m_postValue)`; fuel = localValue (postValue ≥ 1) -/
def romanPost (e : RomanEntry) : Nat → Nat → Str × Nat
  | 0, v => ([], v)
  | f + 1, v => if v ≥ e.postValue ∧ e.postValue > 0 then
      let r := romanPost e f (v - e.postValue)
      (e.postLetter ++ r.1, r.2)
    else ([], v)

/-- the do/while over `place`; walking off the table (the `assert`) is `none` -/
def romanLoop (prefixesAreOK : Bool) : List RomanEntry → Nat → Option Str
  | [], v => if v = 0 then some [] else none
  | e :: rest, v =>
    let r := romanPost e v v
    let (s2, v2) := if prefixesAreOK ∧ r.2 ≥ e.preValue then (e.preLetter, r.2 - e.preValue) else ([], r.2)
    if v2 > 0 then (romanLoop prefixesAreOK rest v2).map fun t => r.1 ++ s2 ++ t
    else some (r.1 ++ s2)

/-- `ElemNumber::toRoman` (value 0 gives "0", values above `romanMax` give `s_errorString`) -/
def toRoman (val : Nat) (prefixesAreOK : Bool := true) : Option Str :=
  if val = 0 then some [48]
  else if val > romanMax then some errorString
  else romanLoop prefixesAreOK romanTable val

def toLowerASCII (s : Str) : Str := s.map fun c => if 65 ≤ c ∧ c ≤ 90 then c + 32 else c

/-! ## Decimal numbering: `NumberToDOMString(XMLUInt64)`, `applyGrouping`, padding -/

def decimalDigitsFuel : Nat → Nat → Str → Str
  | 0, _, acc => acc
  | f + 1, n, acc => if n < 10 then (48 + n) :: acc else decimalDigitsFuel f (n / 10) ((48 + n % 10) :: acc)

/-- decimal digits, most significant first -/
def decimalDigits (n : Nat) : Str := decimalDigitsFuel (n + 1) n []

structure Grouping where
  used : Bool := false
  sep : Str := defaultGroupingSeparator
  size : Nat := defaultGroupingSize
  /-- length of the evaluated `grouping-separator` attribute (0 when absent): `getNumberFormatter` raises
  "the grouping-separator value must be one character in length" when it exceeds 1, whether or not grouping is used -/
  rawSepLen : Nat := 0
  /-- the evaluated `letter-value` attribute: 0 absent/other, 1 = "alphabetic", 2 = "traditional" (only consulted for
  the Greek numbering type U+03B1) -/
  letterValue : Nat := 0
deriving Repr

/-- the `for` loop of `applyGrouping`: characters are taken from the end of `value` and written at `p--`
while `p > buffer`.  `rev` = not yet consumed characters, last first; `i` = loop counter; `p` = distance of
the write pointer from `buffer`. -/
def groupLoop (g : Grouping) : Str → Nat → Nat → Str → Nat × Str
  | [], _, p, acc => (p, acc)
  | c :: rest, i, p, acc =>
    if p = 0 then (p, acc) else
    -- separator (written last character first, each write guarded by `p > buffer`)
    let (p1, acc1) :=
      if i ≠ 0 ∧ i % g.size = 0 then
        g.sep.reverse.foldl (fun (st : Nat × Str) ch => if st.1 > 0 then (st.1 - 1, ch :: st.2) else st) (p, acc)
      else (p, acc)
    -- `*p-- = c;` is not guarded
    groupLoop g rest (i + 1) (p1 - 1) (c :: acc1)

/-- `XalanNumberFormat::applyGrouping` -/
def applyGrouping (g : Grouping) (value : Str) : Str :=
  if g.used = false ∨ g.size = 0 then value
  else if value.length = 0 then value
  else
    let bufsize := value.length + value.length / g.size + 2
    -- `*p-- = 0` at the last slot, then the loop; result = `++p`
    (groupLoop g value.reverse 0 (bufsize - 2) []).2

/-- `getFormattedNumber`, default branch: format, then left-pad with `format(0)` up to `numberWidth` -/
def formatDecimal (g : Grouping) (width : Nat) (n : Nat) : Str :=
  let s := applyGrouping g (decimalDigits n)
  let pad := applyGrouping g (decimalDigits 0)
  if width > s.length then (List.replicate (width - s.length) pad).flatten ++ s else s

/-! ## Traditional numbering: `traditionalAlphaCount` over a `NumberingBundle` (ElemNumber.cpp:1066-1326) -/

/-- `table[lookupIndex]` of the local copy `table[0] = letters.back(), table[j+1] = letters[j]` -/
def tradTableAt (letters : List Nat) (li : Nat) : Nat :=
  if li = 0 then letters.getLastD 0 else letters.getD (li - 1) 0

/-- inner `while (k < groupsSize)` of the multiplicative part: the first group with `mult / groups[k] > 0` decides; the
rest of `mult` is dropped.  `none` = `fError`. -/
def tradMultGroup (b : NumberingBundle) (mult multChar : Nat) (lastMultiplier : Bool) : List (Nat × Nat) → Option (List Nat)
  | [] => some []
  | (g, t) :: rest =>
    if mult / g = 0 then tradMultGroup b mult multChar lastMultiplier rest
    else
      let letters := b.digitsTable.getD t []
      let li := mult / g
      if li < letters.length + 1 then
        if b.multiplierPrecedes then some [multChar, tradTableAt letters li]
        else if li = 1 ∧ lastMultiplier then some [multChar]
        else some [tradTableAt letters li, multChar]
      else none

/-- the do/while over the multipliers, entered at the first multiplier not greater than the value (the empty zero
character: a multiplier greater than the remaining value is skipped) -/
def tradMultLoop (b : NumberingBundle) : List (Nat × Nat) → Nat → List Nat → Option (List Nat × Nat)
  | [], v, acc => some (acc, v)
  | (m, ch) :: rest, v, acc =>
    if v < m then tradMultLoop b rest v acc
    else
      match tradMultGroup b (v / m) ch rest.isEmpty (b.groups.zip b.tables) with
      | none => none
      | some s => tradMultLoop b rest (v % m) (acc ++ s)

/-- the additive part: one letter per group that divides into the value -/
def tradAdditive (b : NumberingBundle) : List (Nat × Nat) → Nat → List Nat → Option (List Nat)
  | [], _, acc => some acc
  | (g, t) :: rest, v, acc =>
    if v / g = 0 then tradAdditive b rest v acc
    else
      let letters := b.digitsTable.getD t []
      let li := v / g
      if li < letters.length + 1 then tradAdditive b rest (v % g) (acc ++ [tradTableAt letters li])
      else none

/-- `ElemNumber::traditionalAlphaCount(theValue, bundle, theResult)`; `fError` gives `s_errorString` -/
def traditionalAlphaCount (b : NumberingBundle) (v : Nat) : Str :=
  match tradMultLoop b (b.multipliers.zip b.multiplierChars) v [] with
  | none => errorString
  | some (acc, v') =>
    match tradAdditive b (b.groups.zip b.tables) v' acc with
    | none => errorString
    | some s => s

/-- value of one letter of the bundle: (position in its table + 1) × the group of that table -/
def tradLetterValue (b : NumberingBundle) (c : Nat) : Option Nat :=
  (b.groups.zip b.tables).findSome? fun (g, t) =>
    match (b.digitsTable.getD t []).idxOf? c with
    | some i => some ((i + 1) * g)
    | none => none

/-- reading of a traditional numeral (specification side; uses the letter values only): a multiplier character
multiplies the letter that follows it (multiplier-precedes order), everything is added.  `pend` = a multiplier
character has just been read. -/
def decodeTradGo (b : NumberingBundle) : Str → Option Nat → Nat → Option Nat
  | [], none, acc => some acc
  | [], some _, _ => none
  | c :: rest, some m, acc =>
    match tradLetterValue b c with
    | some x => decodeTradGo b rest none (acc + m * x)
    | none => none
  | c :: rest, none, acc =>
    match (b.multiplierChars.zip b.multipliers).find? (fun p => p.1 == c) with
    | some (_, m) => decodeTradGo b rest (some m) acc
    | none =>
      match tradLetterValue b c with
      | some x => decodeTradGo b rest none (acc + x)
      | none => none

def decodeTraditional (b : NumberingBundle) (s : Str) : Option Nat := decodeTradGo b s none 0

/-! ## `getFormattedNumber` -/

/-- numbering types for which `getFormattedNumber` raises "numbering format not supported" -/
def unsupportedTypes : List Nat := [0x3042, 0x3044, 0x30A2, 0x30A4, 0x4E00, 0x58F9, 0x0E51, 0x05D0, 0x10D0, 0x0430]

/-- `none` = an XSLT error is raised (unsupported type, Greek without letter-value) or a memory error -/
def getFormattedNumber (g : Grouping) (numberType width n : Nat) : Option Str :=
  if numberType = 65 then int2alphaCount alphaTable n
  else if numberType = 97 then (int2alphaCount alphaTable n).map toLowerASCII
  else if numberType = 73 then toRoman n
  else if numberType = 105 then (toRoman n).map toLowerASCII
  else if numberType ∈ unsupportedTypes then none
  else if numberType = 0x03B1 then
    -- Greek: letter-value="alphabetic" counts with `s_elalphaCountTable`, "traditional" with `traditionalAlphaCount` over
    -- `s_elalphaResourceBundle`; any other value is an XSLT error
    if g.letterValue = 1 then int2alphaCount elalphaTable n
    else if g.letterValue = 2 then some (traditionalAlphaCount elalphaBundle n)
    else none
  else if g.rawSepLen > 1 then none              -- error raised by getNumberFormatter (decimal branch only)
  else some (formatDecimal g width n)

/-! ## `formatNumberList` -/

structure FmtState where
  it : Nat
  numberType : Nat := 49
  numberWidth : Nat := 1
  sep : Option Str := none

def firstIsAlnum (alnum : Nat → Bool) (t : Str) : Bool := alnum (t.headD 0)

/-- the body of the `for` loop over the list (everything before the "all but the last one" test) -/
def fmtStep (toks : List Str) (trailerIdx : Nat) (st : FmtState) : FmtState :=
  let st1 :=
    if st.it ≠ trailerIdx then
      let t := toks.getD st.it []
      { st with numberWidth := t.length, numberType := t.getD (t.length - 1) 0, it := st.it + 1 }
    else st
  if st1.it ≠ trailerIdx then
    { st1 with sep := some (toks.getD st1.it []), it := st1.it + 1 }
  else st1

def fmtLoop (alnum : Nat → Bool) (g : Grouping) (toks : List Str) (trailerIdx : Nat) :
    List Nat → FmtState → Option Str
  | [], _ => some []
  | n :: rest, st =>
    let st' := fmtStep toks trailerIdx st
    match getFormattedNumber g st'.numberType st'.numberWidth n with
    | none => none
    | some s =>
      if rest.isEmpty then some s
      else (fmtLoop alnum g toks trailerIdx rest st').map fun t => s ++ st'.sep.getD [46] ++ t

/-- `ElemNumber::formatNumberList` (`fmt` = the evaluated `format` AVT, empty when absent).
`singleBoth` = the final `else if (theVectorSize == 1 && leaderStrIt != endIt) theResult += *leaderStrIt;` is present:
a format string that is one non-alphanumeric token is then prefix *and* suffix. -/
def formatNumberListP (singleBoth : Bool) (alnum : Nat → Bool) (g : Grouping) (fmt : Str) (list : List Nat) : Option Str :=
  let fmt := if fmt.isEmpty then [49] else fmt
  let toks := tokenize alnum fmt
  let size := toks.length
  let hasLeader := size > 0 ∧ ¬ firstIsAlnum alnum (toks.getD 0 [])
  let it0 := if hasLeader then 1 else 0
  let trailerIdx := if size > 1 ∧ ¬ firstIsAlnum alnum (toks.getD (size - 1) []) then size - 1 else size
  let leader : Str := if hasLeader then toks.getD 0 [] else []
  let trailer : Str := if trailerIdx ≠ size then toks.getD trailerIdx []
    else if singleBoth = true ∧ size = 1 ∧ hasLeader then toks.getD 0 [] else []
  (fmtLoop alnum g toks trailerIdx list { it := it0 }).map fun body => leader ++ body ++ trailer

/-- `formatNumberList` of the current source (`singlePunctuationTokenIsAlsoSuffix` is read from it) -/
def formatNumberList (alnum : Nat → Bool) (g : Grouping) (fmt : Str) (list : List Nat) : Option Str :=
  formatNumberListP singlePunctuationTokenIsAlsoSuffix alnum g fmt list

/-! ## `value=` path of `getCountString` for integral values -/

/-- For an integral value `v`: values below 0.5 are printed by `NumberToDOMString(double)` (plain decimal,
with sign), others are rounded (identity on integers) and formatted. -/
def formatValue (alnum : Nat → Bool) (g : Grouping) (fmt : Str) (v : Int) : Option Str :=
  if v < 1 then
    some ((if v < 0 then [45] else []) ++ decimalDigits v.natAbs)
  else formatNumberList alnum g fmt [v.toNat]

/-- outcome of the `value=` path for a rational value -/
inductive ValueOut
  | viaNumberToString              -- NaN, ±∞, < 0.5 (XSLT 1.0 erratum E24), or beyond `CountType` when the guard is present
  | castUndefined                  -- `CountType(round(v))` for a value ≥ 2^64: undefined behaviour (no guard in the code)
  | formatted (s : Option Str)     -- rounded (half up, `DoubleSupport::round`) and formatted
deriving Repr

/-- `value=` path of `getCountString` for the value `num / den` (`den > 0`): `lessThan(v, 0.5)` → unformatted;
else `CountType(round(v))`, which is only defined below 2^64 -/
def formatValueQ (rangeGuard : Bool) (alnum : Nat → Bool) (g : Grouping) (fmt : Str) (num : Int) (den : Nat) : ValueOut :=
  if 2 * num < (den : Int) then .viaNumberToString
  else
    let n := ((2 * num + den) / (2 * (den : Int))).toNat
    if n ≥ 2 ^ 64 then (if rangeGuard then .viaNumberToString else .castUndefined)
    else .formatted (formatNumberList alnum g fmt [n])

/-! ## Decoders (specification side) -/

/-- bijective base-26 reading of a string of upper-case letters: A=1 … Z=26 -/
def decodeAlpha (s : Str) : Option Nat :=
  s.foldl (fun acc c => acc.bind fun a => if 65 ≤ c ∧ c ≤ 90 then some (a * 26 + (c - 64)) else none) (some 0)

def romanLetterValue (c : Nat) : Option Nat :=
  if c = 73 then some 1 else if c = 86 then some 5 else if c = 88 then some 10 else if c = 76 then some 50
  else if c = 67 then some 100 else if c = 68 then some 500 else if c = 77 then some 1000 else none

/-- standard reading of a roman numeral: a letter smaller than its right neighbour is subtracted -/
def decodeRomanVals : List Nat → Nat
  | [] => 0
  | [a] => a
  | a :: b :: rest => if a < b then decodeRomanVals (b :: rest) - a else a + decodeRomanVals (b :: rest)

def decodeRoman (s : Str) : Option Nat :=
  (s.mapM romanLetterValue).map decodeRomanVals

/-- decimal reading, ignoring the grouping separator characters -/
def decodeDecimal (sep : Str) (s : Str) : Option Nat :=
  (s.filter fun c => ¬ sep.contains c).foldl
    (fun acc c => acc.bind fun a => if 48 ≤ c ∧ c ≤ 57 then some (a * 10 + (c - 48)) else none) (some 0)

def toUpperASCII (s : Str) : Str := s.map fun c => if 97 ≤ c ∧ c ≤ 122 then c - 32 else c

/-- decode one formatted number according to the numbering type of its format token -/
def decodeNumber (numberType : Nat) (gsep : Str) (s : Str) : Option Nat :=
  if numberType = 65 then decodeAlpha s
  else if numberType = 97 then decodeAlpha (toUpperASCII s)
  else if numberType = 73 then decodeRoman s
  else if numberType = 105 then decodeRoman (toUpperASCII s)
  else decodeDecimal gsep s

/-- numbering type of the i-th number under format `fmt` (the last format token repeats) -/
def numberTypes (alnum : Nat → Bool) (fmt : Str) : List Nat :=
  let fmt := if fmt.isEmpty then [49] else fmt
  ((tokenize alnum fmt).filter (firstIsAlnum alnum)).map fun t => t.getD (t.length - 1) 0

/-- Decode a formatted number list: the maximal letter/digit runs of the output are the numbers
(when grouping is in use the grouping separator is part of a run). -/
def decodeList (alnum : Nat → Bool) (g : Grouping) (fmt : Str) (out : Str) : Option (List Nat) :=
  let gsep : Str := if g.used ∧ g.size ≠ 0 then g.sep else []
  let alnum' : Nat → Bool := fun c => alnum c || gsep.contains c
  let runs := (tokenize alnum' out).filter (firstIsAlnum alnum')
  let types := numberTypes alnum fmt
  let lastT := types.getLastD 49
  (runs.zipIdx).mapM fun (r, i) => decodeNumber (types.getD i lastT) gsep r

end XalanModel.C17
