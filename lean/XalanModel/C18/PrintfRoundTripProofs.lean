import XalanModel.C18.RoundTripProofs
import XalanModel.C18.GrammarProofs
import XalanModel.C18.DblProofs
/-! Helper lemmas for C18: `roundRat` depends on the value only; zero stripping preserves the value `atof` reads;
round trip of the precision-loop path. -/
set_option linter.unusedSimpArgs false
namespace XalanModel.C18
open Dbl

theorem roundRat_scale (neg : Bool) (n d c : Nat) (hc : 0 < c) :
    roundRat neg (n * c) (d * c) = roundRat neg n d := by
  unfold roundRat
  simp only
  rw [Nat.gcd_mul_right]
  by_cases hg : Nat.gcd n d = 0
  · have hn : n = 0 := Nat.eq_zero_of_gcd_eq_zero_left hg
    have hd : d = 0 := Nat.eq_zero_of_gcd_eq_zero_right hg
    subst hn; subst hd; simp
  · rw [Nat.mul_div_mul_right _ _ hc, Nat.mul_div_mul_right _ _ hc]

theorem natOfDigits_append (a b : List Nat) :
    natOfDigits (a ++ b) = natOfDigits a * 10 ^ b.length + natOfDigits b := by
  unfold natOfDigits
  rw [List.foldl_append, foldl_digits_shift b]

theorem natOfDigits_zeros (zs : List Nat) (hz : ∀ c ∈ zs, c = c0) : natOfDigits zs = 0 := by
  induction zs with
  | nil => rfl
  | cons z t ih =>
    have hz0 : z = c0 := hz z (by simp)
    rw [natOfDigits_cons, ih (fun c hc => hz c (by simp [hc])), hz0]; simp

/-- what `atof` reads from `sign digits` or `sign digits '.' digits` -/
theorem atofModel_shape (neg : Bool) (ip fp : List Nat) (dot : Bool) (hip : ∀ c ∈ ip, isDigit c = true)
    (hne : ip ≠ []) (hfp : ∀ c ∈ fp, isDigit c = true) (hdot : dot = false → fp = []) :
    atofModel (signOf neg ++ ip ++ (if dot then cDot :: fp else [])) =
      roundRat neg (natOfDigits (ip ++ fp)) (10 ^ fp.length) := by
  obtain ⟨d0, dt, rfl⟩ : ∃ d0 dt, ip = d0 :: dt := by
    cases ip with
    | nil => exact absurd rfl hne
    | cons a b => exact ⟨a, b, rfl⟩
  have hd0 : isDigit d0 = true := hip d0 (by simp)
  have hdd : isDigit cDot = false := by decide
  unfold atofModel
  have hdrop : (signOf neg ++ (d0 :: dt) ++ (if dot then cDot :: fp else [])).dropWhile isWs =
      signOf neg ++ (d0 :: dt) ++ (if dot then cDot :: fp else []) := by
    cases neg
    · simp [signOf, isWs_not_digit d0 hd0]
    · simp [signOf, isWs_not_minus]
  have hhead : ((signOf neg ++ (d0 :: dt) ++ (if dot then cDot :: fp else [])).head? == some cMinus) = neg := by
    cases neg
    · simp [signOf, isDigit_ne_minus d0 hd0]
    · simp [signOf]
  have hs2 : (if neg = true then List.drop 1 (signOf neg ++ (d0 :: dt) ++ (if dot then cDot :: fp else []))
      else signOf neg ++ (d0 :: dt) ++ (if dot then cDot :: fp else [])) = (d0 :: dt) ++ (if dot then cDot :: fp else []) := by
    cases neg <;> simp [signOf]
  simp only [hdrop, hhead, hs2]
  cases dot
  · have hfp0 : fp = [] := hdot rfl
    subst hfp0
    simp only [Bool.false_eq_true, if_false, List.append_nil]
    have h1 : (d0 :: dt).takeWhile isDigit = d0 :: dt := by
      have := takeWhile_append_all isDigit (d0 :: dt) [] hip (by simp); simpa using this.1
    have h2 : (d0 :: dt).dropWhile isDigit = [] := by
      have := takeWhile_append_all isDigit (d0 :: dt) [] hip (by simp); simpa using this.2
    simp [h1, h2]
  · simp only [if_true]
    have h := takeWhile_append_stop isDigit (d0 :: dt) cDot fp hip hdd
    rw [h.1, h.2]
    have h3 : fp.takeWhile isDigit = fp := by
      have := takeWhile_append_all isDigit fp [] hfp (by simp); simpa using this.1
    simp [h3]

/-- the exact result of the zero-stripping on a printf-shaped buffer -/
theorem postProcess_cases (sg ip fp : List Nat) (hfpd : ∀ c ∈ fp, isDigit c = true) :
    ((∀ c ∈ fp, c = c0) ∧ postProcess (sg ++ ip ++ cDot :: fp) = some (sg ++ ip)) ∨
    (∃ fp1 d zs, fp = fp1 ++ d :: zs ∧ d ≠ c0 ∧ (∀ c ∈ zs, c = c0) ∧
      postProcess (sg ++ ip ++ cDot :: fp) = some (sg ++ ip ++ cDot :: (fp1 ++ [d]))) := by
  have hdot0 : cDot ≠ c0 := by decide
  have hdotd : isDigit cDot = false := by decide
  rcases split_trailing_zeros fp with hz | ⟨fp1, d, zs, rfl, hd, hz⟩
  · left
    refine ⟨hz, ?_⟩
    have hr := repairPoint_id (sg ++ ip) fp hfpd 0 (Nat.zero_le _)
    rw [Nat.add_zero] at hr
    rw [postProcess_of_split (sg ++ ip) cDot fp hdot0 hz hr]
    simp only [hdotd]
    exact congrArg some (take_pre _ _)
  · right
    refine ⟨fp1, d, zs, rfl, hd, hz, ?_⟩
    have hdd : isDigit d = true := hfpd d (by simp)
    have hbuf : sg ++ ip ++ cDot :: (fp1 ++ d :: zs) = (sg ++ ip ++ cDot :: fp1) ++ d :: zs := by simp
    have hk : (sg ++ ip ++ cDot :: fp1).length = (sg ++ ip).length + (fp1.length + 1) := by simp; omega
    have hr := repairPoint_id (sg ++ ip) (fp1 ++ d :: zs) hfpd (fp1.length + 1) (by simp)
    rw [← hk, hbuf] at hr
    rw [hbuf, postProcess_of_split (sg ++ ip ++ cDot :: fp1) d zs hd hz hr]
    simp only [hdd, if_true]
    rw [take_pre_succ]
    simp

theorem atofModel_dropWhile (s : List Nat) : atofModel (s.dropWhile isWs) = atofModel s := by
  unfold atofModel; simp only [dropWhile_idem]

/-- `atof` on the trimmed string is the specification, for every numeral -/
theorem atofModel_eq_spec (s : List Nat) (hm : matchesNumber s = true) : atofModel s = toDoubleSpec s := by
  unfold atofModel toDoubleSpec
  simp only [hm, Bool.not_true, Bool.false_eq_true, if_false]
  have hbody : bodySpec (if ((s.dropWhile isWs).head? == some cMinus) = true then (s.dropWhile isWs).drop 1 else s.dropWhile isWs) = true := by
    unfold matchesNumber at hm
    cases hs : s.dropWhile isWs with
    | nil => rw [hs] at hm; simp at hm
    | cons c t =>
      rw [hs] at hm; simp only at hm
      by_cases hc : c = cMinus
      · subst hc; simpa using hm
      · simp only [hc, if_false] at hm
        simp [hc, hm]
  have := bodySpec_digits _ hbody
  simp only at this
  rw [this]
  simp

/-- **zero stripping does not change the value `atof` reads** -/
theorem atofModel_postProcess (neg : Bool) (ip fp : List Nat) (hip : ∀ c ∈ ip, isDigit c = true) (hne : ip ≠ [])
    (hfp : ∀ c ∈ fp, isDigit c = true) (s : List Nat)
    (hs : postProcess (signOf neg ++ ip ++ cDot :: fp) = some s) :
    atofModel s = atofModel (signOf neg ++ ip ++ cDot :: fp) ∧
      ((∀ c ∈ fp, c = c0) ∧ s = signOf neg ++ ip ∨
       ∃ fp', s = signOf neg ++ ip ++ cDot :: fp' ∧ ∀ c ∈ fp', isDigit c = true) := by
  have hbuf := atofModel_shape neg ip fp true hip hne hfp (by simp)
  simp only [if_true] at hbuf
  rcases postProcess_cases (signOf neg) ip fp hfp with ⟨hz, h⟩ | ⟨fp1, d, zs, rfl, hd, hz, h⟩
  · rw [h] at hs; cases hs
    refine ⟨?_, Or.inl ⟨hz, rfl⟩⟩
    have hshort := atofModel_shape neg ip [] false hip hne (by simp) (by simp)
    simp only [Bool.false_eq_true, if_false, List.append_nil, List.length_nil, Nat.pow_zero] at hshort
    rw [hshort, hbuf, natOfDigits_append, natOfDigits_zeros fp hz, Nat.add_zero]
    have := roundRat_scale neg (natOfDigits ip) 1 (10 ^ fp.length) (Nat.pow_pos (by decide))
    rw [Nat.one_mul] at this; exact this.symm
  · rw [h] at hs; cases hs
    have hd1 : ∀ c ∈ fp1 ++ [d], isDigit c = true := by
      intro c hc; exact hfp c (by
        rcases List.mem_append.mp hc with h | h
        · simp [h]
        · simp at h; simp [h])
    refine ⟨?_, Or.inr ⟨fp1 ++ [d], rfl, hd1⟩⟩
    have hkept := atofModel_shape neg ip (fp1 ++ [d]) true hip hne hd1 (by simp)
    simp only [if_true] at hkept
    rw [hkept, hbuf]
    have e1 : ip ++ (fp1 ++ d :: zs) = (ip ++ (fp1 ++ [d])) ++ zs := by simp
    rw [e1, natOfDigits_append (ip ++ (fp1 ++ [d])) zs, natOfDigits_zeros zs hz, Nat.add_zero]
    have e2 : (fp1 ++ d :: zs).length = (fp1 ++ [d]).length + zs.length := by simp; omega
    rw [e2, Nat.pow_add]
    exact (roundRat_scale neg _ _ (10 ^ zs.length) (Nat.pow_pos (by decide))).symm

/-- **round trip through the printf path**: when the text in the buffer at the start of the zero stripping
(result of the precision loop, or of `formatSmallNumber`) reads back equal (`atof(buf) == x`), the final
string — after zero stripping — still reads back as `x`: its specified value `toDoubleSpec s` is
IEEE-equal to `x`, and `toDouble` returns exactly that on the `atof` path (decimal point present, or at
least `threshold` characters). -/
theorem roundtrip_printf (cfg : NumCfg) (keep : Bool) (threshold : Nat) (neg : Bool) (m : Nat) (e : Int)
    (hm : m ≠ 0) (hP : ∀ p ∈ cfg.precisions, 1 ≤ p)
    (hnint : (Dbl.ofInt (castInt64 neg m e)).ieeeEq (.fin neg m e) = false)
    (buf : List Nat) (hl : finalBuffer cfg neg m e = some buf)
    (hexit : (atofModel buf).ieeeEq (.fin neg m e) = true) :
    ∃ s, numberToString cfg (.fin neg m e) = .ok s ∧ matchesNumber s = true ∧
      (toDoubleSpec s).ieeeEq (.fin neg m e) = true ∧
      (((doValidate2 s).2 = true ∨ threshold ≤ s.length) → toDoubleK keep threshold s = toDoubleSpec s) := by
  obtain ⟨⟨ip, fp, rfl, hne, hip, _, _, hfp⟩, _⟩ := finalBuffer_some cfg neg m e buf hP hl
  obtain ⟨s, hs⟩ : ∃ s, postProcess (signOf neg ++ ip ++ cDot :: fp) = some s := by
    rcases postProcess_cases (signOf neg) ip fp hfp with ⟨_, h⟩ | ⟨_, _, _, _, _, _, h⟩ <;> exact ⟨_, h⟩
  obtain ⟨hval, hform⟩ := atofModel_postProcess neg ip fp hip hne hfp s hs
  have hit : intTest cfg neg m e = false := by rw [intTest_iff]; exact hnint
  have hstr : numberToString cfg (.fin neg m e) = .ok s := by
    simp only [numberToString, hm, if_false, hit, Bool.false_eq_true, hl, hs]
  -- the output is a numeral without NUL
  have hsg : signOf neg = [] ∨ signOf neg = [cMinus] := by cases neg <;> simp [signOf]
  have hgram : NumberGrammar s := by
    rcases hform with ⟨_, rfl⟩ | ⟨fp', rfl, hfp'⟩
    · exact ⟨[], signOf neg, ip, [], [], by simp, by simp, by simp, hsg, hip, Or.inl ⟨rfl, hne⟩⟩
    · exact ⟨[], signOf neg, ip, cDot :: fp', [], by simp, by simp, by simp, hsg, hip,
        Or.inr ⟨fp', rfl, hfp', Or.inl hne⟩⟩
  have hmatch := matches_of_grammar s hgram
  have hnz : ∀ c ∈ s, c ≠ 0 := by
    have hd0 : isDigit 0 = false := by decide
    have hsg0 : ∀ c ∈ signOf neg, c ≠ 0 := by cases neg <;> simp [signOf, cMinus]
    intro c hc h0; subst h0
    rcases hform with ⟨_, rfl⟩ | ⟨fp', rfl, hfp'⟩
    · rcases List.mem_append.mp hc with h | h
      · exact hsg0 0 h rfl
      · have := hip 0 h; simp [hd0] at this
    · simp only [List.mem_append, List.mem_cons] at hc
      rcases hc with (h | h) | h | h
      · exact hsg0 0 h rfl
      · have := hip 0 h; simp [hd0] at this
      · simp [cDot] at h
      · have := hfp' 0 h; simp [hd0] at this
  refine ⟨s, hstr, hmatch, ?_, ?_⟩
  · rw [← atofModel_eq_spec s hmatch, hval]; exact hexit
  · intro hpath; exact atof_path_K keep threshold s hnz hmatch hpath

/-- what `atof` reads from the output of `sprintf("%.Nf")`: the rounded scaled integer over `10^N` -/
theorem atofModel_printfF (N : Nat) (hN : 1 ≤ N) (neg : Bool) (m : Nat) (e : Int) :
    atofModel (printfF N neg m e) = roundRat neg (scaledQ N m e) (10 ^ N) := by
  have hN0 : N ≠ 0 := by omega
  have hT : 0 < 10 ^ N := Nat.pow_pos (by decide)
  rw [printfF_eq]
  simp only [hN0, if_false]
  generalize hQ : scaledQ N m e = Q
  have hb : (decDigits (Q % 10 ^ N)).length ≤ N := decDigits_length_le _ N hN (Nat.mod_lt _ hT)
  have hfpd : ∀ c ∈ List.replicate (N - (decDigits (Q % 10 ^ N)).length) c0 ++ decDigits (Q % 10 ^ N), isDigit c = true := by
    intro c hc
    rcases List.mem_append.mp hc with h | h
    · have := List.eq_of_mem_replicate h; subst this; decide
    · exact decDigits_all _ c h
  have := atofModel_shape neg (decDigits (Q / 10 ^ N)) _ true (decDigits_all _) (decDigits_ne_nil _) hfpd (by simp)
  simp only [if_true] at this
  rw [this]
  have hlen : (List.replicate (N - (decDigits (Q % 10 ^ N)).length) c0 ++ decDigits (Q % 10 ^ N)).length = N := by
    simp; omega
  rw [hlen, natOfDigits_append, hlen, natOfDigits_decDigits, natOfDigits_append,
    natOfDigits_zeros _ (fun c hc => List.eq_of_mem_replicate hc), natOfDigits_decDigits]
  congr 1
  have := Nat.div_add_mod Q (10 ^ N)
  rw [Nat.zero_mul, Nat.zero_add, Nat.mul_comm]; exact this

/-- the precision loop ends with a buffer that reads back, or with the output of the last format -/
theorem printLoop_result (B : Nat) (neg : Bool) (m : Nat) (e : Int) :
    ∀ (ps : List Nat) (buf : List Nat), printLoop B neg m e ps = some buf →
      (atofModel buf).ieeeEq (.fin neg m e) = true ∨ ∃ p, ps.getLast? = some p ∧ buf = printfF p neg m e := by
  intro ps
  induction ps with
  | nil => intro buf h; simp [printLoop] at h
  | cons p rest ih =>
    intro buf h
    simp only [printLoop] at h
    split at h
    · cases h
    · split at h
      · rename_i hm; cases h; exact Or.inl hm
      · cases rest with
        | nil => simp at h; cases h; exact Or.inr ⟨p, rfl, rfl⟩
        | cons q r =>
          simp only at h
          rcases ih buf h with h1 | ⟨p', hp', hb⟩
          · exact Or.inl h1
          · exact Or.inr ⟨p', by simpa using hp', hb⟩

/-- **Assumed lemma about decimal ↔ binary rounding** (Matula 1968; Goldberg 1991, Thm 15): 17 significant
decimal digits identify a binary64 value.  If `N` is `|x|·10^j` rounded half-even to an integer and `N` has at
least 17 digits, the double nearest to `N / 10^j` is `x`.  Stated as a proposition, used only as an explicit
hypothesis (never as an axiom). -/
def Digits17Suffice : Prop :=
  ∀ (neg : Bool) (m : Nat) (e : Int) (j : Nat), Canonical m e → m ≠ 0 → 10 ^ 16 ≤ scaledQ j m e →
    (roundRat neg (scaledQ j m e) (10 ^ j)).ieeeEq (.fin neg m e) = true

/-- under that lemma the text handed to the zero stripping reads back whenever the last precision of the
table shows at least 17 significant digits of `x` (`|x|·10^P ≥ 10^16`, i.e. `|x| ≳ 1e-19` for P = 35) -/
theorem readsBack_of_digits17 (H : Digits17Suffice) (cfg : NumCfg) (neg : Bool) (m : Nat) (e : Int)
    (hc : Canonical m e) (hm : m ≠ 0) (hP : ∀ p ∈ cfg.precisions, 1 ≤ p) (P : Nat)
    (hlast : cfg.precisions.getLast? = some P) (h17 : 10 ^ 16 ≤ scaledQ P m e)
    (buf : List Nat) (hfin : finalBuffer cfg neg m e = some buf) :
    (atofModel buf).ieeeEq (.fin neg m e) = true := by
  have hPmem : P ∈ cfg.precisions := List.mem_of_getLast? hlast
  unfold finalBuffer at hfin
  cases hl : printLoop cfg.buffer neg m e cfg.precisions with
  | none => rw [hl] at hfin; cases hfin
  | some b0 =>
    have hb0 : (atofModel b0).ieeeEq (.fin neg m e) = true := by
      rcases printLoop_result _ _ _ _ _ _ hl with h | ⟨p, hp, rfl⟩
      · exact h
      · rw [hlast] at hp; cases hp
        rw [atofModel_printfF P (hP P hPmem)]
        exact H neg m e P hc hm h17
    rw [hl] at hfin
    simp only [hb0, Bool.not_true, Bool.and_false, Bool.false_eq_true, if_false] at hfin
    cases hfin; exact hb0


end XalanModel.C18
