import XalanModel.C18.Dbl
/-! Helper lemmas for C18: `roundDyadic` of a representable value is its canonical form. -/
set_option linter.unusedSimpArgs false
namespace XalanModel.C18
open Dbl

/-- the finite values a bit pattern decodes to -/
def Canonical (m : Nat) (e : Int) : Prop :=
  (m < 2 ^ 52 ∧ e = minExp) ∨ (2 ^ 52 ≤ m ∧ m < 2 ^ 53 ∧ minExp ≤ e ∧ e ≤ maxExp)

theorem canonical_bounds {m : Nat} {e : Int} (h : Canonical m e) : m < 2 ^ 53 ∧ (-1074 : Int) ≤ e ∧ e ≤ 971 := by
  simp only [Canonical, minExp, maxExp] at *
  have : (2:Nat)^52 < 2^53 := by decide
  rcases h with ⟨h1, h2⟩ | ⟨h1, h2, h3, h4⟩ <;> omega

/-- target exponent chosen by `roundDyadic` for `M = m·2^j` is the canonical exponent -/
theorem target_exp_mul (m : Nat) (e : Int) (hc : Canonical m e) (hm : m ≠ 0) (j : Nat) (E : Int) (hE : E + j = e) :
    max (-1074 : Int) (E + ((Nat.log2 (m * 2 ^ j) + 1 : Nat) : Int) - 53) = e := by
  have hM : m * 2 ^ j ≠ 0 := Nat.mul_ne_zero hm (Nat.pos_iff_ne_zero.mp (Nat.pow_pos (by decide)))
  simp only [Canonical, minExp, maxExp] at *
  rcases hc with ⟨h1, h2⟩ | ⟨h1, h2, h3, h4⟩
  · have : (m * 2 ^ j).log2 < 52 + j := by
      rw [Nat.log2_lt hM, Nat.pow_add]
      exact Nat.mul_lt_mul_of_lt_of_le h1 (Nat.le_refl _) (Nat.pow_pos (by decide))
    omega
  · have : (m * 2 ^ j).log2 = 52 + j := by
      rw [Nat.log2_eq_iff hM]
      constructor
      · rw [Nat.pow_add]; exact Nat.mul_le_mul_right _ h1
      · rw [show 52 + j + 1 = 53 + j by omega, Nat.pow_add]
        exact Nat.mul_lt_mul_of_lt_of_le h2 (Nat.le_refl _) (Nat.pow_pos (by decide))
    omega

/-- **`roundDyadic` of a representable value is its canonical form** (scaled-up representation) -/
theorem roundDyadic_canonical_mul (neg : Bool) (m : Nat) (e : Int) (hc : Canonical m e) (hm : m ≠ 0) (j : Nat) :
    roundDyadic neg (m * 2 ^ j) (e - j) = .fin neg m e := by
  have hM : m * 2 ^ j ≠ 0 := Nat.mul_ne_zero hm (Nat.pos_iff_ne_zero.mp (Nat.pow_pos (by decide)))
  have ht := target_exp_mul m e hc hm j (e - j) (by omega)
  have hb := canonical_bounds hc
  unfold roundDyadic
  simp only [minExp, maxExp, hM, if_false, ht]
  by_cases hj : j = 0
  · subst hj
    have h1 : e ≤ e - ((0 : Nat) : Int) := by omega
    have h2 : ¬ e > 971 := by omega
    simp only [h1, if_true, h2, if_false]
    simp
  · have h1 : ¬ e ≤ e - (j : Int) := by omega
    have hk : (e - (e - (j : Int))).toNat = j := by omega
    have hq : m * 2 ^ j / 2 ^ j = m := Nat.mul_div_cancel _ (Nat.pow_pos (by decide))
    have hr : m * 2 ^ j % 2 ^ j = 0 := Nat.mul_mod_left _ _
    have hhalf : 0 < 2 ^ (j - 1) := Nat.pow_pos (by decide)
    have h53 : m ≠ 2 ^ 53 := by omega
    have h2 : ¬ e > 971 := by omega
    simp only [h1, if_false, hk, hq, hr]
    have hc1 : ¬ (0 > 2 ^ (j - 1) ∨ 0 = 2 ^ (j - 1) ∧ m % 2 = 1) := by omega
    simp only [hc1, if_false, h53, h2]

/-- … and from a scaled-down representation `M·2^(e+j)` with `m = M·2^j` -/
theorem roundDyadic_canonical_div (neg : Bool) (m : Nat) (e : Int) (hc : Canonical m e) (hm : m ≠ 0)
    (M j : Nat) (hM : m = M * 2 ^ j) : roundDyadic neg M (e + j) = .fin neg m e := by
  have hM0 : M ≠ 0 := by intro h; subst h; simp at hM; exact hm hM
  have hb := canonical_bounds hc
  have ht : max (-1074 : Int) ((e + j) + ((Nat.log2 M + 1 : Nat) : Int) - 53) = e := by
    simp only [Canonical, minExp, maxExp] at *
    rcases hc with ⟨h1, h2⟩ | ⟨h1, h2, h3, h4⟩
    · have : M.log2 + j < 52 := by
        have : M.log2 < 52 - j ∨ 52 ≤ j := by
          by_cases hj : 52 ≤ j
          · exact Or.inr hj
          · left
            rw [Nat.log2_lt hM0]
            have : M * 2 ^ j < 2 ^ (52 - j) * 2 ^ j := by
              rw [← Nat.pow_add, show 52 - j + j = 52 by omega, ← hM]; exact h1
            exact Nat.lt_of_mul_lt_mul_right this
        rcases this with h | h
        · omega
        · exfalso
          have : 2 ^ 52 ≤ M * 2 ^ j := by
            calc 2 ^ 52 ≤ 2 ^ j := Nat.pow_le_pow_right (by decide) h
              _ ≤ M * 2 ^ j := Nat.le_mul_of_pos_left _ (Nat.pos_of_ne_zero hM0)
          omega
      omega
    · have hj : j ≤ 52 := by
        by_cases hj : j ≤ 52
        · exact hj
        · exfalso
          have : 2 ^ 53 ≤ M * 2 ^ j := by
            calc 2 ^ 53 ≤ 2 ^ j := Nat.pow_le_pow_right (by decide) (by omega)
              _ ≤ M * 2 ^ j := Nat.le_mul_of_pos_left _ (Nat.pos_of_ne_zero hM0)
          omega
      have : M.log2 = 52 - j := by
        rw [Nat.log2_eq_iff hM0]
        constructor
        · have : 2 ^ (52 - j) * 2 ^ j ≤ M * 2 ^ j := by
            rw [← Nat.pow_add, show 52 - j + j = 52 by omega, ← hM]; exact h1
          exact Nat.le_of_mul_le_mul_right this (Nat.pow_pos (by decide))
        · have : M * 2 ^ j < 2 ^ (52 - j + 1) * 2 ^ j := by
            rw [← Nat.pow_add, show 52 - j + 1 + j = 53 by omega, ← hM]; exact h2
          exact Nat.lt_of_mul_lt_mul_right this
      omega
  unfold roundDyadic
  simp only [minExp, maxExp, hM0, if_false, ht]
  have h1 : e ≤ e + (j : Int) := by omega
  have h2 : ¬ e > 971 := by omega
  have hk : (e + (j : Int) - e).toNat = j := by omega
  simp only [h1, if_true, h2, if_false, hk, ← hM]

/-- every bit pattern decodes to NaN, an infinity or a canonical finite value -/
theorem ofBits_canonical (b : Nat) : match Dbl.ofBits b with
    | .fin _ m e => Canonical m e
    | _ => True := by
  unfold Dbl.ofBits
  simp only
  by_cases h1 : (b / 2 ^ 52 % 2048 == 2047) = true
  · simp only [h1, if_true]
    by_cases h3 : (b % 2 ^ 52 == 0) = true <;> simp [h3]
  · simp only [h1, Bool.false_eq_true, if_false]
    by_cases h2 : (b / 2 ^ 52 % 2048 == 0) = true
    · simp only [h2, if_true, Canonical]
      left; exact ⟨Nat.mod_lt _ (by decide), trivial⟩
    · simp only [h2, Bool.false_eq_true, if_false, Canonical, minExp, maxExp]
      right
      have hlt : b / 2 ^ 52 % 2048 < 2048 := Nat.mod_lt _ (by decide)
      have hfr : b % 2 ^ 52 < 2 ^ 52 := Nat.mod_lt _ (by decide)
      have h1' : b / 2 ^ 52 % 2048 ≠ 2047 := by simpa using h1
      have h2' : b / 2 ^ 52 % 2048 ≠ 0 := by simpa using h2
      refine ⟨by omega, by omega, by omega, by omega⟩

/-- canonical form of a non-zero integer below 2^53 -/
theorem canonical_of_small_int (n : Nat) (hn : n ≠ 0) (hlt : n < 2 ^ 53) :
    Canonical (n * 2 ^ (52 - Nat.log2 n)) (-((52 - Nat.log2 n : Nat) : Int)) ∧ Nat.log2 n ≤ 52 := by
  have hl : Nat.log2 n < 53 := (Nat.log2_lt hn).mpr hlt
  have h1 : 2 ^ Nat.log2 n ≤ n := Nat.log2_self_le hn
  have h2 : n < 2 ^ (Nat.log2 n + 1) := Nat.lt_log2_self
  refine ⟨?_, by omega⟩
  simp only [Canonical, minExp, maxExp]
  right
  refine ⟨?_, ?_, by omega, by omega⟩
  · calc 2 ^ 52 = 2 ^ Nat.log2 n * 2 ^ (52 - Nat.log2 n) := by rw [← Nat.pow_add]; congr 1; omega
      _ ≤ n * 2 ^ (52 - Nat.log2 n) := Nat.mul_le_mul_right _ h1
  · calc n * 2 ^ (52 - Nat.log2 n) < 2 ^ (Nat.log2 n + 1) * 2 ^ (52 - Nat.log2 n) :=
          Nat.mul_lt_mul_of_lt_of_le h2 (Nat.le_refl _) (Nat.pow_pos (by decide))
      _ = 2 ^ 53 := by rw [← Nat.pow_add]; congr 1; omega

theorem roundDyadic_small_int (neg : Bool) (n : Nat) (hn : n ≠ 0) (hlt : n < 2 ^ 53) :
    roundDyadic neg n 0 = .fin neg (n * 2 ^ (52 - Nat.log2 n)) (-((52 - Nat.log2 n : Nat) : Int)) := by
  obtain ⟨hc, _⟩ := canonical_of_small_int n hn hlt
  have hm : n * 2 ^ (52 - Nat.log2 n) ≠ 0 := Nat.mul_ne_zero hn (Nat.pos_iff_ne_zero.mp (Nat.pow_pos (by decide)))
  have := roundDyadic_canonical_div neg _ _ hc hm n (52 - Nat.log2 n) rfl
  have h0 : -((52 - Nat.log2 n : Nat) : Int) + ((52 - Nat.log2 n : Nat) : Int) = 0 := by omega
  rw [h0] at this; exact this

/-- the nearest double to a non-zero integer below 2^53 is that integer: `roundNE n 1 = double(n)` -/
theorem roundNE_small_int (neg : Bool) (n : Nat) (hn : n ≠ 0) (hlt : n < 2 ^ 53) :
    roundNE neg n 1 = roundDyadic neg n 0 := by
  obtain ⟨hc, hl⟩ := canonical_of_small_int n hn hlt
  have hm : n * 2 ^ (52 - Nat.log2 n) ≠ 0 := Nat.mul_ne_zero hn (Nat.pos_iff_ne_zero.mp (Nat.pow_pos (by decide)))
  rw [roundDyadic_small_int neg n hn hlt]
  unfold roundNE
  have hlog1 : Nat.log2 1 = 0 := by decide
  simp only [hn, if_false, hlog1, Nat.div_one, Nat.mod_one, if_true, Nat.add_zero]
  have hs : ((56 : Int) + ((0 : Nat) : Int) - (Nat.log2 n : Int)).toNat = 56 - Nat.log2 n := by omega
  rw [hs]
  -- 2·(n·2^s) = (n·2^t)·2^(s+1-t), exponent -(s+1) = -t - (s+1-t)
  have hM : 2 * (n * 2 ^ (56 - Nat.log2 n)) = n * 2 ^ (52 - Nat.log2 n) * 2 ^ 5 := by
    have : 2 ^ (56 - Nat.log2 n) = 2 ^ (52 - Nat.log2 n) * 2 ^ 4 := by rw [← Nat.pow_add]; congr 1; omega
    rw [this]
    have e5 : (2:Nat) ^ 5 = 2 * 2 ^ 4 := by decide
    rw [e5]
    simp only [Nat.mul_assoc, Nat.mul_comm, Nat.mul_left_comm]
  rw [hM]
  have := roundDyadic_canonical_mul neg _ _ hc hm 5
  have hE : -((56 - Nat.log2 n : Nat) : Int) - 1 = -((52 - Nat.log2 n : Nat) : Int) - ((5 : Nat) : Int) := by omega
  rw [hE]; exact this


end XalanModel.C18
