import XalanModel.C18.ToString
/-! Helper lemmas for C18 (part A): digit strings, `scanBack`/`repairPoint`/`postProcess` on a printf-shaped buffer. -/
set_option linter.unnecessarySimpa false
set_option linter.unusedSimpArgs false
namespace XalanModel.C18

theorem isDigit_c0_add (n : Nat) : isDigit (c0 + n % 10) = true := by
  have : n % 10 < 10 := Nat.mod_lt _ (by decide)
  simp only [isDigit, c0, Bool.and_eq_true]; exact ⟨decide_eq_true (by omega), decide_eq_true (by omega)⟩

theorem digitsAux_all (f : Nat) : ∀ (n : Nat) (acc : List Nat), (∀ c ∈ acc, isDigit c = true) →
    ∀ c ∈ digitsAux f n acc, isDigit c = true := by
  induction f with
  | zero => intro n acc h; simpa [digitsAux] using h
  | succ f ih =>
    intro n acc h
    have h' : ∀ c ∈ (c0 + n % 10) :: acc, isDigit c = true := by
      intro c hc; rcases List.mem_cons.mp hc with rfl | hc
      · exact isDigit_c0_add n
      · exact h c hc
    simp only [digitsAux]
    split
    · exact h'
    · exact ih _ _ h'

theorem digitsAux_length_pos (f : Nat) : ∀ (n : Nat) (acc : List Nat), acc.length < (digitsAux (f + 1) n acc).length ∨ True := by
  intro _ _; exact Or.inr trivial

theorem digitsAux_acc_le (f : Nat) : ∀ (n : Nat) (acc : List Nat), acc.length ≤ (digitsAux f n acc).length := by
  induction f with
  | zero => intro n acc; simp [digitsAux]
  | succ f ih =>
    intro n acc
    simp only [digitsAux]
    split
    · simp
    · have := ih (n / 10) ((c0 + n % 10) :: acc); simp at this; omega

theorem digitsAux_ne_nil (f n : Nat) (acc : List Nat) : digitsAux (f + 1) n acc ≠ [] := by
  simp only [digitsAux]
  split
  · simp
  · intro h
    have := digitsAux_acc_le f (n / 10) ((c0 + n % 10) :: acc)
    rw [h] at this; simp at this

theorem digitsAux_length_le (f : Nat) : ∀ (n k : Nat) (acc : List Nat), 1 ≤ k → n < 10 ^ k →
    (digitsAux f n acc).length ≤ acc.length + k := by
  induction f with
  | zero => intro n k acc _ _; simp [digitsAux]
  | succ f ih =>
    intro n k acc hk hn
    simp only [digitsAux]
    split
    · simp; omega
    · rename_i hne
      have hk2 : 2 ≤ k := by
        rcases Nat.lt_or_ge k 2 with h | h
        · have : k = 1 := by omega
          subst this
          exfalso; apply hne; simp at hn; omega
        · exact h
      have hn' : n / 10 < 10 ^ (k - 1) := by
        have : 10 ^ k = 10 ^ (k - 1) * 10 := by
          rw [← Nat.pow_succ]; congr 1; omega
        rw [this] at hn
        exact Nat.div_lt_of_lt_mul (by rw [Nat.mul_comm]; exact hn)
      have := ih (n / 10) (k - 1) ((c0 + n % 10) :: acc) (by omega) hn'
      simp at this; omega

theorem decDigits_all (n : Nat) : ∀ c ∈ decDigits n, isDigit c = true :=
  digitsAux_all _ n [] (by simp)

theorem decDigits_ne_nil (n : Nat) : decDigits n ≠ [] := digitsAux_ne_nil _ n []

theorem decDigits_length_le (n k : Nat) (hk : 1 ≤ k) (hn : n < 10 ^ k) : (decDigits n).length ≤ k := by
  have := digitsAux_length_le (Nat.log2 n + 1) n k [] hk hn
  simpa [decDigits] using this

theorem getD_append_off (pre : List Nat) (t : List Nat) (j x : Nat) :
    (pre ++ t).getD (pre.length + j) x = t.getD j x := by
  simp [List.getD_eq_getElem?_getD, List.getElem?_append_right]

theorem getD_mem_or_default (l : List Nat) (j x : Nat) (h : j < l.length) : l.getD j x ∈ l := by
  simp [List.getD_eq_getElem?_getD, List.getElem?_eq_getElem h]

/-- `while (buf[--n] == '0')` stops on the last character that is not '0' -/
theorem scanBack_stop (pre : List Nat) (d : Nat) (zs : List Nat) (hd : d ≠ c0) (hz : ∀ c ∈ zs, c = c0) :
    ∀ k, k ≤ zs.length → scanBack (pre ++ d :: zs) (pre.length + 1 + k) = some pre.length := by
  intro k
  induction k with
  | zero =>
    intro _
    show scanBack _ (pre.length + 1) = _
    simp only [scanBack]
    have : (pre ++ d :: zs).getD pre.length 0 = d := by
      have := getD_append_off pre (d :: zs) 0 0; simpa using this
    simp [this, hd]
  | succ k ih =>
    intro hk
    show scanBack _ (pre.length + 1 + k + 1) = _
    simp only [scanBack]
    have : (pre ++ d :: zs).getD (pre.length + 1 + k) 0 = c0 := by
      have h1 := getD_append_off pre (d :: zs) (1 + k) 0
      rw [← Nat.add_assoc] at h1
      rw [h1]
      have : (d :: zs).getD (1 + k) 0 = zs.getD k 0 := by
        rw [Nat.add_comm]; rfl
      rw [this]
      exact hz _ (getD_mem_or_default zs k 0 (by omega))
    rw [this, if_pos rfl]
    exact ih (by omega)

/-- the decimal-point repair loop leaves a buffer `… '.' digits…` unchanged -/
theorem repairPoint_id (pre ds : List Nat) (hds : ∀ c ∈ ds, isDigit c = true) :
    ∀ k, k ≤ ds.length → repairPoint (pre ++ cDot :: ds) (pre.length + k) = pre ++ cDot :: ds := by
  intro k
  induction k with
  | zero =>
    intro _
    cases hp : pre.length with
    | zero => rfl
    | succ i =>
      show repairPoint _ (i + 1) = _
      simp only [repairPoint]
      have : (pre ++ cDot :: ds).getD (i + 1) 0 = cDot := by
        have := getD_append_off pre (cDot :: ds) 0 0
        rw [Nat.add_zero, hp] at this; simpa using this
      rw [this]
      have : isDigit cDot = false := by decide
      simp [this]
  | succ k ih =>
    intro hk
    show repairPoint _ (pre.length + k + 1) = _
    simp only [repairPoint]
    have : (pre ++ cDot :: ds).getD (pre.length + k + 1) 0 = ds.getD k 0 := by
      have h1 := getD_append_off pre (cDot :: ds) (k + 1) 0
      rw [← Nat.add_assoc] at h1
      rw [h1]; rfl
    rw [this]
    have : isDigit (ds.getD k 0) = true := hds _ (getD_mem_or_default ds k 0 (by omega))
    rw [this, if_pos rfl]
    exact ih (by omega)

theorem split_trailing_zeros (fp : List Nat) :
    (∀ c ∈ fp, c = c0) ∨ ∃ fp1 d zs, fp = fp1 ++ d :: zs ∧ d ≠ c0 ∧ (∀ c ∈ zs, c = c0) := by
  induction fp with
  | nil => left; simp
  | cons a t ih =>
    rcases ih with h | ⟨fp1, d, zs, rfl, hd, hz⟩
    · by_cases ha : a = c0
      · left; intro c hc; rcases List.mem_cons.mp hc with rfl | hc
        · exact ha
        · exact h c hc
      · right; exact ⟨[], a, t, rfl, ha, h⟩
    · right; exact ⟨a :: fp1, d, zs, rfl, hd, hz⟩

theorem digitsAux_head (f : Nat) : ∀ (n : Nat) (acc : List Nat), n ≠ 0 → n < 10 ^ f →
    (digitsAux f n acc).head? ≠ some c0 := by
  induction f with
  | zero => intro n acc h0 h; simp at h; exact absurd h h0
  | succ f ih =>
    intro n acc h0 h
    simp only [digitsAux]
    split
    · rename_i hz
      have : n % 10 = n := by have := Nat.div_add_mod n 10; omega
      simp only [List.head?_cons, this]
      intro hc
      have : c0 + n = c0 := by simpa using hc
      omega
    · rename_i hz
      have hlt : n / 10 < 10 ^ f := by
        rw [Nat.pow_succ] at h
        exact Nat.div_lt_of_lt_mul (by rw [Nat.mul_comm]; exact h)
      exact ih _ _ hz hlt

theorem decDigits_noLeadingZero (n : Nat) : NoLeadingZero (decDigits n) := by
  by_cases h0 : n = 0
  · subst h0; left; decide
  · right
    have h1 : n < 2 ^ (Nat.log2 n + 1) := Nat.lt_log2_self
    have h2 : 2 ^ (Nat.log2 n + 1) ≤ 10 ^ (Nat.log2 n + 1) := Nat.pow_le_pow_left (by decide) _
    exact digitsAux_head _ n [] h0 (by omega)


/-- what `sprintf("%.Nf")` (N ≥ 1) leaves in the buffer -/
def PrintfShape (sg buf : List Nat) : Prop :=
  ∃ ip fp, buf = sg ++ ip ++ cDot :: fp ∧ ip ≠ [] ∧ (∀ c ∈ ip, isDigit c = true) ∧ NoLeadingZero ip ∧
    fp ≠ [] ∧ (∀ c ∈ fp, isDigit c = true)

theorem take_pre (a b : List Nat) : List.take a.length (a ++ b) = a := by simp
theorem take_pre_succ (a : List Nat) (d : Nat) (b : List Nat) : List.take (a.length + 1) (a ++ d :: b) = a ++ [d] := by
  have : a ++ d :: b = (a ++ [d]) ++ b := by simp
  rw [this]
  have h2 : a.length + 1 = (a ++ [d]).length := by simp
  rw [h2]; exact take_pre _ _

theorem postProcess_of_split (pre : List Nat) (d : Nat) (zs : List Nat) (hd : d ≠ c0) (hz : ∀ c ∈ zs, c = c0)
    (hr : repairPoint (pre ++ d :: zs) pre.length = pre ++ d :: zs) :
    postProcess (pre ++ d :: zs) =
      some ((pre ++ d :: zs).take (if isDigit d then pre.length + 1 else pre.length)) := by
  have hs := scanBack_stop pre d zs hd hz zs.length (Nat.le_refl _)
  have hlen : (pre ++ d :: zs).length = pre.length + 1 + zs.length := by simp; omega
  have hget : (pre ++ d :: zs).getD pre.length 0 = d := by
    have := getD_append_off pre (d :: zs) 0 0; simpa using this
  unfold postProcess
  rw [hlen, hs]
  simp only [hget, hr]

theorem postProcess_shape (sg buf : List Nat) (h : PrintfShape sg buf) :
    ∃ s, postProcess buf = some s ∧ DecimalForm sg s := by
  obtain ⟨ip, fp, rfl, hip, hipd, hnlz, hfp, hfpd⟩ := h
  have hdot0 : cDot ≠ c0 := by decide
  have hdotd : isDigit cDot = false := by decide
  rcases split_trailing_zeros fp with hz | ⟨fp1, d, zs, rfl, hd, hz⟩
  · -- fraction is all zeros: the point is dropped
    have hr := repairPoint_id (sg ++ ip) fp hfpd 0 (Nat.zero_le _)
    rw [Nat.add_zero] at hr
    have := postProcess_of_split (sg ++ ip) cDot fp hdot0 hz hr
    refine ⟨sg ++ ip, ?_, ip, hip, hipd, hnlz, Or.inl rfl⟩
    rw [this]
    simp only [hdotd]
    exact congrArg some (take_pre _ _)
  · -- last non-zero fractional digit `d` is kept
    have hdd : isDigit d = true := hfpd d (by simp)
    have hbuf : sg ++ ip ++ cDot :: (fp1 ++ d :: zs) = (sg ++ ip ++ cDot :: fp1) ++ d :: zs := by simp
    have hk : (sg ++ ip ++ cDot :: fp1).length = (sg ++ ip).length + (fp1.length + 1) := by simp; omega
    have hr := repairPoint_id (sg ++ ip) (fp1 ++ d :: zs) hfpd (fp1.length + 1) (by simp)
    rw [← hk, hbuf] at hr
    have := postProcess_of_split (sg ++ ip ++ cDot :: fp1) d zs hd hz hr
    refine ⟨sg ++ ip ++ cDot :: (fp1 ++ [d]), ?_, ip, hip, hipd, hnlz, Or.inr ⟨fp1, d, rfl, ?_, hdd, hd⟩⟩
    · rw [hbuf, this]
      simp only [hdd, if_true]
      rw [take_pre_succ]
      simp
    · intro c hc; exact hfpd c (by simp [hc])


end XalanModel.C18
