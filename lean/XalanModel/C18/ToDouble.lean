import XalanModel.C18.ToString
/-!
# `DoubleSupport::toDouble`  (DoubleSupport.cpp: doValidate, convertHelper, doConvert — as written)
and `WideStringToIntegral<long>` (DOMStringHelper.cpp).  Strings are lists of UTF-16 code units.
-/
namespace XalanModel.C18
open Dbl

/-- the five flags of `doValidate` -/
structure VState where
  err : Bool := false
  digit : Bool := false
  minus : Bool := false
  ws : Bool := false
  dp : Bool := false
deriving DecidableEq, Repr

/-- `while (*theCurrent != 0 && fError == false) switch (*theCurrent) …`; the digit and
whitespace cases consume a maximal run (`consumeNumbers`, `consumeWhitespace`).  Fuel ≥ length. -/
def validateLoop : Nat → List Nat → VState → VState
  | 0, _, st => st
  | _ + 1, [], st => st
  | f + 1, c :: t, st =>
    if st.err then st
    else if c = cDot then
      if st.dp || st.ws then { st with err := true }
      else validateLoop f t { st with dp := true }
    else if c = cMinus then
      if st.dp || st.minus || st.digit || st.ws then { st with err := true }
      else validateLoop f t { st with minus := true }
    else if isDigit c then
      if st.ws then { st with err := true }
      else validateLoop f (t.dropWhile isDigit) { st with digit := true }
    else if isWs c then
      if st.ws then { st with err := true }
      else validateLoop f (t.dropWhile isWs) { st with ws := true }
    else { st with err := true }

/-- `doValidate(theString, fGotDecimalPoint)`: (result, fGotDecimalPoint) -/
def doValidate2 (s : List Nat) : Bool × Bool :=
  let st := validateLoop (s.length + 1) (s.dropWhile isWs) {}
  (!st.err && st.digit, st.dp)

def doValidate (s : List Nat) : Bool := (doValidate2 s).1

/-! ### specification: the XPath `Number` production inside optional whitespace, optional '-' -/

/-- `Digits?` then optional whitespace to the end; `d` = a digit was already seen -/
def fracSpec (d : Bool) (s : List Nat) : Bool :=
  (d || !(s.takeWhile isDigit).isEmpty) && (s.dropWhile isDigit).all isWs

/-- `Number ::= Digits ('.' Digits?)? | '.' Digits` followed by whitespace to the end -/
def bodySpec (s : List Nat) : Bool :=
  let ip := s.takeWhile isDigit
  match s.dropWhile isDigit with
  | [] => !ip.isEmpty
  | c :: t => if c = cDot then fracSpec (!ip.isEmpty) t else !ip.isEmpty && (c :: t).all isWs

/-- `ws* '-'? Number ws*` -/
def matchesNumber (s : List Nat) : Bool :=
  match s.dropWhile isWs with
  | [] => false
  | c :: t => if c = cMinus then bodySpec t else bodySpec (c :: t)

/-- XPath 1.0 [30] `Number ::= Digits ('.' Digits?)? | '.' Digits` preceded by optional whitespace and an
optional '-', followed by optional whitespace (the strings `number()` must convert), as a derivation. -/
def NumberGrammar (s : List Nat) : Prop :=
  ∃ w1 sg ip tail w2, s = w1 ++ sg ++ ip ++ tail ++ w2 ∧
    (∀ c ∈ w1, isWs c = true) ∧ (∀ c ∈ w2, isWs c = true) ∧ (sg = [] ∨ sg = [cMinus]) ∧
    (∀ c ∈ ip, isDigit c = true) ∧
    ((tail = [] ∧ ip ≠ []) ∨ ∃ fp, tail = cDot :: fp ∧ (∀ c ∈ fp, isDigit c = true) ∧ (ip ≠ [] ∨ fp ≠ []))


/-! ### conversion -/

/-- digit loop of `WideStringToIntegral`: `none` = "non-numeric character encountered, return 0" -/
def wsToLongLoop : List Nat → Int → Option Int
  | [], acc => some acc
  | c :: t, acc =>
    if isDigit c then wsToLongLoop t (acc * 10 + ((c - c0 : Nat) : Int))
    else if isWs c then some acc
    else none

/-- `WideStringToLong` (overflow of `long` is not modelled: the caller passes < 10 characters) -/
def wideStringToLong (s : List Nat) : Int :=
  if !doValidate s then 0 else
  let s := s.dropWhile isWs
  let neg := s.head? == some cMinus
  let s := if neg then s.drop 1 else s
  match wsToLongLoop s 0 with
  | none => 0
  | some r => if neg then -r else r

/-- `convertHelper(theString, fGotDecimalPoint, …)`.  `keepSign` selects the form of the fast path
(`Generated.C18.fastPathKeepsSign`): `false` = `return double(WideStringToLong(s))`; `true` = when the
long is 0 the result is `-0.0` if the first non-blank character is '-', else `0.0`. -/
def convertHelperK (keepSign : Bool) (threshold : Nat) (s : List Nat) (dp : Bool) : Dbl :=
  if !dp && s.length < threshold then
    let i := wideStringToLong s
    if keepSign && i == 0 then zero ((s.dropWhile isWs).head? == some cMinus) else Dbl.ofInt i
  else atofModel (s.dropWhile isWs)

def convertHelper (threshold : Nat) (s : List Nat) (dp : Bool) : Dbl := convertHelperK false threshold s dp

/-- `DoubleSupport::toDouble(const XalanDOMChar*)`; the C string ends at the first NUL -/
def toDoubleK (keepSign : Bool) (threshold : Nat) (s0 : List Nat) : Dbl :=
  let s := s0.takeWhile (· ≠ 0)
  if s.isEmpty then .nan
  else
    let (ok, dp) := doValidate2 s
    if !ok then .nan else convertHelperK keepSign threshold s dp

/-- the form before the repair of the fast path -/
def toDoubleT (threshold : Nat) (s0 : List Nat) : Dbl := toDoubleK false threshold s0

def toDouble (s : List Nat) : Dbl :=
  toDoubleK (Generated.C18.fastPathKeepsSign == 1) Generated.C18.longHackThreshold s

/-- specification of `number(string)`: nearest double to the numeral (sign kept on zero), NaN otherwise -/
def toDoubleSpec (s : List Nat) : Dbl :=
  if !matchesNumber s then .nan
  else
    let s1 := s.dropWhile isWs
    let neg := s1.head? == some cMinus
    let s2 := if neg then s1.drop 1 else s1
    let ip := s2.takeWhile isDigit
    let r := s2.dropWhile isDigit
    let fp := if r.head? == some cDot then (r.drop 1).takeWhile isDigit else []
    roundRat neg (natOfDigits (ip ++ fp)) (10 ^ fp.length)

end XalanModel.C18
