import XalanModel.C18.Dbl
import XalanModel.Generated.C18_NumberConsts
/-!
# `NumberToDOMString(double, XalanDOMString&)`  (DOMStringHelper.cpp, as written)

Strings are lists of character codes.  `sprintf("%.Nf")` is modelled as the exact decimal
expansion rounded half-even at N places (`printfF`), `atof` as exact decimal value + one
round-to-nearest-even (`atofModel`): assumptions about glibc, validated by the correspondence run.
The `char theBuffer[B]` is an explicit bound: a write of more than `B` bytes is `Out.memErr`.
-/
namespace XalanModel.C18
open Dbl

inductive Out where
  | ok (s : List Nat)
  | memErr
deriving DecidableEq, Repr

def c0 : Nat := 48
def cDot : Nat := 46
def cMinus : Nat := 45

def isDigit (c : Nat) : Bool := 48 ≤ c && c ≤ 57

/-- `do { *--p = '0' + v % 10; v /= 10; } while (v != 0);`  (fuel = number of bits + 1) -/
def digitsAux : Nat → Nat → List Nat → List Nat
  | 0, _, acc => acc
  | f + 1, n, acc =>
    let acc' := (c0 + n % 10) :: acc
    if n / 10 = 0 then acc' else digitsAux f (n / 10) acc'

def decDigits (n : Nat) : List Nat := digitsAux (Nat.log2 n + 1) n []

/-- `ScalarToDecimalString(XMLInt64, XalanDOMChar*)`: digits, `-` in front of a negative value -/
def scalarToDecimal (i : Int) : List Nat :=
  if i < 0 then cMinus :: decDigits i.natAbs else decDigits i.natAbs

/-- glibc `sprintf(buf, "%.<N>f", x)` for finite `x`: sign, integer digits, '.', exactly N digits;
the exact value is rounded half-even at the N-th place. -/
def printfF (N : Nat) (neg : Bool) (m : Nat) (e : Int) : List Nat :=
  let scaledQ : Nat :=          -- round-half-even (|x|·10^N)
    if e ≥ 0 then m * 2 ^ e.toNat * 10 ^ N
    else
      let den := 2 ^ (-e).toNat
      let num := m * 10 ^ N
      let q := num / den
      let r := num % den
      if 2 * r > den ∨ (2 * r = den ∧ q % 2 = 1) then q + 1 else q
  let ip := decDigits (scaledQ / 10 ^ N)
  let fp := decDigits (scaledQ % 10 ^ N)
  let fp := List.replicate (N - fp.length) c0 ++ fp
  (if neg then [cMinus] else []) ++ ip ++ (if N = 0 then [] else cDot :: fp)

/-- value of a run of decimal digits -/
def natOfDigits (ds : List Nat) : Nat := ds.foldl (fun a c => a * 10 + (c - c0)) 0

def isWs (c : Nat) : Bool := c == 32 || c == 9 || c == 10 || c == 13

/-- glibc `atof` restricted to what can reach it here (`ws* -? digits* (. digits*)?`, parsing stops
at the first other character): exact decimal value, one rounding to nearest-even. -/
def atofModel (buf : List Nat) : Dbl :=
  let s := buf.dropWhile isWs
  let neg := s.head? == some cMinus
  let s := if neg then s.drop 1 else s
  let ip := s.takeWhile isDigit
  let r := s.dropWhile isDigit
  let fp := if r.head? == some cDot then (r.drop 1).takeWhile isDigit else []
  if ip.isEmpty && fp.isEmpty then zero false
  else roundRat neg (natOfDigits (ip ++ fp)) (10 ^ fp.length)

/-- the precision loop
`do { n = sprintf(buf, *p, x); ++p; } while (atof(buf) != x && *p != 0);`
`none` = a `sprintf` wrote past `char theBuffer[B]` -/
def printLoop (B : Nat) (neg : Bool) (m : Nat) (e : Int) : List Nat → Option (List Nat)
  | [] => none            -- `sprintf(buf, 0, x)`: not reachable with a non-empty table
  | p :: rest =>
    let s := printfF p neg m e
    if s.length + 1 > B then none
    else if (atofModel s).ieeeEq (.fin neg m e) then some s
    else match rest with
      | [] => some s
      | _ :: _ => printLoop B neg m e rest

/-- `while (theBuffer[--theCharsWritten] == '0') {}` : index of the last non-'0' character.
`none` = the scan would run below index 0. -/
def scanBack (buf : List Nat) : Nat → Option Nat
  | 0 => none
  | n + 1 => if buf.getD n 0 = c0 then scanBack buf n else some n

/-- the decimal-point repair loop: walk back over digits; a non-digit that is not '.' becomes '.' -/
def repairPoint (buf : List Nat) : Nat → List Nat
  | 0 => buf
  | i + 1 =>
    if isDigit (buf.getD (i + 1) 0) then repairPoint buf i
    else if buf.getD (i + 1) 0 ≠ cDot then buf.set (i + 1) cDot else buf

/-- everything after the loop: strip trailing zeros, keep or drop the stopping character, repair
the decimal point, copy `theCharsWritten` characters -/
def postProcess (buf : List Nat) : Option (List Nat) :=
  match scanBack buf buf.length with
  | none => none
  | some n1 =>
    let n2 := if isDigit (buf.getD n1 0) then n1 + 1 else n1
    some ((repairPoint buf n1).take n2)

/-- `static_cast<XMLInt64>(x)` with the x86-64 result for out-of-range values (`cvttsd2si` gives
INT64_MIN; in C++ the conversion is undefined there) -/
def castInt64 (neg : Bool) (m : Nat) (e : Int) : Int :=
  let t := truncInt neg m e
  if -(2^63 : Int) ≤ t ∧ t < 2^63 then t else -(2^63 : Int)

/-- is the cast of the previous definition outside the range where C++ defines it -/
def castIsUB (neg : Bool) (m : Nat) (e : Int) : Bool :=
  let t := truncInt neg m e
  !(decide (-(2^63 : Int) ≤ t) && decide (t < 2^63))

structure NumCfg where
  buffer : Nat            -- sizeof(char theBuffer[…])
  scalarBuffer : Nat      -- XalanDOMChar theBuffer[…] of ScalarToDecimalString
  precisions : List Nat
  nanS : List Nat
  posInfS : List Nat
  negInfS : List Nat
  zeroS : List Nat
  castGuarded : Bool := false   -- the int64 cast is guarded by `-2^63 <= x < 2^63`
  tinyFallback : Bool := false  -- `formatSmallNumber` ("%.17e" expanded) when the last "%.Nf" does not read back

def genCfg : NumCfg :=
  { buffer := Generated.C18.toStringBuffer, scalarBuffer := Generated.C18.scalarBuffer,
    precisions := Generated.C18.printfPrecisions,
    nanS := Generated.C18.nanString, posInfS := Generated.C18.posInfString,
    negInfS := Generated.C18.negInfString, zeroS := Generated.C18.zeroString,
    castGuarded := Generated.C18.castGuarded == 1, tinyFallback := Generated.C18.tinyFallback == 1 }

/-- the test `static_cast<XMLInt64>(x) == x`, optionally guarded by the range test (then the cast is never
evaluated where C++ leaves it undefined; `Props.C18.cast_guard_equiv`: the outcome is the same) -/
def intTest (cfg : NumCfg) (neg : Bool) (m : Nat) (e : Int) : Bool :=
  (!cfg.castGuarded || !castIsUB neg m e) && (Dbl.ofInt (castInt64 neg m e)).ieeeEq (.fin neg m e)

/-- smallest `k ≥ start` with `m·10^k ≥ den` (bounded search: at most `fuel` steps) -/
def findK (m den : Nat) : Nat → Nat → Nat
  | 0, k => k
  | f + 1, k => if m * 10 ^ k ≥ den then k else findK m den f (k + 1)

/-- `formatSmallNumber`: glibc `sprintf("%.17e")` = first digit, 17 more, decimal exponent, the exact value
rounded half-even to 18 significant digits; when the exponent printed is negative (`e-k`, k ≥ 1) the
result is `[-]0.` followed by `k-1` zeros and the 18 digits; `none` = "return 0" (exponent not negative). -/
def sciExpand (neg : Bool) (m : Nat) (e : Int) : Option (List Nat) :=
  if e ≥ 0 then none else
  let den := 2 ^ (-e).toNat
  if m ≥ den ∨ m = 0 then none else
  let k0 := findK m den 323 1
  let num := m * 10 ^ (k0 + 17)
  let q := num / den
  let r := num % den
  let d0 := if 2 * r > den ∨ (2 * r = den ∧ q % 2 = 1) then q + 1 else q
  let d := if d0 = 10 ^ 18 then 10 ^ 17 else d0
  let k := if d0 = 10 ^ 18 then k0 - 1 else k0
  if k = 0 then none
  else some ((if neg then [cMinus] else []) ++ [c0] ++ cDot :: (List.replicate (k - 1) c0 ++ decDigits d))

/-- contents of `theBuffer` when the zero stripping starts: the result of the precision loop, replaced by
`formatSmallNumber` when that is compiled in and the last attempt did not read back.  `none` = overrun. -/
def finalBuffer (cfg : NumCfg) (neg : Bool) (m : Nat) (e : Int) : Option (List Nat) :=
  match printLoop cfg.buffer neg m e cfg.precisions with
  | none => none
  | some buf =>
    if cfg.tinyFallback && !(atofModel buf).ieeeEq (.fin neg m e) then
      match sciExpand neg m e with
      | some b => if b.length + 1 > cfg.buffer then none else some b
      | none => some buf
    else some buf

/-- `NumberToDOMString(double, XalanDOMString&)` appended to an empty string -/
def numberToString (cfg : NumCfg) : Dbl → Out
  | .nan => .ok cfg.nanS
  | .inf false => .ok cfg.posInfS
  | .inf true => .ok cfg.negInfS
  | .fin neg m e =>
    if m = 0 then .ok cfg.zeroS
    else
      if intTest cfg neg m e then
        let s := scalarToDecimal (castInt64 neg m e)
        if s.length + 1 > cfg.scalarBuffer then .memErr else .ok s
      else
        match finalBuffer cfg neg m e with
        | none => .memErr
        | some buf =>
          match postProcess buf with
          | none => .memErr
          | some s => .ok s

/-- does the text in the buffer when zero stripping starts read back equal (`atof(theBuffer) == theValue`)?
Decidable per value; `false` exactly for the values the loop leaves at the last precision without a
match (the tiny numbers of the known finding) or that overrun the buffer. -/
def readsBack (cfg : NumCfg) (neg : Bool) (m : Nat) (e : Int) : Bool :=
  match finalBuffer cfg neg m e with
  | some buf => (atofModel buf).ieeeEq (.fin neg m e)
  | none => false

/-! ### specification of the output shape (XPath 1.0 §4.2, `string()` of a number) -/

/-- the sign that may precede the digits: `-` exactly when the sign bit is set -/
def signOf (neg : Bool) : List Nat := if neg then [cMinus] else []

/-- no superfluous leading zero: the digit string is "0" or does not start with '0' -/
def NoLeadingZero (ip : List Nat) : Prop := ip = [c0] ∨ ip.head? ≠ some c0

/-- `sg` followed by a decimal numeral without exponent: at least one digit before the point and no
superfluous leading zero; the point, when present, is followed by at least one digit and the last
fractional digit is not '0' (no trailing zeros, a digit on each side of the point) -/
def DecimalForm (sg s : List Nat) : Prop :=
  ∃ ip, ip ≠ [] ∧ (∀ c ∈ ip, isDigit c = true) ∧ NoLeadingZero ip ∧
    (s = sg ++ ip ∨
     ∃ fp last, s = sg ++ ip ++ cDot :: (fp ++ [last]) ∧ (∀ c ∈ fp, isDigit c = true) ∧
       isDigit last = true ∧ last ≠ c0)

/-- does the buffer of the current source cover every double?  `1 + 309 + 1 + P + 1` bytes are needed
(sign, integer digits of DBL_MAX, '.', P fractional digits, NUL); printed by the driver (`bound`);
when `false` the check runs the computed witness under ASan.  See `Props.C18.toString_no_overflow_generated`. -/
def generatedBufferCoversAllDoubles : Bool :=
  decide (1 + 309 + 1 + 35 + 1 ≤ Generated.C18.toStringBuffer ∧ 1 + 309 + 1 + 35 + 1 ≤ Generated.C18.toCharactersBuffer)

end XalanModel.C18
