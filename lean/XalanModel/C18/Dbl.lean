/-!
# IEEE-754 binary64 values as dyadic rationals (C18)

`Dbl.fin neg m e` denotes `(-1)^neg · m · 2^e`.  The *canonical* finite values (the ones a bit
pattern decodes to) have `e = -1074 ∧ m < 2^52` (zero / subnormal) or `2^52 ≤ m < 2^53 ∧
-1074 ≤ e ≤ 971`.  All arithmetic is exact `Nat`/`Int` arithmetic followed by one explicit
round-to-nearest-even (`roundDyadic` for a dyadic, `roundNE` for a rational `n/d`).
Core Lean only; every function is structurally recursive or non-recursive so that the kernel
can evaluate the counterexamples.
-/
namespace XalanModel.C18

inductive Dbl where
  | nan
  | inf (neg : Bool)
  | fin (neg : Bool) (m : Nat) (e : Int)
deriving DecidableEq, Repr, Inhabited

def minExp : Int := -1074
def maxExp : Int := 971

namespace Dbl

def zero (neg : Bool) : Dbl := .fin neg 0 minExp

/-- decode a 64-bit pattern -/
def ofBits (b : Nat) : Dbl :=
  let neg := (b / 2^63) % 2 == 1
  let ex : Nat := (b / 2^52) % 2048
  let fr : Nat := b % 2^52
  if ex == 2047 then (if fr == 0 then .inf neg else .nan)
  else if ex == 0 then .fin neg fr minExp
  else .fin neg (2^52 + fr) ((ex : Int) - 1075)

/-- encode a canonical value (NaN is encoded as the quiet NaN 7ff8…; callers compare NaN by class) -/
def toBits : Dbl → Nat
  | .nan => 0x7ff8000000000000
  | .inf neg => (if neg then 2^63 else 0) + 0x7ff0000000000000
  | .fin neg m e =>
    (if neg then 2^63 else 0) +
      (if m < 2^52 then m else ((e + 1075).toNat) * 2^52 + (m - 2^52))

/-- round the dyadic `m·2^e` (any `m`, any `e`) to the nearest binary64, ties to even;
the result is canonical. -/
def roundDyadic (neg : Bool) (m : Nat) (e : Int) : Dbl :=
  if m = 0 then zero neg else
  let bl : Int := (Nat.log2 m + 1 : Nat)
  let e' : Int := max minExp (e + bl - 53)
  if e' ≤ e then
    if e' > maxExp then .inf neg else .fin neg (m * 2 ^ (e - e').toNat) e'
  else
    let k := (e' - e).toNat
    let q := m / 2 ^ k
    let r := m % 2 ^ k
    let half := 2 ^ (k - 1)
    let q' := if r > half ∨ (r = half ∧ q % 2 = 1) then q + 1 else q
    let m2 := if q' = 2^53 then 2^52 else q'
    let e2 := if q' = 2^53 then e' + 1 else e'
    if e2 > maxExp then .inf neg else .fin neg m2 e2

/-- round the non-negative rational `n/d` (`d > 0`) to the nearest binary64, ties to even.
The quotient is computed with at least 55 significant bits plus a sticky bit, which decides
round-to-nearest-even exactly. -/
def roundNE (neg : Bool) (n d : Nat) : Dbl :=
  if n = 0 then zero neg else
  let s : Nat := ((56 : Int) + (Nat.log2 d : Nat) - (Nat.log2 n : Nat)).toNat
  let num := n * 2 ^ s
  let q := num / d
  let sticky := if num % d = 0 then 0 else 1
  roundDyadic neg (2 * q + sticky) (-(s : Int) - 1)

/-- nearest double to the rational `n/d`: the fraction is first brought to lowest terms, so the
result depends on the value only (`roundRat neg (n*c) (d*c) = roundRat neg n d`) -/
def roundRat (neg : Bool) (n d : Nat) : Dbl :=
  let g := Nat.gcd n d
  roundNE neg (n / g) (d / g)

def ofInt (i : Int) : Dbl := roundDyadic (i < 0) i.natAbs 0

def isNeg : Dbl → Bool
  | .nan => false
  | .inf n => n
  | .fin n _ _ => n

def isZero : Dbl → Bool
  | .fin _ 0 _ => true
  | _ => false

/-- exact comparison of the denoted values `(-1)^n1 m1 2^e1` and `(-1)^n2 m2 2^e2` as integers
scaled to the common exponent -/
def scaled (neg : Bool) (m : Nat) (e e0 : Int) : Int :=
  let v : Int := (m * 2 ^ (e - e0).toNat : Nat)
  if neg then -v else v

/-- IEEE `==` -/
def ieeeEq : Dbl → Dbl → Bool
  | .nan, _ => false
  | _, .nan => false
  | .inf a, .inf b => a == b
  | .inf _, _ => false
  | _, .inf _ => false
  | .fin n1 m1 e1, .fin n2 m2 e2 =>
    let e0 := min e1 e2
    scaled n1 m1 e1 e0 == scaled n2 m2 e2 e0

/-- IEEE `<` -/
def ieeeLt : Dbl → Dbl → Bool
  | .nan, _ => false
  | _, .nan => false
  | .inf a, .inf b => a && !b
  | .inf a, _ => a
  | _, .inf b => !b
  | .fin n1 m1 e1, .fin n2 m2 e2 =>
    let e0 := min e1 e2
    scaled n1 m1 e1 e0 < scaled n2 m2 e2 e0

/-- IEEE addition of two finite values: exact sum, one rounding; an exact zero sum is `+0`
unless both operands are negative zeros (round-to-nearest mode) -/
def addFin (n1 : Bool) (m1 : Nat) (e1 : Int) (n2 : Bool) (m2 : Nat) (e2 : Int) : Dbl :=
  let e0 := min e1 e2
  let s := scaled n1 m1 e1 e0 + scaled n2 m2 e2 e0
  if s = 0 then zero (n1 && n2) else roundDyadic (s < 0) s.natAbs e0

def add : Dbl → Dbl → Dbl
  | .nan, _ => .nan
  | _, .nan => .nan
  | .inf a, .inf b => if a == b then .inf a else .nan
  | .inf a, _ => .inf a
  | _, .inf b => .inf b
  | .fin n1 m1 e1, .fin n2 m2 e2 => addFin n1 m1 e1 n2 m2 e2

def half (neg : Bool) : Dbl := .fin neg (2^52) (-53)

/-- truncation toward zero of a finite value, as an integer (`(long)x`, `modf` integral part) -/
def truncInt (neg : Bool) (m : Nat) (e : Int) : Int :=
  let a : Nat := if e ≥ 0 then m * 2 ^ e.toNat else m / 2 ^ (-e).toNat
  if neg then -(a : Int) else a

/-- is the finite value an integer -/
def isInteger (m : Nat) (e : Int) : Bool :=
  e ≥ 0 || m % 2 ^ (-e).toNat == 0

/-- `⌊x⌋` of a finite value as an integer -/
def floorInt (neg : Bool) (m : Nat) (e : Int) : Int :=
  if e ≥ 0 then truncInt neg m e
  else
    let p := 2 ^ (-e).toNat
    if neg then -(((m + p - 1) / p : Nat) : Int) else ((m / p : Nat) : Int)

/-- 16 lower-case hex digits -/
def hex16 (b : Nat) : String :=
  let d (k : Nat) : Char := if k < 10 then Char.ofNat (48 + k) else Char.ofNat (87 + k)
  String.ofList ((List.range 16).map fun i => d (b / 16 ^ (15 - i) % 16))

def render : Dbl → String
  | .nan => "nan"
  | x => hex16 x.toBits

end Dbl
end XalanModel.C18
