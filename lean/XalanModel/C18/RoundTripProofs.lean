import XalanModel.C18.ToStringProofs
import XalanModel.C18.ToDoubleProofs
/-! Helper lemmas for C18: the digit loop prints the exact value; round trip of short integral values. -/
set_option linter.unusedSimpArgs false
namespace XalanModel.C18
open Dbl

theorem foldl_digits_shift (l : List Nat) : ∀ a : Nat,
    l.foldl (fun a c => a * 10 + (c - c0)) a = a * 10 ^ l.length + l.foldl (fun a c => a * 10 + (c - c0)) 0 := by
  induction l with
  | nil => intro a; simp
  | cons d t ih =>
    intro a
    simp only [List.foldl_cons, List.length_cons]
    rw [ih (a * 10 + (d - c0)), ih (0 * 10 + (d - c0))]
    rw [Nat.pow_succ, Nat.add_mul]
    simp only [Nat.zero_mul, Nat.zero_add]
    rw [Nat.mul_assoc, Nat.mul_comm 10 (10 ^ t.length), Nat.add_assoc]

theorem natOfDigits_cons (d : Nat) (l : List Nat) :
    natOfDigits (d :: l) = (d - c0) * 10 ^ l.length + natOfDigits l := by
  unfold natOfDigits
  simp only [List.foldl_cons]
  rw [foldl_digits_shift l (0 * 10 + (d - c0))]
  simp

/-- the digit loop writes the decimal numeral of `n` in front of `acc` -/
theorem natOfDigits_digitsAux (f : Nat) : ∀ (n : Nat) (acc : List Nat), n < 10 ^ f →
    natOfDigits (digitsAux f n acc) = n * 10 ^ acc.length + natOfDigits acc := by
  induction f with
  | zero => intro n acc h; simp at h; subst h; simp [digitsAux]
  | succ f ih =>
    intro n acc h
    simp only [digitsAux]
    have hd : c0 + n % 10 - c0 = n % 10 := by omega
    split
    · rename_i h0
      rw [natOfDigits_cons, hd]
      have : n % 10 = n := by
        have := Nat.div_add_mod n 10; omega
      rw [this]
    · have hlt : n / 10 < 10 ^ f := by
        rw [Nat.pow_succ] at h
        exact Nat.div_lt_of_lt_mul (by rw [Nat.mul_comm]; exact h)
      rw [ih _ _ hlt, natOfDigits_cons, hd]
      simp only [List.length_cons, Nat.pow_succ]
      have := Nat.div_add_mod n 10
      calc n / 10 * (10 ^ acc.length * 10) + (n % 10 * 10 ^ acc.length + natOfDigits acc)
          = (10 * (n / 10) + n % 10) * 10 ^ acc.length + natOfDigits acc := by
            rw [Nat.add_mul, Nat.mul_comm (10 ^ acc.length) 10, ← Nat.mul_assoc, Nat.mul_comm (n / 10) 10, Nat.add_assoc]
        _ = n * 10 ^ acc.length + natOfDigits acc := by rw [this]

theorem natOfDigits_decDigits (n : Nat) : natOfDigits (decDigits n) = n := by
  have h1 : n < 2 ^ (Nat.log2 n + 1) := Nat.lt_log2_self
  have h2 : 2 ^ (Nat.log2 n + 1) ≤ 10 ^ (Nat.log2 n + 1) := Nat.pow_le_pow_left (by decide) _
  have := natOfDigits_digitsAux (Nat.log2 n + 1) n [] (by omega)
  simpa [decDigits, natOfDigits] using this

/-- round trip for integral doubles whose numeral is short enough for the integer fast path -/
theorem roundtrip_small_int (cfg : NumCfg) (threshold : Nat) (neg : Bool) (m : Nat) (e : Int) (hm : m ≠ 0)
    (hint : (Dbl.ofInt (castInt64 neg m e)).ieeeEq (.fin neg m e) = true)
    (hS : 21 ≤ cfg.scalarBuffer) (k : Nat) (hk : 1 ≤ k) (hsmall : (castInt64 neg m e).natAbs < 10 ^ k)
    (hth : k + 1 < threshold) :
    ∃ s, numberToString cfg (.fin neg m e) = .ok s ∧ natOfDigits (s.dropWhile (· == cMinus)) = (castInt64 neg m e).natAbs ∧
      (toDoubleT threshold s).ieeeEq (.fin neg m e) = true := by
  have hlen20 := scalarToDecimal_length_le _ (castInt64_range neg m e)
  have hstr : numberToString cfg (.fin neg m e) = .ok (scalarToDecimal (castInt64 neg m e)) := by
    have hit : intTest cfg neg m e = true := by rw [intTest_iff]; exact hint
    simp only [numberToString, hm, if_false, hit, if_true]
    rw [if_neg (by omega)]
  refine ⟨_, hstr, ?_, ?_⟩
  · unfold scalarToDecimal
    have hnd : ∀ n, (decDigits n).dropWhile (· == cMinus) = decDigits n := by
      intro n
      have hne := decDigits_ne_nil n
      cases hd : decDigits n with
      | nil => exact absurd hd hne
      | cons a t =>
        have ha : isDigit a = true := decDigits_all n a (by rw [hd]; simp)
        have : (a == cMinus) = false := by simp [isDigit_ne_minus a ha]
        simp [this]
    split
    · simp only [List.dropWhile_cons, beq_self_eq_true, if_true]
      rw [hnd, natOfDigits_decDigits]
    · rw [hnd, natOfDigits_decDigits]
  · set_option maxRecDepth 2000 in
    have hs : scalarToDecimal (castInt64 neg m e) =
        numeralString [] (decide (castInt64 neg m e < 0)) (decDigits (castInt64 neg m e).natAbs) [] := by
      unfold scalarToDecimal numeralString
      by_cases h : castInt64 neg m e < 0 <;> simp [h]
    have hl : (numeralString [] (decide (castInt64 neg m e < 0)) (decDigits (castInt64 neg m e).natAbs) []).length < threshold := by
      have := decDigits_length_le _ k hk hsmall
      unfold numeralString
      by_cases h : castInt64 neg m e < 0 <;> simp [h] <;> omega
    rw [hs, fast_path threshold [] _ _ [] (by simp) (decDigits_all _) (decDigits_ne_nil _) (by simp) hl,
      natOfDigits_decDigits]
    have : (if decide (castInt64 neg m e < 0) = true then -((castInt64 neg m e).natAbs : Int) else ((castInt64 neg m e).natAbs : Int)) =
        castInt64 neg m e := by
      by_cases h : castInt64 neg m e < 0 <;> simp [h] <;> omega
    rw [this]; exact hint

end XalanModel.C18
