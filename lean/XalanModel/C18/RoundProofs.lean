import XalanModel.C18.Round
import XalanModel.C18.DblProofs
/-! Helper lemmas for C18: `std::floor` / `std::ceil` models equal the XPath specification; round. -/
set_option linter.unusedSimpArgs false
namespace XalanModel.C18
open Dbl

theorem ofInt_signed (neg : Bool) (v : Nat) (hv : v ≠ 0) :
    Dbl.ofInt (if neg then -(v : Int) else (v : Int)) = roundDyadic neg v 0 := by
  unfold Dbl.ofInt
  cases neg
  · have h1 : ¬ ((v : Int) < 0) := by omega
    simp [h1]
  · have h1 : (-(v : Int) < 0) := by omega
    have h2 : 0 < v := Nat.pos_of_ne_zero hv
    simp [h1, h2]

/-- an integral canonical value is reproduced exactly by `double(long)` / `Dbl.ofInt` -/
theorem ofInt_truncInt_of_isInteger (neg : Bool) (m : Nat) (e : Int) (hc : Canonical m e) (hm : m ≠ 0)
    (hi : isInteger m e = true) : Dbl.ofInt (truncInt neg m e) = .fin neg m e := by
  unfold truncInt
  by_cases he : e ≥ 0
  · simp only [he, if_true]
    have hv : m * 2 ^ e.toNat ≠ 0 := Nat.mul_ne_zero hm (Nat.pos_iff_ne_zero.mp (Nat.pow_pos (by decide)))
    rw [ofInt_signed neg _ hv]
    have := roundDyadic_canonical_mul neg m e hc hm e.toNat
    have h0 : e - (e.toNat : Int) = 0 := by omega
    rw [h0] at this; exact this
  · simp only [he, if_false]
    have hmod : m % 2 ^ (-e).toNat = 0 := by
      simp only [isInteger, he, decide_false, Bool.false_or, beq_iff_eq] at hi; exact hi
    have hM : m = m / 2 ^ (-e).toNat * 2 ^ (-e).toNat := by
      have := Nat.div_add_mod m (2 ^ (-e).toNat); rw [hmod, Nat.add_zero, Nat.mul_comm] at this; exact this.symm
    have hv : m / 2 ^ (-e).toNat ≠ 0 := by
      intro h; rw [h, Nat.zero_mul] at hM; exact hm hM
    rw [ofInt_signed neg _ hv]
    have := roundDyadic_canonical_div neg m e hc hm _ _ hM
    have h0 : e + ((-e).toNat : Int) = 0 := by omega
    rw [h0] at this; exact this

theorem floorInt_of_isInteger (neg : Bool) (m : Nat) (e : Int) (hi : isInteger m e = true) :
    floorInt neg m e = truncInt neg m e := by
  unfold floorInt
  by_cases he : e ≥ 0
  · simp [he]
  · have hmod : m % 2 ^ (-e).toNat = 0 := by
      simp only [isInteger, he, decide_false, Bool.false_or, beq_iff_eq] at hi; exact hi
    have hp : 0 < 2 ^ (-e).toNat := Nat.pow_pos (by decide)
    simp only [he, if_false, truncInt]
    cases neg
    · simp
    · simp only [if_true]
      have : (m + 2 ^ (-e).toNat - 1) / 2 ^ (-e).toNat = m / 2 ^ (-e).toNat := by
        have hd := Nat.div_add_mod m (2 ^ (-e).toNat)
        rw [hmod, Nat.add_zero] at hd
        generalize m / 2 ^ (-e).toNat = q at hd ⊢
        generalize 2 ^ (-e).toNat = p at hd hp ⊢
        subst hd
        rw [show p * q + p - 1 = (p - 1) + q * p by rw [Nat.mul_comm]; omega]
        rw [Nat.add_mul_div_right _ _ hp, Nat.div_eq_of_lt (by omega)]; omega
      rw [this]

/-- `std::floor` = XPath floor for every finite double -/
theorem floor_eq_spec (neg : Bool) (m : Nat) (e : Int) (hc : Canonical m e) :
    floor (.fin neg m e) = floorSpec (.fin neg m e) := by
  have hmin : m = 0 → e = minExp := by
    intro h; subst h; rcases hc with ⟨_, h⟩ | ⟨h, _⟩
    · exact h
    · simp at h
  unfold floor floorSpec
  simp only
  by_cases hm : m = 0
  · subst hm
    have he : e = minExp := hmin rfl
    have : isInteger 0 e = true := by simp [isInteger]
    rw [if_pos this, he]; rfl
  · simp only [hm, if_false]
    by_cases hi : isInteger m e = true
    · simp only [hi, if_true]
      have h1 := ofInt_truncInt_of_isInteger neg m e hc hm hi
      rw [floorInt_of_isInteger neg m e hi]
      have hne : truncInt neg m e ≠ 0 := by
        intro h0; rw [h0] at h1
        have : Dbl.ofInt 0 = .fin false 0 minExp := by decide
        rw [this] at h1; injection h1 with _ h2 _; exact hm h2.symm
      simp only [hne, if_false, h1]
    · simp only [hi]
      simp only [Bool.false_eq_true, if_false]
      by_cases hf : floorInt neg m e = 0
      · simp only [hf, if_true]
        -- floor = 0 of a non-integer: 0 < x < 1, so x is positive
        have : neg = false := by
          cases neg with
          | false => rfl
          | true =>
            exfalso
            have he : ¬ e ≥ 0 := by
              intro he; simp [isInteger, he] at hi
            have hp : 0 < 2 ^ (-e).toNat := Nat.pow_pos (by decide)
            simp only [floorInt, he, if_false, if_true] at hf
            have : (m + 2 ^ (-e).toNat - 1) / 2 ^ (-e).toNat = 0 := by omega
            rw [Nat.div_eq_zero_iff] at this
            omega
        subst this; rfl
      · simp only [hf, if_false]

theorem ceil_div (m p : Nat) (hp : 0 < p) (hr : m % p ≠ 0) : (m + p - 1) / p = m / p + 1 := by
  have hd := Nat.div_add_mod m p
  have hlt := Nat.mod_lt m hp
  generalize m / p = q at hd ⊢
  generalize m % p = r at hd hr hlt
  subst hd
  rw [show p * q + r + p - 1 = (r - 1) + (q + 1) * p by rw [Nat.add_mul, Nat.mul_comm]; omega]
  rw [Nat.add_mul_div_right _ _ hp, Nat.div_eq_of_lt (by omega)]; omega

theorem truncInt_not (neg : Bool) (m : Nat) (e : Int) : truncInt (!neg) m e = -truncInt neg m e := by
  unfold truncInt; cases neg <;> simp

/-- `std::ceil` = XPath ceiling for every finite double -/
theorem ceiling_eq_spec (neg : Bool) (m : Nat) (e : Int) (hc : Canonical m e) :
    ceiling (.fin neg m e) = ceilingSpec (.fin neg m e) := by
  have hmin : m = 0 → e = minExp := by
    intro h; subst h; rcases hc with ⟨_, h⟩ | ⟨h, _⟩
    · exact h
    · simp at h
  unfold ceiling ceilingSpec
  simp only
  by_cases hm : m = 0
  · subst hm
    have he : e = minExp := hmin rfl
    have : isInteger 0 e = true := by simp [isInteger]
    rw [if_pos this, he]; rfl
  · simp only [hm, if_false]
    by_cases hi : isInteger m e = true
    · simp only [hi, if_true]
      have h1 := ofInt_truncInt_of_isInteger neg m e hc hm hi
      rw [floorInt_of_isInteger (!neg) m e hi, truncInt_not, Int.neg_neg]
      have hne : truncInt neg m e ≠ 0 := by
        intro h0; rw [h0] at h1
        have : Dbl.ofInt 0 = .fin false 0 minExp := by decide
        rw [this] at h1; injection h1 with _ h2 _; exact hm h2.symm
      simp only [hne, if_false, h1]
    · simp only [hi, Bool.false_eq_true, if_false]
      have he : ¬ e ≥ 0 := by
        intro he; simp [isInteger, he] at hi
      have hp : 0 < 2 ^ (-e).toNat := Nat.pow_pos (by decide)
      have hr : m % 2 ^ (-e).toNat ≠ 0 := by
        intro h; apply hi; simp [isInteger, h]
      have hceil := ceil_div m _ hp hr
      have heq : floorInt neg m e + 1 = -floorInt (!neg) m e := by
        simp only [floorInt, he, if_false]
        cases neg
        · simp only [Bool.false_eq_true, if_false, Bool.not_false, if_true, hceil]; omega
        · simp only [if_true, Bool.not_true, Bool.false_eq_true, if_false, hceil]; omega
      rw [heq]

theorem int_div_eq (x d k : Int) (hd : 0 < d) (h1 : k * d ≤ x) (h2 : x < (k + 1) * d) : x / d = k := by
  have a := (Int.le_ediv_iff_mul_le hd).mpr h1
  have b := (Int.ediv_lt_iff_lt_mul hd).mpr h2
  omega

/-- `⌊x + 1/2⌋` in terms of quotient and remainder of the significand -/
theorem roundInt_eq (neg : Bool) (m : Nat) (e : Int) (he : e < 0) :
    roundInt neg m e =
      let p := 2 ^ (-e).toNat
      let a : Int := ((m / p : Nat) : Int)
      let b := m % p
      if neg then (if 2 * b ≤ p then -a else -a - 1) else (if 2 * b ≥ p then a + 1 else a) := by
  have hne : ¬ e ≥ 0 := by omega
  have hp : 0 < 2 ^ (-e).toNat := Nat.pow_pos (by decide)
  simp only [roundInt, hne, if_false]
  rw [Int.fdiv_eq_ediv_of_nonneg _ (by omega)]
  have hd := Nat.div_add_mod m (2 ^ (-e).toNat)
  have hlt := Nat.mod_lt m hp
  generalize 2 ^ (-e).toNat = p at *
  generalize m / p = q at *
  generalize m % p = b at *
  subst hd
  have hcast : ((2 * (p * q + b) : Nat) : Int) = 2 * ((p : Int) * q) + 2 * b := by
    simp [Nat.mul_add, Int.mul_add]
  have hcast2 : ((2 * p : Nat) : Int) = 2 * (p : Int) := by simp
  simp only [hcast, hcast2]
  have hpq : ((p * q : Nat) : Int) = (p : Int) * q := by simp
  cases neg
  · simp only [Bool.false_eq_true, if_false]
    split
    · apply int_div_eq _ _ _ (by omega)
      · rw [Int.add_mul, Int.mul_comm (q : Int) (2 * (p : Int))]; simp only [Int.mul_assoc]; omega
      · rw [Int.add_mul, Int.add_mul, Int.mul_comm (q : Int) (2 * (p : Int))]; simp only [Int.mul_assoc]; omega
    · apply int_div_eq _ _ _ (by omega)
      · rw [Int.mul_comm (q : Int) (2 * (p : Int))]; simp only [Int.mul_assoc]; omega
      · rw [Int.add_mul, Int.mul_comm (q : Int) (2 * (p : Int))]; simp only [Int.mul_assoc]; omega
  · simp only [if_true]
    split
    · apply int_div_eq _ _ _ (by omega)
      · rw [Int.neg_mul, Int.mul_comm (q : Int) (2 * (p : Int))]; simp only [Int.mul_assoc]; omega
      · rw [Int.add_mul, Int.neg_mul, Int.mul_comm (q : Int) (2 * (p : Int))]; simp only [Int.mul_assoc]; omega
    · apply int_div_eq _ _ _ (by omega)
      · rw [Int.sub_mul, Int.neg_mul, Int.mul_comm (q : Int) (2 * (p : Int))]; simp only [Int.mul_assoc]; omega
      · rw [Int.add_mul, Int.sub_mul, Int.neg_mul, Int.mul_comm (q : Int) (2 * (p : Int))]; simp only [Int.mul_assoc]; omega

theorem isInteger_iff (m : Nat) (e : Int) (he : e < 0) : isInteger m e = true ↔ m % 2 ^ (-e).toNat = 0 := by
  have : ¬ e ≥ 0 := by omega
  simp [isInteger, this]

/-- **the repaired `round` is XPath round for every finite double** -/
theorem roundV1_eq_spec (neg : Bool) (m : Nat) (e : Int) (hc : Canonical m e) :
    roundV1 (.fin neg m e) = roundSpec (.fin neg m e) := by
  have hmin : m = 0 → e = minExp := by
    intro h; subst h; rcases hc with ⟨_, h⟩ | ⟨h, _⟩
    · exact h
    · simp at h
  unfold roundV1 roundSpec
  simp only
  by_cases hm : m = 0
  · subst hm; simp only [if_true]; rw [hmin rfl]; rfl
  · simp only [hm, if_false]
    have hzero : Dbl.ofInt 0 = .fin false 0 minExp := by decide
    by_cases he : e ≥ 0
    · -- |x| ≥ 2^52: integral, nothing to round
      have hi : isInteger m e = true := by simp [isInteger, he]
      have hne : ¬ e < 0 := by omega
      have h1 := ofInt_truncInt_of_isInteger neg m e hc hm hi
      have hr : roundInt neg m e = truncInt neg m e := by simp [roundInt, he]
      have hnz : truncInt neg m e ≠ 0 := by
        intro h0; rw [h0, hzero] at h1; injection h1 with _ h2 _; exact hm h2.symm
      simp only [fracGeHalf, fracGtHalf, hne, decide_false, Bool.false_and, Bool.false_eq_true, if_false,
        modfInt, hi, if_true, hr, hnz, h1]
      cases neg <;> simp
    · have he' : e < 0 := by omega
      have hp : 0 < 2 ^ (-e).toNat := Nat.pow_pos (by decide)
      have hR := roundInt_eq neg m e he'
      simp only at hR
      have hlt := Nat.mod_lt m hp
      by_cases hi : isInteger m e = true
      · have hmod := (isInteger_iff m e he').mp hi
        have h1 := ofInt_truncInt_of_isInteger neg m e hc hm hi
        have hnz : truncInt neg m e ≠ 0 := by
          intro h0; rw [h0, hzero] at h1; injection h1 with _ h2 _; exact hm h2.symm
        have hr : roundInt neg m e = truncInt neg m e := by
          rw [hR, hmod]
          simp only [truncInt, he, if_false]
          cases neg
          · have : ¬ (2 * 0 ≥ 2 ^ (-e).toNat) := by omega
            simp [this]
          · simp
        have hge : fracGeHalf m e = false := by
          simp only [fracGeHalf, hmod]; have : ¬ (2 * 0 ≥ 2 ^ (-e).toNat) := by omega
          simp [this]
        have hgt : fracGtHalf m e = false := by
          simp only [fracGtHalf, hmod]; simp
        simp only [hge, hgt, Bool.false_eq_true, if_false, modfInt, hi, if_true, hr, hnz, h1]
        cases neg <;> simp
      · have hmod : m % 2 ^ (-e).toNat ≠ 0 := fun h => hi ((isInteger_iff m e he').mpr h)
        have hceil := ceil_div m _ hp hmod
        cases neg
        · -- positive, non-integral
          simp only [Bool.not_false, if_true, Bool.false_eq_true, if_false] at hR ⊢
          by_cases hh : 2 * (m % 2 ^ (-e).toNat) ≥ 2 ^ (-e).toNat
          · have hge : fracGeHalf m e = true := by simp [fracGeHalf, he', hh]
            simp only [hge, if_true, ceiling, hi, Bool.false_eq_true, if_false, floorInt, he]
            rw [hR, if_pos hh]
          · have hge : fracGeHalf m e = false := by simp [fracGeHalf, hh]
            simp only [hge, Bool.false_eq_true, if_false, modfInt, hi, truncInt, he]
            rw [hR, if_neg hh]
        · -- negative, non-integral
          simp only [Bool.not_true, Bool.false_eq_true, if_false, if_true] at hR ⊢
          by_cases hh : 2 * (m % 2 ^ (-e).toNat) > 2 ^ (-e).toNat
          · have hgt : fracGtHalf m e = true := by simp [fracGtHalf, he', hh]
            have hle : ¬ (2 * (m % 2 ^ (-e).toNat) ≤ 2 ^ (-e).toNat) := by omega
            simp only [hgt, if_true, floor, hi, Bool.false_eq_true, if_false, floorInt, he, hceil]
            rw [hR, if_neg hle]
            have e1 : -(((m / 2 ^ (-e).toNat + 1 : Nat)) : Int) = -((m / 2 ^ (-e).toNat : Nat) : Int) - 1 := by omega
            rw [e1]
          · have hgt : fracGtHalf m e = false := by simp [fracGtHalf, hh]
            have hle : 2 * (m % 2 ^ (-e).toNat) ≤ 2 ^ (-e).toNat := by omega
            simp only [hgt, Bool.false_eq_true, if_false, modfInt, hi, truncInt, he, if_true]
            rw [hR, if_pos hle]


end XalanModel.C18
