import XalanModel.C18.ToStringProofsA
/-! Helper lemmas for C18 (part B): `printfF` shape and length, precision loop, buffer bound, output format. -/
set_option linter.unnecessarySimpa false
set_option linter.unusedSimpArgs false
namespace XalanModel.C18
open Dbl

theorem printfF_shape (N : Nat) (hN : 1 ≤ N) (neg : Bool) (m : Nat) (e : Int) :
    PrintfShape (signOf neg) (printfF N neg m e) := by
  have hN0 : N ≠ 0 := by omega
  simp only [printfF, hN0, if_false]
  refine ⟨_, _, rfl, decDigits_ne_nil _, decDigits_all _, decDigits_noLeadingZero _, ?_, ?_⟩
  · intro h
    have := decDigits_ne_nil ((if e ≥ 0 then m * 2 ^ e.toNat * 10 ^ N
      else if 2 * (m * 10 ^ N % 2 ^ (-e).toNat) > 2 ^ (-e).toNat ∨
            2 * (m * 10 ^ N % 2 ^ (-e).toNat) = 2 ^ (-e).toNat ∧ m * 10 ^ N / 2 ^ (-e).toNat % 2 = 1
        then m * 10 ^ N / 2 ^ (-e).toNat + 1 else m * 10 ^ N / 2 ^ (-e).toNat) % 10 ^ N)
    simp at h
    exact this h.2
  · intro c hc
    rcases List.mem_append.mp hc with h | h
    · have := List.eq_of_mem_replicate h; subst this; decide
    · exact decDigits_all _ c h

/-- the precision loop returns one of the `sprintf` results, or reports the overrun -/
theorem printLoop_some (B : Nat) (neg : Bool) (m : Nat) (e : Int) :
    ∀ (ps : List Nat) (buf : List Nat), printLoop B neg m e ps = some buf →
      ∃ p ∈ ps, buf = printfF p neg m e ∧ buf.length + 1 ≤ B := by
  intro ps
  induction ps with
  | nil => intro buf h; simp [printLoop] at h
  | cons p rest ih =>
    intro buf h
    simp only [printLoop] at h
    split at h
    · cases h
    · rename_i hlen
      split at h
      · cases h; exact ⟨p, by simp, rfl, by omega⟩
      · cases rest with
        | nil => simp at h; cases h; exact ⟨p, by simp, rfl, by omega⟩
        | cons q r =>
          simp only at h
          obtain ⟨p', hp', hb, hl⟩ := ih buf h
          exact ⟨p', by simp [hp'], hb, hl⟩

theorem printLoop_ne_none (B : Nat) (neg : Bool) (m : Nat) (e : Int) :
    ∀ (ps : List Nat), ps ≠ [] → (∀ p ∈ ps, (printfF p neg m e).length + 1 ≤ B) →
      printLoop B neg m e ps ≠ none := by
  intro ps
  induction ps with
  | nil => intro h; exact absurd rfl h
  | cons p rest ih =>
    intro _ hall
    simp only [printLoop]
    have hp := hall p (by simp)
    split
    · omega
    · split
      · simp
      · cases rest with
        | nil => simp
        | cons q r =>
          simp only
          exact ih (by simp) (fun p' hp' => hall p' (by simp [hp']))

/-- `round-half-even (|x|·10^N)` — the integer whose digits `sprintf("%.Nf")` prints -/
def scaledQ (N m : Nat) (e : Int) : Nat :=
  if e ≥ 0 then m * 2 ^ e.toNat * 10 ^ N
  else
    let den := 2 ^ (-e).toNat
    let num := m * 10 ^ N
    let q := num / den
    let r := num % den
    if 2 * r > den ∨ (2 * r = den ∧ q % 2 = 1) then q + 1 else q

theorem printfF_eq (N : Nat) (neg : Bool) (m : Nat) (e : Int) :
    printfF N neg m e = signOf neg ++ decDigits (scaledQ N m e / 10 ^ N) ++
      (if N = 0 then [] else cDot :: (List.replicate (N - (decDigits (scaledQ N m e % 10 ^ N)).length) c0 ++
        decDigits (scaledQ N m e % 10 ^ N))) := rfl

/-- `⌊|x|⌋` -/
def truncNat (m : Nat) (e : Int) : Nat := if e ≥ 0 then m * 2 ^ e.toNat else m / 2 ^ (-e).toNat

theorem scaledQ_div_le (N m : Nat) (e : Int) : scaledQ N m e / 10 ^ N ≤ truncNat m e + 1 := by
  have hT : 0 < 10 ^ N := Nat.pow_pos (by decide)
  unfold scaledQ truncNat
  split
  · rw [Nat.mul_div_cancel _ hT]; omega
  · have hden : 0 < 2 ^ (-e).toNat := Nat.pow_pos (by decide)
    have hq : m * 10 ^ N / 2 ^ (-e).toNat / 10 ^ N = m / 2 ^ (-e).toNat := by
      rw [Nat.div_div_eq_div_mul, Nat.mul_div_mul_right _ _ hT]
    have hstep : (m * 10 ^ N / 2 ^ (-e).toNat + 1) / 10 ^ N ≤ m / 2 ^ (-e).toNat + 1 := by
      calc (m * 10 ^ N / 2 ^ (-e).toNat + 1) / 10 ^ N
          ≤ (m * 10 ^ N / 2 ^ (-e).toNat + 10 ^ N) / 10 ^ N := Nat.div_le_div_right (by omega)
        _ = m * 10 ^ N / 2 ^ (-e).toNat / 10 ^ N + 1 := Nat.add_div_right _ hT
        _ = m / 2 ^ (-e).toNat + 1 := by rw [hq]
    simp only
    split
    · exact hstep
    · rw [hq]; omega

theorem printfF_length_le (N : Nat) (hN : 1 ≤ N) (neg : Bool) (m : Nat) (e : Int) (k : Nat) (hk : 1 ≤ k)
    (hx : truncNat m e + 2 ≤ 10 ^ k) :
    (printfF N neg m e).length ≤ (if neg then 1 else 0) + k + 1 + N := by
  have hN0 : N ≠ 0 := by omega
  have hT : 0 < 10 ^ N := Nat.pow_pos (by decide)
  rw [printfF_eq]
  simp only [hN0, if_false, List.length_append, List.length_cons, List.length_replicate]
  have h1 : (decDigits (scaledQ N m e / 10 ^ N)).length ≤ k :=
    decDigits_length_le _ k hk (by have := scaledQ_div_le N m e; omega)
  have h2 : (decDigits (scaledQ N m e % 10 ^ N)).length ≤ N :=
    decDigits_length_le _ N hN (Nat.mod_lt _ hT)
  have h3 : (signOf neg).length = if neg then 1 else 0 := by cases neg <;> rfl
  omega

theorem castInt64_range (neg : Bool) (m : Nat) (e : Int) :
    -(9223372036854775808 : Int) ≤ castInt64 neg m e ∧ castInt64 neg m e < 9223372036854775808 := by
  have h63 : (2 : Int) ^ 63 = 9223372036854775808 := by decide
  unfold castInt64
  simp only [h63]
  split <;> omega

theorem scalarToDecimal_length_le (i : Int) (h : -(9223372036854775808 : Int) ≤ i ∧ i < 9223372036854775808) :
    (scalarToDecimal i).length ≤ 20 := by
  have hb : i.natAbs < 10 ^ 19 := by
    have : (10 : Nat) ^ 19 = 10000000000000000000 := by decide
    rw [this]; omega
  have := decDigits_length_le i.natAbs 19 (by decide) hb
  unfold scalarToDecimal
  split <;> simp <;> omega

theorem findK_le (m den : Nat) : ∀ f k, findK m den f k ≤ k + f := by
  intro f
  induction f with
  | zero => intro k; simp [findK]
  | succ f ih =>
    intro k
    simp only [findK]
    split
    · omega
    · have := ih (k + 1); omega

theorem findK_min (m den : Nat) : ∀ f k, 1 ≤ k → m * 10 ^ (k - 1) < den →
    1 ≤ findK m den f k ∧ m * 10 ^ (findK m den f k - 1) < den := by
  intro f
  induction f with
  | zero => intro k hk h; simpa [findK] using ⟨hk, h⟩
  | succ f ih =>
    intro k hk h
    simp only [findK]
    split
    · exact ⟨hk, h⟩
    · rename_i hlt
      exact ih (k + 1) (by omega) (by simpa using Nat.lt_of_not_ge hlt)

theorem sciShape (neg : Bool) (k d : Nat) (hd : d < 10 ^ 18) (hk : k ≤ 324) :
    PrintfShape (signOf neg) ((if neg then [cMinus] else []) ++ [c0] ++ cDot :: (List.replicate (k - 1) c0 ++ decDigits d)) ∧
    ((if neg then [cMinus] else []) ++ [c0] ++ cDot :: (List.replicate (k - 1) c0 ++ decDigits d)).length ≤ 344 := by
  have hlen := decDigits_length_le d 18 (by decide) hd
  constructor
  · refine ⟨[c0], _, rfl, by simp, by intro c hc; simp at hc; subst hc; decide, Or.inl rfl, ?_, ?_⟩
    · intro hnil
      have := decDigits_ne_nil d
      simp at hnil; exact this hnil.2
    · intro c hc
      rcases List.mem_append.mp hc with h | h
      · have := List.eq_of_mem_replicate h; subst this; decide
      · exact decDigits_all _ c h
  · simp only [List.length_append, List.length_cons, List.length_replicate, List.length_nil]
    have : (if neg = true then [cMinus] else []).length ≤ 1 := by cases neg <;> simp
    omega

/-- `formatSmallNumber` leaves a printf-shaped buffer of at most 344 characters -/
theorem sciExpand_shape (neg : Bool) (m : Nat) (e : Int) (b : List Nat) (h : sciExpand neg m e = some b) :
    PrintfShape (signOf neg) b ∧ b.length ≤ 344 := by
  unfold sciExpand at h
  split at h
  · cases h
  · simp only at h
    split at h
    · cases h
    · rename_i hlt
      have hmden : m < 2 ^ (-e).toNat := by omega
      have hk := findK_min m (2 ^ (-e).toNat) 323 1 (Nat.le_refl _) (by simpa using hmden)
      have hkle := findK_le m (2 ^ (-e).toNat) 323 1
      generalize findK m (2 ^ (-e).toNat) 323 1 = k0 at h hk hkle
      have hden : 0 < 2 ^ (-e).toNat := Nat.pow_pos (by decide)
      have hq : m * 10 ^ (k0 + 17) / 2 ^ (-e).toNat < 10 ^ 18 := by
        apply Nat.div_lt_of_lt_mul
        have hk' : k0 + 17 = (k0 - 1) + 18 := by omega
        rw [hk', Nat.pow_add, ← Nat.mul_assoc]
        exact Nat.mul_lt_mul_of_lt_of_le hk.2 (Nat.le_refl _) (Nat.pow_pos (by decide))
      generalize hd0 : (if 2 * (m * 10 ^ (k0 + 17) % 2 ^ (-e).toNat) > 2 ^ (-e).toNat ∨
          2 * (m * 10 ^ (k0 + 17) % 2 ^ (-e).toNat) = 2 ^ (-e).toNat ∧ m * 10 ^ (k0 + 17) / 2 ^ (-e).toNat % 2 = 1
        then m * 10 ^ (k0 + 17) / 2 ^ (-e).toNat + 1 else m * 10 ^ (k0 + 17) / 2 ^ (-e).toNat) = d0 at h
      have hd0le : d0 ≤ 10 ^ 18 := by
        rw [← hd0]; split <;> omega
      by_cases hd18 : d0 = 10 ^ 18
      · simp only [hd18, if_true] at h
        by_cases hk0 : k0 - 1 = 0
        · simp [hk0] at h
        · simp only [hk0, if_false, Option.some.injEq] at h
          subst h
          exact sciShape neg (k0 - 1) (10 ^ 17) (by decide) (by omega)
      · simp only [hd18, if_false] at h
        by_cases hk0 : k0 = 0
        · simp [hk0] at h
        · simp only [hk0, if_false, Option.some.injEq] at h
          subst h
          exact sciShape neg k0 d0 (by omega) (by omega)

/-- the buffer handed to the zero stripping is printf-shaped and inside `theBuffer` -/
theorem finalBuffer_some (cfg : NumCfg) (neg : Bool) (m : Nat) (e : Int) (b : List Nat)
    (hP : ∀ p ∈ cfg.precisions, 1 ≤ p) (h : finalBuffer cfg neg m e = some b) :
    PrintfShape (signOf neg) b ∧ b.length + 1 ≤ cfg.buffer := by
  unfold finalBuffer at h
  cases hl : printLoop cfg.buffer neg m e cfg.precisions with
  | none => rw [hl] at h; cases h
  | some buf =>
    rw [hl] at h
    simp only at h
    obtain ⟨p, hp, rfl, hlen⟩ := printLoop_some _ _ _ _ _ _ hl
    have hshape := printfF_shape p (hP p hp) neg m e
    split at h
    · cases hs : sciExpand neg m e with
      | none => rw [hs] at h; cases h; exact ⟨hshape, hlen⟩
      | some b' =>
        rw [hs] at h
        simp only at h
        split at h
        · cases h
        · cases h
          exact ⟨(sciExpand_shape neg m e _ hs).1, by omega⟩
    · cases h; exact ⟨hshape, hlen⟩

theorem finalBuffer_ne_none (cfg : NumCfg) (neg : Bool) (m : Nat) (e : Int)
    (hloop : printLoop cfg.buffer neg m e cfg.precisions ≠ none)
    (hT : cfg.tinyFallback = true → 345 ≤ cfg.buffer) : finalBuffer cfg neg m e ≠ none := by
  unfold finalBuffer
  cases hl : printLoop cfg.buffer neg m e cfg.precisions with
  | none => exact absurd hl hloop
  | some buf =>
    simp only
    split
    · rename_i hc
      have ht : cfg.tinyFallback = true := by
        simp only [Bool.and_eq_true] at hc; exact hc.1
      cases hs : sciExpand neg m e with
      | none => simp
      | some b' =>
        have := (sciExpand_shape neg m e _ hs).2
        have := hT ht
        simp only
        rw [if_neg (by omega)]; simp
    · simp

theorem intTest_true (cfg : NumCfg) (neg : Bool) (m : Nat) (e : Int) (h : intTest cfg neg m e = true) :
    (Dbl.ofInt (castInt64 neg m e)).ieeeEq (.fin neg m e) = true := by
  simp only [intTest, Bool.and_eq_true] at h; exact h.2

theorem numberToString_no_overflow (cfg : NumCfg) (neg : Bool) (m : Nat) (e : Int) (k P : Nat)
    (hne : cfg.precisions ≠ []) (hP : ∀ p ∈ cfg.precisions, 1 ≤ p ∧ p ≤ P) (hk : 1 ≤ k)
    (hx : truncNat m e + 2 ≤ 10 ^ k)
    (hB : (if neg then 1 else 0) + k + 1 + P + 1 ≤ cfg.buffer) (hS : 21 ≤ cfg.scalarBuffer)
    (hT : cfg.tinyFallback = true → 345 ≤ cfg.buffer) :
    numberToString cfg (.fin neg m e) ≠ .memErr := by
  simp only [numberToString]
  split
  · simp
  · split
    · have := scalarToDecimal_length_le _ (castInt64_range neg m e)
      rw [if_neg (by omega)]; simp
    · have hloop : printLoop cfg.buffer neg m e cfg.precisions ≠ none := by
        apply printLoop_ne_none _ _ _ _ _ hne
        intro p hp
        have := printfF_length_le p (hP p hp).1 neg m e k hk hx
        have := (hP p hp).2
        omega
      have hfin := finalBuffer_ne_none cfg neg m e hloop hT
      cases hl : finalBuffer cfg neg m e with
      | none => exact absurd hl hfin
      | some buf =>
        obtain ⟨hshape, _⟩ := finalBuffer_some cfg neg m e buf (fun p hp => (hP p hp).1) hl
        obtain ⟨s, hs, _⟩ := postProcess_shape _ _ hshape
        simp [hs]

theorem scaled_neg_pos (m1 : Nat) (e1 : Int) (m2 : Nat) (e2 e0 : Int)
    (h : (scaled true m1 e1 e0 == scaled false m2 e2 e0) = true) : m1 = 0 := by
  simp only [scaled, if_true, Bool.false_eq_true, if_false, beq_iff_eq] at h
  have hp : 0 < 2 ^ (e1 - e0).toNat := Nat.pow_pos (by decide)
  have h1 : (m1 * 2 ^ (e1 - e0).toNat : Nat) = 0 := by omega
  rcases Nat.mul_eq_zero.mp h1 with h | h
  · exact h
  · omega

theorem scaled_pos_neg (m1 : Nat) (e1 : Int) (m2 : Nat) (e2 e0 : Int)
    (h : (scaled false m1 e1 e0 == scaled true m2 e2 e0) = true) : m2 = 0 := by
  have : (scaled true m2 e2 e0 == scaled false m1 e1 e0) = true := by
    simp only [beq_iff_eq] at h ⊢; exact h.symm
  exact scaled_neg_pos m2 e2 m1 e1 e0 this

theorem truncInt_false_nonneg (m : Nat) (e : Int) : 0 ≤ truncInt false m e := by
  simp only [truncInt, Bool.false_eq_true, if_false]
  exact Int.natCast_nonneg _

/-- on the integer fast path the printed sign is the sign bit of `x` -/
theorem castInt64_sign (neg : Bool) (m : Nat) (e : Int) (hm : m ≠ 0)
    (hint : (Dbl.ofInt (castInt64 neg m e)).ieeeEq (.fin neg m e) = true) :
    (castInt64 neg m e < 0) ↔ neg = true := by
  have h63 : (2 : Int) ^ 63 = 9223372036854775808 := by decide
  have hmin : Dbl.ofInt (-9223372036854775808) = .fin true (2 ^ 52) 11 := by decide +kernel
  have hzero : Dbl.ofInt 0 = .fin false 0 minExp := by decide
  unfold castInt64 at hint ⊢
  simp only [h63] at hint ⊢
  cases neg with
  | false =>
    simp only [Bool.false_eq_true, iff_false, Int.not_lt]
    split
    · exact truncInt_false_nonneg m e
    · -- out of range, positive x: the cast gives INT64_MIN, which cannot compare equal
      rename_i hr
      rw [if_neg hr, hmin] at hint
      simp only [ieeeEq] at hint
      have := scaled_neg_pos _ _ _ _ _ hint
      simp at this
  | true =>
    simp only [iff_true]
    split
    · rename_i hr
      rw [if_pos hr] at hint
      simp only [truncInt, if_true] at hint ⊢
      by_cases ha : (if e ≥ 0 then m * 2 ^ e.toNat else m / 2 ^ (-e).toNat) = 0
      · rw [ha] at hint
        simp only [Int.natCast_zero, Int.neg_zero] at hint
        rw [hzero] at hint
        simp only [ieeeEq] at hint
        exact absurd (scaled_pos_neg _ _ _ _ _ hint) hm
      · omega
    · omega


/-- where C++ leaves `static_cast<XMLInt64>(x)` undefined, the x86 result never compares equal to `x`:
guarding the cast with the range test does not change which values take the integer path -/
theorem castUB_not_eq (neg : Bool) (m : Nat) (e : Int) (hub : castIsUB neg m e = true) :
    (Dbl.ofInt (castInt64 neg m e)).ieeeEq (.fin neg m e) = false := by
  have h63 : (2 : Int) ^ 63 = 9223372036854775808 := by decide
  have hmin : Dbl.ofInt (-9223372036854775808) = .fin true (2 ^ 52) 11 := by decide +kernel
  have hr : ¬ (-(2 : Int) ^ 63 ≤ truncInt neg m e ∧ truncInt neg m e < 2 ^ 63) := by
    simp only [castIsUB, Bool.not_eq_true', Bool.and_eq_false_iff, decide_eq_false_iff_not] at hub
    intro h; rcases hub with h1 | h1
    · exact h1 h.1
    · exact h1 h.2
  have hc : castInt64 neg m e = -9223372036854775808 := by
    unfold castInt64; rw [if_neg hr, h63]
  rw [hc, hmin]
  cases hres : (Dbl.fin true (2 ^ 52) 11).ieeeEq (.fin neg m e) with
  | false => rfl
  | true =>
    exfalso
    simp only [ieeeEq] at hres
    cases neg with
    | false =>
      have := scaled_neg_pos _ _ _ _ _ hres
      simp at this
    | true =>
      simp only [h63, truncInt, if_true] at hr
      simp only [scaled, if_true, beq_iff_eq] at hres
      have hres' : 2 ^ 52 * 2 ^ (11 - min 11 e).toNat = m * 2 ^ (e - min 11 e).toNat := by omega
      by_cases he : e ≥ 11
      · have h0 : min 11 e = 11 := by omega
        rw [h0] at hres'
        have he0 : e ≥ 0 := by omega
        simp only [he0, if_true] at hr
        have e1 : e.toNat = (e - 11).toNat + 11 := by omega
        have : m * 2 ^ e.toNat = 2 ^ 63 := by
          rw [e1, Nat.pow_add, ← Nat.mul_assoc, ← hres']
          simp only [Int.sub_self, Int.toNat_zero, Nat.pow_zero, Nat.mul_one]
        have h2 : (2:Nat) ^ 63 = 9223372036854775808 := by decide
        omega
      · have h0 : min 11 e = e := by omega
        rw [h0] at hres'
        simp only [Int.sub_self, Int.toNat_zero, Nat.pow_zero, Nat.mul_one] at hres'
        have h2 : (2:Nat) ^ 63 = 9223372036854775808 := by decide
        by_cases he0 : e ≥ 0
        · simp only [he0, if_true] at hr
          have e1 : (11 - e).toNat + e.toNat = 11 := by omega
          have : m * 2 ^ e.toNat = 2 ^ 63 := by
            rw [← hres', Nat.mul_assoc, ← Nat.pow_add, e1]
          omega
        · simp only [he0, if_false] at hr
          have e1 : (11 - e).toNat = 11 + (-e).toNat := by omega
          have : m / 2 ^ (-e).toNat = 2 ^ 63 := by
            rw [← hres', e1, Nat.pow_add, ← Nat.mul_assoc, Nat.mul_div_cancel _ (Nat.pow_pos (by decide))]
          omega

theorem intTest_iff (cfg : NumCfg) (neg : Bool) (m : Nat) (e : Int) :
    intTest cfg neg m e = (Dbl.ofInt (castInt64 neg m e)).ieeeEq (.fin neg m e) := by
  unfold intTest
  cases hub : castIsUB neg m e with
  | false => simp
  | true => rw [castUB_not_eq neg m e hub]; simp


theorem numberToString_format_int (neg : Bool) (m : Nat) (e : Int) (hm : m ≠ 0)
    (hint : (Dbl.ofInt (castInt64 neg m e)).ieeeEq (.fin neg m e) = true) :
    DecimalForm (signOf neg) (scalarToDecimal (castInt64 neg m e)) := by
  have hsign := castInt64_sign neg m e hm hint
  generalize castInt64 neg m e = i at hsign
  unfold scalarToDecimal
  split
  · rename_i hlt
    have : neg = true := hsign.mp hlt
    subst this
    exact ⟨_, decDigits_ne_nil _, decDigits_all _, decDigits_noLeadingZero _, Or.inl rfl⟩
  · rename_i hlt
    have : neg = false := by
      cases neg with
      | false => rfl
      | true => exact absurd (hsign.mpr rfl) hlt
    subst this
    exact ⟨decDigits i.natAbs, decDigits_ne_nil _, decDigits_all _, decDigits_noLeadingZero _,
      Or.inl (by simp [signOf])⟩

theorem numberToString_format_fin (cfg : NumCfg) (neg : Bool) (m : Nat) (e : Int) (s : List Nat)
    (hP : ∀ p ∈ cfg.precisions, 1 ≤ p) (hm : m ≠ 0)
    (h : numberToString cfg (.fin neg m e) = .ok s) : DecimalForm (signOf neg) s := by
  simp only [numberToString, hm, if_false] at h
  split at h
  · rename_i hint
    split at h
    · cases h
    · simp at h; subst h
      exact numberToString_format_int neg m e hm (intTest_true cfg neg m e hint)
  · cases hl : finalBuffer cfg neg m e with
    | none => simp [hl] at h
    | some buf =>
      obtain ⟨hshape, _⟩ := finalBuffer_some cfg neg m e buf hP hl
      obtain ⟨s', hs, hform⟩ := postProcess_shape _ _ hshape
      simp [hl, hs] at h; subst h
      exact hform

/-- output shape of `NumberToDOMString` for every double -/
theorem numberToString_format (cfg : NumCfg) (x : Dbl) (s : List Nat) (hP : ∀ p ∈ cfg.precisions, 1 ≤ p)
    (h : numberToString cfg x = .ok s) :
    match x with
    | .nan => s = cfg.nanS
    | .inf false => s = cfg.posInfS
    | .inf true => s = cfg.negInfS
    | .fin neg m _ => if m = 0 then s = cfg.zeroS else DecimalForm (signOf neg) s := by
  cases x with
  | nan => simp [numberToString] at h; exact h.symm
  | inf n => cases n <;> simp [numberToString] at h <;> exact h.symm
  | fin neg m e =>
    simp only
    by_cases hm : m = 0
    · simp only [numberToString, hm, if_true] at h
      simp at h; simp [hm, h]
    · rw [if_neg hm]; exact numberToString_format_fin cfg neg m e s hP hm h

end XalanModel.C18
