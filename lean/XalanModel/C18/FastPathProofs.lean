import XalanModel.C18.RoundTripProofs
import XalanModel.C18.RoundProofs
import XalanModel.C18.GrammarProofs
/-! Helper lemmas for C18: the repaired integer fast path of `convertHelper` equals the specification. -/
set_option linter.unusedSimpArgs false
namespace XalanModel.C18
open Dbl

theorem natOfDigits_lt (ds : List Nat) (hds : ∀ c ∈ ds, isDigit c = true) : natOfDigits ds < 10 ^ ds.length := by
  induction ds with
  | nil => simp [natOfDigits]
  | cons d t ih =>
    have hd := hds d (by simp)
    have hd9 : d - c0 ≤ 9 := by
      simp only [isDigit, Bool.and_eq_true, decide_eq_true_eq] at hd; simp only [c0]; omega
    have := ih (fun c hc => hds c (by simp [hc]))
    rw [natOfDigits_cons, List.length_cons, Nat.pow_succ]
    calc (d - c0) * 10 ^ t.length + natOfDigits t < 9 * 10 ^ t.length + 10 ^ t.length :=
          Nat.add_lt_add_of_le_of_lt (Nat.mul_le_mul_right _ hd9) this
      _ = 10 ^ t.length * 10 := by omega

theorem numeralString_dropWhile (w1 : List Nat) (neg : Bool) (d0 : Nat) (dt w2 : List Nat)
    (h1 : ∀ c ∈ w1, isWs c = true) (hd0 : isDigit d0 = true) :
    (numeralString w1 neg (d0 :: dt) w2).dropWhile isWs = (if neg then [cMinus] else []) ++ (d0 :: dt) ++ w2 := by
  have : numeralString w1 neg (d0 :: dt) w2 = w1 ++ ((if neg then [cMinus] else []) ++ (d0 :: dt) ++ w2) := by
    simp [numeralString]
  rw [this, dropWhile_append_all isWs w1 _ h1]
  cases neg
  · simp [isWs_not_digit d0 hd0]
  · simp [isWs_not_minus]

theorem toDoubleSpec_numeralString (w1 : List Nat) (neg : Bool) (ds w2 : List Nat)
    (h1 : ∀ c ∈ w1, isWs c = true) (hds : ∀ c ∈ ds, isDigit c = true) (hne : ds ≠ [])
    (h2 : ∀ c ∈ w2, isWs c = true) :
    toDoubleSpec (numeralString w1 neg ds w2) = roundNE neg (natOfDigits ds) 1 := by
  obtain ⟨d0, dt, rfl⟩ : ∃ d0 dt, ds = d0 :: dt := by
    cases ds with
    | nil => exact absurd rfl hne
    | cons a b => exact ⟨a, b, rfl⟩
  have hd0 : isDigit d0 = true := hds d0 (by simp)
  have hw2d : ∀ c ∈ w2, isDigit c = false := fun c hc => isDigit_of_isWs c (h2 c hc)
  have hsplit := takeWhile_append_all isDigit (d0 :: dt) w2 hds hw2d
  have hdrop := numeralString_dropWhile w1 neg d0 dt w2 h1 hd0
  have hgram : NumberGrammar (numeralString w1 neg (d0 :: dt) w2) :=
    ⟨w1, if neg then [cMinus] else [], d0 :: dt, [], w2, by simp [numeralString], h1, h2,
      by cases neg <;> simp, hds, Or.inl ⟨rfl, by simp⟩⟩
  have hmatch := matches_of_grammar _ hgram
  unfold toDoubleSpec
  simp only [hmatch, Bool.not_true, Bool.false_eq_true, if_false, hdrop]
  have hhead : (((if neg then [cMinus] else []) ++ (d0 :: dt) ++ w2).head? == some cMinus) = neg := by
    cases neg
    · simp [isDigit_ne_minus d0 hd0]
    · simp
  have hs2 : (if neg = true then List.drop 1 ((if neg then [cMinus] else []) ++ (d0 :: dt) ++ w2)
      else (if neg then [cMinus] else []) ++ (d0 :: dt) ++ w2) = (d0 :: dt) ++ w2 := by
    cases neg <;> simp
  simp only [hhead, hs2, hsplit.1, hsplit.2]
  have hfp : (if (w2.head? == some cDot) = true then List.takeWhile isDigit (List.drop 1 w2) else []) = [] := by
    cases w2 with
    | nil => simp
    | cons c t =>
      have := isWs_ne_dot c (h2 c (by simp))
      simp [this]
  simp only [hfp, List.append_nil, List.length_nil, Nat.pow_zero, roundRat, Nat.gcd_one_right, Nat.div_one]

theorem fast_path_fixed_spec (threshold : Nat) (hth : threshold ≤ 16) (w1 : List Nat) (neg : Bool)
    (ds w2 : List Nat) (h1 : ∀ c ∈ w1, isWs c = true) (hds : ∀ c ∈ ds, isDigit c = true) (hne : ds ≠ [])
    (h2 : ∀ c ∈ w2, isWs c = true) (hlen : (numeralString w1 neg ds w2).length < threshold) :
    toDoubleK true threshold (numeralString w1 neg ds w2) = toDoubleSpec (numeralString w1 neg ds w2) := by
  rw [fast_path_K true threshold w1 neg ds w2 h1 hds hne h2 hlen,
    toDoubleSpec_numeralString w1 neg ds w2 h1 hds hne h2]
  have hlen' : ds.length ≤ 15 := by
    simp only [numeralString, List.length_append] at hlen; omega
  have hn : natOfDigits ds < 2 ^ 53 := by
    have h := natOfDigits_lt ds hds
    have h2 : 10 ^ ds.length ≤ 10 ^ 15 := Nat.pow_le_pow_right (by decide) hlen'
    have h3 : (10 : Nat) ^ 15 < 2 ^ 53 := by decide
    omega
  by_cases h0 : natOfDigits ds = 0
  · rw [h0]
    have : roundNE neg 0 1 = Dbl.zero neg := by simp [roundNE]
    rw [this]
    cases neg <;> simp
  · have hi : ((if neg then -(natOfDigits ds : Int) else (natOfDigits ds : Int)) == 0) = false := by
      cases neg <;> simp <;> omega
    simp only [hi, Bool.and_false, Bool.false_eq_true, if_false]
    rw [ofInt_signed neg _ h0, roundNE_small_int neg _ h0 hn]

end XalanModel.C18
