import XalanModel.C18.ToDouble
/-! Helper lemmas for C18: the `doValidate` state machine equals the grammar matcher. -/
set_option linter.unusedSimpArgs false
set_option linter.unusedVariables false
namespace XalanModel.C18

theorem dropWhile_idem {α} (p : α → Bool) (l : List α) : (l.dropWhile p).dropWhile p = l.dropWhile p := by
  induction l with
  | nil => rfl
  | cons a t ih =>
    by_cases h : p a
    · simp [h, ih]
    · simp [h]

theorem takeWhile_dropWhile_nil {α} (p : α → Bool) (l : List α) : (l.dropWhile p).takeWhile p = [] := by
  induction l with
  | nil => rfl
  | cons a t ih =>
    by_cases h : p a
    · simp [h, ih]
    · simp [h]

theorem length_dropWhile_le {α} (p : α → Bool) (l : List α) : (l.dropWhile p).length ≤ l.length := by
  induction l with
  | nil => simp
  | cons a t ih =>
    by_cases h : p a
    · simp [h]; omega
    · simp [h]

def res (st : VState) : Bool := !st.err && st.digit

theorem validateLoop_err (f : Nat) (s : List Nat) (st : VState) (h : st.err = true) :
    validateLoop f s st = st := by
  cases f with
  | zero => rfl
  | succ f => cases s with
    | nil => rfl
    | cons c t => simp [validateLoop, h]

/-- after trailing whitespace: only the end of the string is acceptable -/
theorem res_ws (f : Nat) (s : List Nat) (st : VState) (hw : st.ws = true) (he : st.err = false)
    (hl : s.length ≤ f) : res (validateLoop f s st) = (s.isEmpty && st.digit) := by
  cases s with
  | nil => cases f <;> simp [validateLoop, res, he]
  | cons c t =>
    cases f with
    | zero => simp at hl
    | succ f =>
      simp only [validateLoop, he, hw]
      simp [res]

theorem isDigit_not_dot : isDigit cDot = false := by decide
theorem isDigit_not_minus : isDigit cMinus = false := by decide
theorem isWs_not_dot : isWs cDot = false := by decide
theorem isWs_not_minus : isWs cMinus = false := by decide
theorem isWs_not_digit (c : Nat) (h : isDigit c = true) : isWs c = false := by
  simp [isDigit, isWs] at *; omega

theorem dropWhile_nil_iff_all (p : Nat → Bool) (l : List Nat) : (l.dropWhile p).isEmpty = l.all p := by
  induction l with
  | nil => rfl
  | cons a t ih => by_cases h : p a <;> simp [h, ih]

/-- in the fraction part (decimal point seen, no whitespace yet) -/
theorem res_frac (f : Nat) : ∀ (s : List Nat) (st : VState), st.dp = true → st.ws = false → st.err = false →
    s.length ≤ f → res (validateLoop f s st) = fracSpec st.digit s := by
  induction f with
  | zero =>
    intro s st _ _ he hl
    have : s = [] := by cases s <;> simp_all
    subst this; simp [validateLoop, res, fracSpec, he]
  | succ f ih =>
    intro s st hd hw he hl
    cases s with
    | nil => simp [validateLoop, res, fracSpec, he]
    | cons c t =>
      simp only [List.length_cons] at hl
      simp only [validateLoop, he, hd, hw]
      by_cases h1 : c = cDot
      · subst h1; simp [res, fracSpec, isDigit_not_dot, isWs_not_dot]
      · by_cases h2 : c = cMinus
        · subst h2; simp [res, fracSpec, isDigit_not_minus, isWs_not_minus]
        · by_cases h3 : isDigit c = true
          · have hl' : (t.dropWhile isDigit).length ≤ f := by
              have := length_dropWhile_le isDigit t; omega
            simp [h1, h2, h3]
            rw [ih _ _ (by simp [hd]) (by simp [hw]) (by simp [he]) hl']
            simp [fracSpec, h3, dropWhile_idem]
          · by_cases h4 : isWs c = true
            · have hl' : (t.dropWhile isWs).length ≤ f := by
                have := length_dropWhile_le isWs t; omega
              simp [h1, h2, h3, h4]
              rw [res_ws _ _ _ (by simp) (by simp [he]) hl']
              simp [fracSpec, h3, h4, dropWhile_nil_iff_all, Bool.and_comm]
            · simp [h1, h2, h3, h4, res, fracSpec]

def intSpec (s : List Nat) : Bool :=
  match s.dropWhile isDigit with
  | [] => true
  | c :: t => if c = cDot then fracSpec true t else (c :: t).all isWs

/-- in the integer part (a digit seen, no point, no whitespace yet) -/
theorem res_int (f : Nat) : ∀ (s : List Nat) (st : VState), st.digit = true → st.dp = false → st.ws = false →
    st.err = false → s.length ≤ f → res (validateLoop f s st) = intSpec s := by
  induction f with
  | zero =>
    intro s st hg _ _ he hl
    have : s = [] := by cases s <;> simp_all
    subst this; simp [validateLoop, res, intSpec, he, hg]
  | succ f ih =>
    intro s st hg hd hw he hl
    cases s with
    | nil => simp [validateLoop, res, intSpec, he, hg]
    | cons c t =>
      simp only [List.length_cons] at hl
      simp only [validateLoop, he, hd, hw, hg]
      by_cases h1 : c = cDot
      · subst h1
        simp [isDigit_not_dot, intSpec]
        rw [res_frac f t _ (by simp) (by simp [hw]) (by simp [he]) (by omega)]
      · by_cases h2 : c = cMinus
        · subst h2; simp [res, intSpec, isDigit_not_minus, isWs_not_minus, h1]
        · by_cases h3 : isDigit c = true
          · have hl' : (t.dropWhile isDigit).length ≤ f := by
              have := length_dropWhile_le isDigit t; omega
            simp [h1, h2, h3]
            rw [ih _ _ (by simp) (by simp [hd]) (by simp [hw]) (by simp [he]) hl']
            simp [intSpec, h3, dropWhile_idem]
          · by_cases h4 : isWs c = true
            · have hl' : (t.dropWhile isWs).length ≤ f := by
                have := length_dropWhile_le isWs t; omega
              simp [h1, h2, h3, h4]
              rw [res_ws _ _ _ (by simp) (by simp [he]) hl']
              simp [intSpec, h1, h3, h4, hg, dropWhile_nil_iff_all]
            · simp [h1, h2, h3, h4, res, intSpec]

theorem intSpec_eq_bodySpec (c : Nat) (t : List Nat) (h : isDigit c = true) :
    intSpec (t.dropWhile isDigit) = bodySpec (c :: t) := by
  simp [intSpec, bodySpec, h, dropWhile_idem]
  split <;> simp_all

/-- before the number proper (nothing but possibly a '-' consumed) -/
theorem res_body (f : Nat) (c : Nat) (t : List Nat) (st : VState) (hg : st.digit = false) (hd : st.dp = false)
    (hw : st.ws = false) (he : st.err = false) (hl : t.length ≤ f) :
    res (validateLoop (f + 1) (c :: t) st) =
      if c = cMinus then (!st.minus && res (validateLoop f t { st with minus := true }))
      else bodySpec (c :: t) := by
  simp only [validateLoop, he, hd, hw, hg]
  by_cases h1 : c = cDot
  · subst h1
    have : cDot ≠ cMinus := by decide
    simp [isDigit_not_dot, bodySpec, this]
    rw [res_frac f t _ (by simp) (by simp [hw]) (by simp [he]) (by omega)]
  · by_cases h2 : c = cMinus
    · subst h2
      cases hm : st.minus <;> simp [res, hm, h1]
    · by_cases h3 : isDigit c = true
      · have hl' : (t.dropWhile isDigit).length ≤ f := by
          have := length_dropWhile_le isDigit t; omega
        simp [h1, h2, h3]
        rw [res_int f _ _ (by simp) (by simp [hd]) (by simp [hw]) (by simp [he]) hl']
        exact intSpec_eq_bodySpec c t h3
      · by_cases h4 : isWs c = true
        · have hl' : (t.dropWhile isWs).length ≤ f := by
            have := length_dropWhile_le isWs t; omega
          simp [h1, h2, h3, h4]
          rw [res_ws _ _ _ (by simp) (by simp [he]) hl']
          simp [bodySpec, h1, h3, hg]
        · simp [h1, h2, h3, h4, res, bodySpec]

theorem doValidate_eq_matchesNumber (s : List Nat) : doValidate s = matchesNumber s := by
  unfold doValidate doValidate2 matchesNumber
  have hl := length_dropWhile_le isWs s
  show res (validateLoop (s.length + 1) (s.dropWhile isWs) {}) = _
  generalize s.dropWhile isWs = s1 at hl ⊢
  cases s1 with
  | nil => rfl
  | cons c t =>
    simp only [List.length_cons] at hl
    rw [res_body _ _ _ _ rfl rfl rfl rfl (by omega)]
    by_cases h2 : c = cMinus
    · subst h2
      simp only [if_true]
      cases t with
      | nil => cases s.length <;> simp [bodySpec, validateLoop, res]
      | cons d u =>
        obtain ⟨n, hn⟩ : ∃ n, s.length = n + 1 := ⟨s.length - 1, by simp at hl; omega⟩
        rw [hn]
        rw [res_body _ _ _ _ rfl rfl rfl rfl (by simp at hl; omega)]
        by_cases h3 : d = cMinus
        · subst h3
          have hd : isDigit cMinus = false := by decide
          have hw : isWs cMinus = false := by decide
          have hne : cMinus ≠ cDot := by decide
          simp [bodySpec, hd, hw, hne]
        · simp [h3]
    · simp [h2]

open Dbl

theorem dropWhile_append_all (p : Nat → Bool) (w r : List Nat) (h : ∀ c ∈ w, p c = true) :
    (w ++ r).dropWhile p = r.dropWhile p := by
  induction w with
  | nil => rfl
  | cons a t ih =>
    have ha : p a = true := h a (by simp)
    simp [ha, ih (fun c hc => h c (by simp [hc]))]

theorem takeWhile_append_all (p : Nat → Bool) (a b : List Nat) (ha : ∀ c ∈ a, p c = true)
    (hb : ∀ c ∈ b, p c = false) : (a ++ b).takeWhile p = a ∧ (a ++ b).dropWhile p = b := by
  induction a with
  | nil =>
    cases b with
    | nil => simp
    | cons c t => have := hb c (by simp); simp [this]
  | cons x t ih =>
    have hx : p x = true := ha x (by simp)
    have := ih (fun c hc => ha c (by simp [hc]))
    simp [hx, this.1, this.2]

theorem isDigit_of_isWs (c : Nat) (h : isWs c = true) : isDigit c = false := by
  cases hd : isDigit c with
  | false => rfl
  | true => have := isWs_not_digit c hd; simp [this] at h

theorem isWs_ne_dot (c : Nat) (h : isWs c = true) : c ≠ cDot := by
  intro hc; subst hc; simp [isWs_not_dot] at h

theorem isWs_ne_minus (c : Nat) (h : isWs c = true) : c ≠ cMinus := by
  intro hc; subst hc; simp [isWs_not_minus] at h

theorem isDigit_ne_minus (c : Nat) (h : isDigit c = true) : c ≠ cMinus := by
  intro hc; subst hc; simp [isDigit_not_minus] at h

theorem isDigit_ne_dot (c : Nat) (h : isDigit c = true) : c ≠ cDot := by
  intro hc; subst hc; simp [isDigit_not_dot] at h

/-- the decimal-point flag is only ever set by a '.' -/
theorem validateLoop_dp (f : Nat) : ∀ (s : List Nat) (st : VState), cDot ∉ s →
    (validateLoop f s st).dp = st.dp := by
  induction f with
  | zero => intro s st _; rfl
  | succ f ih =>
    intro s st hs
    cases s with
    | nil => rfl
    | cons c t =>
      have hc : c ≠ cDot := fun h => hs (by simp [h])
      have ht : cDot ∉ t := fun h => hs (by simp [h])
      have hsub : ∀ (p : Nat → Bool), cDot ∉ t.dropWhile p :=
        fun p h => ht ((List.dropWhile_sublist p).subset h)
      simp only [validateLoop, hc, if_false]
      split
      · rfl
      · split
        · split
          · rfl
          · rw [ih _ _ ht]
        · split
          · split
            · rfl
            · rw [ih _ _ (hsub _)]
          · split
            · split
              · rfl
              · rw [ih _ _ (hsub _)]
            · rfl

/-- the digit loop of `WideStringToIntegral` computes the value of the numeral -/
theorem wsToLongLoop_digits (ds w2 : List Nat) (hds : ∀ c ∈ ds, isDigit c = true)
    (hw : ∀ c ∈ w2, isWs c = true) : ∀ acc : Nat,
    wsToLongLoop (ds ++ w2) (acc : Int) = some ((ds.foldl (fun a c => a * 10 + (c - c0)) acc : Nat) : Int) := by
  induction ds with
  | nil =>
    intro acc
    cases w2 with
    | nil => rfl
    | cons c t =>
      have h1 := hw c (by simp)
      simp [wsToLongLoop, isDigit_of_isWs c h1, h1]
  | cons d t ih =>
    intro acc
    have hd := hds d (by simp)
    simp only [List.cons_append, wsToLongLoop, hd, if_true, List.foldl_cons]
    have := ih (fun c hc => hds c (by simp [hc])) (acc * 10 + (d - c0))
    rw [← this]
    congr 1

def numeralString (w1 : List Nat) (neg : Bool) (ds w2 : List Nat) : List Nat :=
  w1 ++ (if neg then [cMinus] else []) ++ ds ++ w2

theorem fast_path_K (keep : Bool) (threshold : Nat) (w1 : List Nat) (neg : Bool) (ds w2 : List Nat)
    (h1 : ∀ c ∈ w1, isWs c = true) (hds : ∀ c ∈ ds, isDigit c = true) (hne : ds ≠ [])
    (h2 : ∀ c ∈ w2, isWs c = true) (hlen : (numeralString w1 neg ds w2).length < threshold) :
    toDoubleK keep threshold (numeralString w1 neg ds w2) =
      (if keep && ((if neg then -(natOfDigits ds : Int) else (natOfDigits ds : Int)) == 0) then Dbl.zero neg
       else Dbl.ofInt (if neg then -(natOfDigits ds : Int) else (natOfDigits ds : Int))) := by
  obtain ⟨d0, dt, rfl⟩ : ∃ d0 dt, ds = d0 :: dt := by
    cases ds with
    | nil => exact absurd rfl hne
    | cons a b => exact ⟨a, b, rfl⟩
  have hd0 : isDigit d0 = true := hds d0 (by simp)
  have hw2d : ∀ c ∈ w2, isDigit c = false := fun c hc => isDigit_of_isWs c (h2 c hc)
  have hsplit := takeWhile_append_all isDigit (d0 :: dt) w2 hds hw2d
  -- no NUL in the string
  have hnz : ∀ c ∈ numeralString w1 neg (d0 :: dt) w2, c ≠ 0 := by
    intro c hc hz; subst hz
    simp only [numeralString, List.mem_append] at hc
    rcases hc with ((hc | hc) | hc) | hc
    · have := h1 0 hc; simp [isWs] at this
    · cases neg <;> simp [cMinus] at hc
    · have := hds 0 hc; simp [isDigit] at this
    · have := h2 0 hc; simp [isWs] at this
  have htake : (numeralString w1 neg (d0 :: dt) w2).takeWhile (· ≠ 0) = numeralString w1 neg (d0 :: dt) w2 := by
    generalize numeralString w1 neg (d0 :: dt) w2 = s at hnz
    induction s with
    | nil => rfl
    | cons c t ih =>
      have hc : c ≠ 0 := hnz c (by simp)
      simp only [List.takeWhile_cons, ne_eq, hc, not_false_eq_true, decide_true, if_true]
      rw [ih (fun d hd => hnz d (by simp [hd]))]
  -- after the leading whitespace
  have hdrop : (numeralString w1 neg (d0 :: dt) w2).dropWhile isWs = (if neg then [cMinus] else []) ++ (d0 :: dt) ++ w2 := by
    have : numeralString w1 neg (d0 :: dt) w2 = w1 ++ ((if neg then [cMinus] else []) ++ (d0 :: dt) ++ w2) := by
      simp [numeralString]
    rw [this, dropWhile_append_all isWs w1 _ h1]
    cases neg
    · simp [isWs_not_digit d0 hd0]
    · simp [isWs_not_minus]
  have hbody : bodySpec ((d0 :: dt) ++ w2) = true := by
    unfold bodySpec
    rw [hsplit.1, hsplit.2]
    cases w2 with
    | nil => simp
    | cons c t =>
      have hc := h2 c (by simp)
      have hall : (c :: t).all isWs = true := by
        simp only [List.all_eq_true]; exact h2
      simp only [isWs_ne_dot c hc, if_false, hall]; simp
  have hmatch : matchesNumber (numeralString w1 neg (d0 :: dt) w2) = true := by
    unfold matchesNumber
    rw [hdrop]
    cases neg
    · simp only [Bool.false_eq_true, if_false, List.nil_append, List.cons_append]
      rw [if_neg (isDigit_ne_minus d0 hd0)]
      exact hbody
    · simp only [if_true, List.cons_append, List.nil_append]
      exact hbody
  have hvalid : doValidate (numeralString w1 neg (d0 :: dt) w2) = true := by
    rw [doValidate_eq_matchesNumber]; exact hmatch
  have hnodot : cDot ∉ (numeralString w1 neg (d0 :: dt) w2).dropWhile isWs := by
    rw [hdrop]
    intro h
    simp only [List.mem_append] at h
    rcases h with (h | h) | h
    · cases neg <;> simp [cDot, cMinus] at h
    · exact isDigit_ne_dot _ (hds _ h) rfl
    · exact isWs_ne_dot _ (h2 _ h) rfl
  have hdp : (doValidate2 (numeralString w1 neg (d0 :: dt) w2)).2 = false := by
    unfold doValidate2
    simp only
    rw [validateLoop_dp _ _ _ hnodot]
  have hv2 : doValidate2 (numeralString w1 neg (d0 :: dt) w2) = (true, false) := by
    have : (doValidate2 (numeralString w1 neg (d0 :: dt) w2)).1 = true := hvalid
    cases hh : doValidate2 (numeralString w1 neg (d0 :: dt) w2) with
    | mk a b => rw [hh] at this hdp; simp at this hdp; rw [this, hdp]
  -- the conversion
  have hlong : wideStringToLong (numeralString w1 neg (d0 :: dt) w2) =
      (if neg then -(natOfDigits (d0 :: dt) : Int) else (natOfDigits (d0 :: dt) : Int)) := by
    unfold wideStringToLong
    simp only [hvalid, Bool.not_true, Bool.false_eq_true, if_false, hdrop]
    have hloop := wsToLongLoop_digits (d0 :: dt) w2 hds h2 0
    cases neg
    · simp only [Bool.false_eq_true, if_false, List.nil_append]
      have hh : ((d0 :: dt) ++ w2).head? = some d0 := rfl
      have hne' : (some d0 == some cMinus) = false := by
        simp [isDigit_ne_minus d0 hd0]
      simp only [hh, hne', Bool.false_eq_true, if_false]
      rw [show ((0 : Nat) : Int) = 0 from rfl] at hloop
      rw [hloop]; rfl
    · simp only [if_true, List.cons_append, List.nil_append, List.head?_cons, beq_self_eq_true, List.drop_succ_cons, List.drop_zero]
      rw [show ((0 : Nat) : Int) = 0 from rfl] at hloop
      rw [← List.cons_append, hloop]; rfl
  have hhead : (((numeralString w1 neg (d0 :: dt) w2).dropWhile isWs).head? == some cMinus) = neg := by
    rw [hdrop]
    cases neg
    · simp [isDigit_ne_minus d0 hd0]
    · simp
  unfold toDoubleK
  simp only [htake]
  have hne2 : (numeralString w1 neg (d0 :: dt) w2).isEmpty = false := by
    simp [numeralString]
  simp only [hne2, Bool.false_eq_true, if_false, hv2, Bool.not_true]
  unfold convertHelperK
  simp only [Bool.not_false, Bool.true_and, hlen, decide_true, if_true, hlong, hhead]

theorem fast_path (threshold : Nat) (w1 : List Nat) (neg : Bool) (ds w2 : List Nat)
    (h1 : ∀ c ∈ w1, isWs c = true) (hds : ∀ c ∈ ds, isDigit c = true) (hne : ds ≠ [])
    (h2 : ∀ c ∈ w2, isWs c = true) (hlen : (numeralString w1 neg ds w2).length < threshold) :
    toDoubleT threshold (numeralString w1 neg ds w2) =
      Dbl.ofInt (if neg then -(natOfDigits ds : Int) else (natOfDigits ds : Int)) := by
  have := fast_path_K false threshold w1 neg ds w2 h1 hds hne h2 hlen
  simpa [toDoubleT] using this


theorem bodySpec_digits (s2 : List Nat) (h : bodySpec s2 = true) :
    let ip := s2.takeWhile isDigit
    let r := s2.dropWhile isDigit
    let fp := if r.head? == some cDot then (r.drop 1).takeWhile isDigit else []
    (ip.isEmpty && fp.isEmpty) = false := by
  unfold bodySpec at h
  simp only
  cases hr : s2.dropWhile isDigit with
  | nil =>
    rw [hr] at h; simp only at h
    simp at h ⊢; exact h
  | cons c t =>
    rw [hr] at h; simp only at h
    by_cases hc : c = cDot
    · subst hc
      simp only [if_true, fracSpec, Bool.and_eq_true, Bool.or_eq_true] at h
      simp only [List.head?_cons, beq_self_eq_true, if_true, List.drop_succ_cons, List.drop_zero]
      rcases h.1 with h1 | h1
      · simp at h1; simp [h1]
      · simp at h1; simp [h1]
    · simp only [hc, if_false, Bool.and_eq_true] at h
      have := h.1; simp at this; simp [this]

theorem atof_path_K (keep : Bool) (threshold : Nat) (s : List Nat) (h0 : ∀ c ∈ s, c ≠ 0) (hm : matchesNumber s = true)
    (hslow : (doValidate2 s).2 = true ∨ threshold ≤ s.length) :
    toDoubleK keep threshold s = toDoubleSpec s := by
  have htake : s.takeWhile (· ≠ 0) = s := by
    clear hm hslow
    induction s with
    | nil => rfl
    | cons c t ih =>
      have hc : c ≠ 0 := h0 c (by simp)
      simp only [List.takeWhile_cons, ne_eq, hc, not_false_eq_true, decide_true, if_true]
      rw [ih (fun d hd => h0 d (by simp [hd]))]
  have hne : s.isEmpty = false := by
    cases s with
    | nil => simp [matchesNumber] at hm
    | cons _ _ => rfl
  have hvalid : (doValidate2 s).1 = true := by
    have := doValidate_eq_matchesNumber s; unfold doValidate at this; rw [this]; exact hm
  have hconv : convertHelperK keep threshold s (doValidate2 s).2 = atofModel (s.dropWhile isWs) := by
    unfold convertHelperK
    rcases hslow with h | h
    · simp [h]
    · have : ¬ s.length < threshold := by omega
      simp [this]
  unfold toDoubleK
  simp only [htake, hne, Bool.false_eq_true, if_false]
  cases hd : doValidate2 s with
  | mk a b =>
    rw [hd] at hvalid hconv; simp only at hvalid hconv; subst hvalid
    simp only [Bool.not_true, Bool.false_eq_true, if_false, hconv]
    -- atof on the trimmed string = the specification
    unfold atofModel toDoubleSpec
    simp only [hm, Bool.not_true, Bool.false_eq_true, if_false, dropWhile_idem]
    -- the numeral has a digit
    have hbody : bodySpec (if ((s.dropWhile isWs).head? == some cMinus) = true then (s.dropWhile isWs).drop 1 else s.dropWhile isWs) = true := by
      unfold matchesNumber at hm
      cases hs : s.dropWhile isWs with
      | nil => rw [hs] at hm; simp at hm
      | cons c t =>
        rw [hs] at hm; simp only at hm
        by_cases hc : c = cMinus
        · subst hc; simpa using hm
        · simp only [hc, if_false] at hm
          simp [hc, hm]
    have := bodySpec_digits _ hbody
    simp only at this
    rw [this]
    simp


theorem atof_path (threshold : Nat) (s : List Nat) (h0 : ∀ c ∈ s, c ≠ 0) (hm : matchesNumber s = true)
    (hslow : (doValidate2 s).2 = true ∨ threshold ≤ s.length) :
    toDoubleT threshold s = toDoubleSpec s := atof_path_K false threshold s h0 hm hslow

end XalanModel.C18
