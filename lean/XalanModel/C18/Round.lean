import XalanModel.C18.Dbl
import XalanModel.Generated.C18_NumberConsts
/-!
# `DoubleSupport::round / floor / ceiling`  (DoubleSupport.cpp 702-770, DoubleSupport.hpp, as written)
`x + 0.5` is an IEEE addition (exact sum, one rounding).  `long(…)` truncates toward zero; both
uses are in range by the guards (`< LONG_MAX`, `> LONG_MIN` compared as doubles, i.e. ±2^63).
-/
namespace XalanModel.C18
open Dbl

def two63 : Dbl := .fin false (2^52) 11
def negTwo63 : Dbl := .fin true (2^52) 11

/-- `modf(v + 0.5, &intPart); return intPart;` -/
def modfRound (v : Dbl) : Dbl :=
  match Dbl.add v (half false) with
  | .fin n m e => if isInteger m e then .fin n m e else
      let t := truncInt n m e
      if t = 0 then zero n else Dbl.ofInt t
  | y => y

/-- `double(long(v))` for a finite `v` inside the range of `long` -/
def viaLong : Dbl → Dbl
  | .fin n m e => Dbl.ofInt (truncInt n m e)
  | y => y

/-- `DoubleSupport::round` as written before the repair (variant 0: `long(x + 0.5)`) -/
def roundV0 : Dbl → Dbl
  | .nan => .nan
  | .inf n => .inf n
  | .fin neg m e =>
    if m = 0 then zero false
    else if !neg then
      if ieeeLt (.fin neg m e) two63 then viaLong (Dbl.add (.fin neg m e) (half false))
      else modfRound (.fin neg m e)
    else
      -- fracPart = modf(theValue, &intPart); fracPart == -0.5 ?
      let fracIsHalf : Bool :=
        e < 0 && (m % 2 ^ (-e).toNat) * 2 == 2 ^ (-e).toNat
      let adj := if fracIsHalf then Dbl.add (.fin neg m e) (half false) else Dbl.add (.fin neg m e) (half true)
      if ieeeLt negTwo63 adj then viaLong adj else modfRound adj

/-- `std::floor` -/
def floor : Dbl → Dbl
  | .fin neg m e =>
    if isInteger m e then .fin neg m e
    else let f := floorInt neg m e; if f = 0 then zero neg else Dbl.ofInt f
  | y => y

/-- `std::ceil` -/
def ceiling : Dbl → Dbl
  | .fin neg m e =>
    if isInteger m e then .fin neg m e
    else let f := floorInt neg m e + 1; if f = 0 then zero neg else Dbl.ofInt f
  | y => y

/-- integral part delivered by `std::modf` (exact; carries the sign of the argument, also when zero) -/
def modfInt : Dbl → Dbl
  | .fin n m e =>
    if isInteger m e then .fin n m e
    else let t := truncInt n m e; if t = 0 then zero n else Dbl.ofInt t
  | y => y

/-- `|fracPart| >= 0.5` / `> 0.5` for the (exact) fractional part delivered by `std::modf` -/
def fracGeHalf (m : Nat) (e : Int) : Bool := e < 0 && 2 * (m % 2 ^ (-e).toNat) ≥ 2 ^ (-e).toNat
def fracGtHalf (m : Nat) (e : Int) : Bool := e < 0 && 2 * (m % 2 ^ (-e).toNat) > 2 ^ (-e).toNat

/-- `DoubleSupport::round`, repaired form (proposed/C18-round.diff):
`x == 0 → x;  x > 0 → frac >= 0.5 ? ceil(x) : intPart;  x < 0 → frac < -0.5 ? floor(x) : intPart` -/
def roundV1 : Dbl → Dbl
  | .nan => .nan
  | .inf n => .inf n
  | .fin neg m e =>
    if m = 0 then .fin neg m e
    else if !neg then (if fracGeHalf m e then ceiling (.fin neg m e) else modfInt (.fin neg m e))
    else (if fracGtHalf m e then floor (.fin neg m e) else modfInt (.fin neg m e))

/-- `DoubleSupport::round` of the current source: the translator recognises which of the two
transcribed forms the function body has (`Generated.C18.roundVariant`) -/
def round (x : Dbl) : Dbl := if Generated.C18.roundVariant = 1 then roundV1 x else roundV0 x

/-! ### specification (XPath 1.0 §4.4) -/

/-- `⌊x + 1/2⌋` for a finite value, exact -/
def roundInt (neg : Bool) (m : Nat) (e : Int) : Int :=
  if e ≥ 0 then truncInt neg m e
  else
    -- x + 1/2 = (±2m + 2^(-e)) / 2^(-e+1)
    let p : Nat := 2 ^ (-e).toNat
    let tm : Int := ((2 * m : Nat) : Int)
    let num : Int := (if neg then -tm else tm) + (p : Int)
    num.fdiv ((2 * p : Nat) : Int)

/-- round: the integer closest to the argument, ties toward +∞; NaN, ±∞, ±0 unchanged; an
argument in [-0.5, 0) gives -0. -/
def roundSpec : Dbl → Dbl
  | .fin neg m e =>
    if m = 0 then zero neg else
    let r := roundInt neg m e
    if r = 0 then zero neg else Dbl.ofInt r
  | y => y

/-- floor: the largest integer not greater than the argument (as IEEE: sign of zero kept) -/
def floorSpec : Dbl → Dbl
  | .fin neg m e =>
    if m = 0 then zero neg else
    let f := floorInt neg m e
    if f = 0 then zero false else Dbl.ofInt f
  | y => y

/-- ceiling: the smallest integer not less than the argument; an argument in (-1, 0) gives -0 -/
def ceilingSpec : Dbl → Dbl
  | .fin neg m e =>
    if m = 0 then zero neg else
    let c := -(floorInt (!neg) m e)
    if c = 0 then zero neg else Dbl.ofInt c
  | y => y

end XalanModel.C18
