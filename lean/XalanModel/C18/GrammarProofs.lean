import XalanModel.C18.ToDoubleProofs
/-! Helper lemmas for C18: the matcher `matchesNumber` accepts exactly the derivations of `NumberGrammar`. -/
set_option linter.unusedSimpArgs false
namespace XalanModel.C18

theorem all_takeWhile (p : Nat → Bool) (l : List Nat) : ∀ c ∈ l.takeWhile p, p c = true := by
  induction l with
  | nil => intro c hc; simp at hc
  | cons a t ih =>
    intro c hc
    by_cases ha : p a = true
    · simp only [List.takeWhile_cons, ha, if_true] at hc
      rcases List.mem_cons.mp hc with rfl | hc
      · exact ha
      · exact ih c hc
    · simp [List.takeWhile_cons, ha] at hc

theorem takeWhile_append_stop (p : Nat → Bool) (a : List Nat) (c : Nat) (rest : List Nat)
    (ha : ∀ x ∈ a, p x = true) (hc : p c = false) :
    (a ++ c :: rest).takeWhile p = a ∧ (a ++ c :: rest).dropWhile p = c :: rest := by
  induction a with
  | nil => simp [hc]
  | cons x t ih =>
    have hx : p x = true := ha x (by simp)
    have := ih (fun y hy => ha y (by simp [hy]))
    simp [hx, this.1, this.2]

theorem isEmpty_false_iff (l : List Nat) : (!l.isEmpty) = true ↔ l ≠ [] := by
  cases l <;> simp

theorem grammar_of_matches (s : List Nat) (h : matchesNumber s = true) : NumberGrammar s := by
  unfold matchesNumber at h
  have hsplit : s = s.takeWhile isWs ++ s.dropWhile isWs := (List.takeWhile_append_dropWhile).symm
  have hw1 := all_takeWhile isWs s
  generalize s.takeWhile isWs = w1 at hsplit hw1
  generalize s.dropWhile isWs = s1 at hsplit h
  subst hsplit
  -- body
  have body : ∀ s2, bodySpec s2 = true → ∃ ip tail w2, s2 = ip ++ tail ++ w2 ∧ (∀ c ∈ w2, isWs c = true) ∧
      (∀ c ∈ ip, isDigit c = true) ∧
      ((tail = [] ∧ ip ≠ []) ∨ ∃ fp, tail = cDot :: fp ∧ (∀ c ∈ fp, isDigit c = true) ∧ (ip ≠ [] ∨ fp ≠ [])) := by
    intro s2 hb
    unfold bodySpec at hb
    have hs2 : s2 = s2.takeWhile isDigit ++ s2.dropWhile isDigit := (List.takeWhile_append_dropWhile).symm
    have hip := all_takeWhile isDigit s2
    generalize s2.takeWhile isDigit = ip at hs2 hip hb
    generalize s2.dropWhile isDigit = r at hs2 hb
    subst hs2
    cases r with
    | nil =>
      simp only at hb
      exact ⟨ip, [], [], by simp, by simp, hip, Or.inl ⟨rfl, (isEmpty_false_iff ip).mp hb⟩⟩
    | cons c t =>
      simp only at hb
      by_cases hc : c = cDot
      · subst hc
        simp only [if_true, fracSpec, Bool.and_eq_true, Bool.or_eq_true] at hb
        have ht : t = t.takeWhile isDigit ++ t.dropWhile isDigit := (List.takeWhile_append_dropWhile).symm
        have hfp := all_takeWhile isDigit t
        refine ⟨ip, cDot :: t.takeWhile isDigit, t.dropWhile isDigit, ?_, ?_, hip, Or.inr ⟨_, rfl, hfp, ?_⟩⟩
        · simp only [List.append_assoc, List.cons_append]; rw [← ht]
        · have := hb.2; simpa [List.all_eq_true] using this
        · rcases hb.1 with h1 | h1
          · exact Or.inl ((isEmpty_false_iff ip).mp h1)
          · exact Or.inr ((isEmpty_false_iff _).mp h1)
      · simp only [hc, if_false, Bool.and_eq_true] at hb
        refine ⟨ip, [], c :: t, by simp, ?_, hip, Or.inl ⟨rfl, (isEmpty_false_iff ip).mp hb.1⟩⟩
        have := hb.2; simpa [List.all_eq_true] using this
  cases s1 with
  | nil => simp at h
  | cons c t =>
    simp only at h
    by_cases hc : c = cMinus
    · subst hc
      simp only [if_true] at h
      obtain ⟨ip, tail, w2, rfl, hw2, hip, ht⟩ := body t h
      exact ⟨w1, [cMinus], ip, tail, w2, by simp, hw1, hw2, Or.inr rfl, hip, ht⟩
    · simp only [hc, if_false] at h
      obtain ⟨ip, tail, w2, he, hw2, hip, ht⟩ := body (c :: t) h
      exact ⟨w1, [], ip, tail, w2, by rw [he]; simp, hw1, hw2, Or.inl rfl, hip, ht⟩

theorem bodySpec_of_parts (ip tail w2 : List Nat) (hw2 : ∀ c ∈ w2, isWs c = true)
    (hip : ∀ c ∈ ip, isDigit c = true)
    (ht : (tail = [] ∧ ip ≠ []) ∨ ∃ fp, tail = cDot :: fp ∧ (∀ c ∈ fp, isDigit c = true) ∧ (ip ≠ [] ∨ fp ≠ [])) :
    bodySpec (ip ++ tail ++ w2) = true := by
  have hw2d : ∀ c ∈ w2, isDigit c = false := fun c hc => isDigit_of_isWs c (hw2 c hc)
  have hall : w2.all isWs = true := by simp only [List.all_eq_true]; exact hw2
  unfold bodySpec
  rcases ht with ⟨rfl, hne⟩ | ⟨fp, rfl, hfp, hne⟩
  · have := takeWhile_append_all isDigit ip w2 hip hw2d
    simp only [List.append_nil]
    rw [this.1, this.2]
    cases w2 with
    | nil => simpa using hne
    | cons c t =>
      have hc := hw2 c (by simp)
      simp only [isWs_ne_dot c hc, if_false, hall, Bool.and_true]
      simpa using hne
  · have hdd : isDigit cDot = false := by decide
    have := takeWhile_append_stop isDigit ip cDot (fp ++ w2) hip hdd
    have heq : ip ++ cDot :: fp ++ w2 = ip ++ cDot :: (fp ++ w2) := by simp
    rw [heq, this.1, this.2]
    simp only [if_true, fracSpec]
    have h2 := takeWhile_append_all isDigit fp w2 hfp hw2d
    rw [h2.1, h2.2, hall]
    rcases hne with h | h
    · have : (!ip.isEmpty) = true := (isEmpty_false_iff ip).mpr h
      simp [this]
    · have : (!fp.isEmpty) = true := (isEmpty_false_iff fp).mpr h
      simp [this]

theorem matches_of_grammar (s : List Nat) (h : NumberGrammar s) : matchesNumber s = true := by
  obtain ⟨w1, sg, ip, tail, w2, rfl, hw1, hw2, hsg, hip, ht⟩ := h
  have hb := bodySpec_of_parts ip tail w2 hw2 hip ht
  unfold matchesNumber
  have : w1 ++ sg ++ ip ++ tail ++ w2 = w1 ++ (sg ++ (ip ++ tail ++ w2)) := by simp
  rw [this, dropWhile_append_all isWs w1 _ hw1]
  rcases hsg with rfl | rfl
  · -- no sign: the body starts with a digit or the point
    simp only [List.nil_append]
    cases hbody : ip ++ tail ++ w2 with
    | nil => rw [hbody] at hb; simp [bodySpec] at hb
    | cons c t =>
      have hcw : isWs c = false := by
        cases ip with
        | cons d dt =>
          simp at hbody; rw [← hbody.1]; exact isWs_not_digit d (hip d (by simp))
        | nil =>
          rcases ht with ⟨_, hne⟩ | ⟨fp, rfl, _, _⟩
          · exact absurd rfl hne
          · simp at hbody; rw [← hbody.1]; exact isWs_not_dot
      have hcm : c ≠ cMinus := by
        cases ip with
        | cons d dt =>
          simp at hbody; rw [← hbody.1]; exact isDigit_ne_minus d (hip d (by simp))
        | nil =>
          rcases ht with ⟨_, hne⟩ | ⟨fp, rfl, _, _⟩
          · exact absurd rfl hne
          · simp at hbody; rw [← hbody.1]; decide
      simp only [List.dropWhile_cons, hcw, Bool.false_eq_true, if_false, hcm]
      rw [← hbody]; exact hb
  · simp only [List.cons_append, List.nil_append, List.dropWhile_cons, isWs_not_minus, Bool.false_eq_true, if_false, if_true]
    exact hb

theorem matchesNumber_iff_grammar (s : List Nat) : matchesNumber s = true ↔ NumberGrammar s :=
  ⟨grammar_of_matches s, matches_of_grammar s⟩


end XalanModel.C18
