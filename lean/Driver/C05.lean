import XalanModel.C05.Sax
import XalanModel.C05.Stream
import XalanModel.C05.Target
import XalanModel.C05.Index
import XalanModel.C05.StreamHold
import XalanModel.C05.Wrapper
import XalanModel.C05.XDom
import XalanModel.C05.PIScan
import Driver.Util
/-
xm_c05: replays the request lines of harness/c05_core.cpp on the Lean models.
  sax <ev>...                              -> ok <dump> ord=1 | err hierarchy | err null | err unbalanced
  out <bufsize> <budget|-> <fh 0|1> <op>... -> <k:<bytes>|F>... | ok|exc
  data <bytes>                             -> C string of capiData
With `--spec` as first argument the `sax` reply is computed from the *specification*
(`normDoc` of the event stream read back as a forest) instead of the state machine.
-/
open XalanModel.C05

namespace Driver.C05

def hex2 (n : Nat) : String :=
  let d (k : Nat) : Char := (if k < 10 then Char.ofNat (48 + k) else Char.ofNat (87 + k))
  String.ofList [d (n / 16 % 16), d (n % 16)]

def hexOfBytes (l : List Nat) : String := if l.isEmpty then "-" else String.join (l.map hex2)

def bytesOfHex (s : String) : Option (List Nat) :=
  if s = "-" then some [] else
  let cs := s.toList
  if cs.length % 2 ≠ 0 then none else
  let rec go (fuel : Nat) (cs : List Char) (acc : List Nat) : Option (List Nat) :=
    match fuel, cs with
    | _, [] => some acc.reverse
    | 0, _ => none
    | f+1, a :: b :: rest =>
      match Driver.hexDigit a, Driver.hexDigit b with
      | some x, some y => go f rest ((x * 16 + y) :: acc)
      | _, _ => none
    | _, _ => none
  go (cs.length + 1) cs []

def parseAttr (s : String) : Option (Str × Str) :=
  match s.splitOn "=" with
  | [n, v] => do let n ← Driver.unitsOfHex n; let v ← Driver.unitsOfHex v; pure (n, v)
  | _ => none

def parseEv (s : String) : Option Ev :=
  match s.splitOn ":" with
  | "S" :: n :: attrs => do
    let n ← Driver.unitsOfHex n
    let as ← attrs.mapM parseAttr
    pure (.startElement n as)
  | ["E"] => some .endElement
  | ["C", t] => (Driver.unitsOfHex t).map .characters
  | ["W", t] => (Driver.unitsOfHex t).map .ignorableWhitespace
  | ["M", t] => (Driver.unitsOfHex t).map .comment
  | ["P", t, d] => do let t ← Driver.unitsOfHex t; let d ← Driver.unitsOfHex d; pure (.pi t d)
  | ["D"] => some .startDTD
  | ["d"] => some .endDTD
  | _ => none

partial def dump : Forest → String
  | .nil => ""
  | .text s n => s!"t({Driver.hexOfUnits s};{if isWS s then 1 else 0})" ++ dump n
  | .iws s n => s!"t({Driver.hexOfUnits s};1)" ++ dump n
  | .comment s n => s!"m({Driver.hexOfUnits s})" ++ dump n
  | .pi t d n => s!"p({Driver.hexOfUnits t};{Driver.hexOfUnits d})" ++ dump n
  | .elem nm a k n =>
    "e(" ++ Driver.hexOfUnits nm ++ String.join (a.map fun (x, y) => s!";{Driver.hexOfUnits x}={Driver.hexOfUnits y}") ++
      ")[" ++ dump k ++ "]" ++ dump n

def showErr : Err → String
  | .hierarchy => "err hierarchy"
  | .nullParent => "err null"
  | .unbalanced => "err unbalanced"

/-- read a balanced event list back as a forest (for `--spec`): returns the forest and the rest -/
def toForest : Nat → List Ev → Option (Forest × List Ev)
  | 0, _ => none
  | _, [] => some (.nil, [])
  | fuel+1, e :: es =>
    match e with
    | .endElement => some (.nil, e :: es)
    | .characters s => (toForest fuel es).map fun (f, r) => (.text s f, r)
    | .ignorableWhitespace s => (toForest fuel es).map fun (f, r) => (.iws s f, r)
    | .comment s => (toForest fuel es).map fun (f, r) => (.comment s f, r)
    | .pi t d => (toForest fuel es).map fun (f, r) => (.pi t d f, r)
    | .startElement n a =>
      match toForest fuel es with
      | some (k, .endElement :: r) => (toForest fuel r).map fun (f, r') => (.elem n a k f, r')
      | _ => none
    | .startDTD | .endDTD => none

def saxReply (spec : Bool) (ws : List String) : String :=
  match ws.mapM parseEv with
  | none => "bad"
  | some evs =>
    if spec then
      match toForest (evs.length + 1) evs with
      | some (f, []) =>
        if TopOK f false then
          let t := normDoc f
          -- index of the last node in document order: the document node has 1, then one per node of the normal form
          "ok " ++ (if t = .nil then "-" else dump t) ++ s!" ord=1 max={1 + (preorder t).length}"
        else "spec-n/a"
      | _ => "spec-n/a"
    else
      match build true evs with
      | .ok t => "ok " ++ (if t = .nil then "-" else dump t) ++
          s!" ord=1 max={1 + (creationLog evs { accumulate := true }).length}"
      | .error e => showErr e

/-- `wrap`: a DOM built node by node from the events (no merging: a DOM keeps adjacent text nodes), wrapped eagerly.
reply: dump, `ord=1`, `max=` last index handed out by `wrapDocument` -/
def wrapReply (ws : List String) : String :=
  match ws.mapM parseEv with
  | none => "bad"
  | some evs =>
    match toForest (evs.length + 1) evs with
    | some (f, []) =>
      let w := wrapDocument f
      let mx := (w.map (·.2)).foldl max 1
      "ok " ++ (if f = .nil then "-" else dump f) ++ s!" ord=1 max={mx}"
    | _ => "bad"

def parseTEv (s : String) : Option TEv :=
  match s.splitOn ":" with
  | "S" :: n :: attrs => do
    let n ← Driver.unitsOfHex n
    let as ← attrs.mapM parseAttr
    pure (.startElement n as)
  | ["E"] => some .endElement
  | ["C", t] => (Driver.unitsOfHex t).map .characters
  | ["K", t] => (Driver.unitsOfHex t).map .cdata
  | ["R", t] => (Driver.unitsOfHex t).map .charactersRaw
  | ["W", t] => (Driver.unitsOfHex t).map .ignorableWhitespace
  | ["M", t] => (Driver.unitsOfHex t).map .comment
  | ["P", t, d] => do let t ← Driver.unitsOfHex t; let d ← Driver.unitsOfHex d; pure (.pi t d)
  | _ => none

/-- `fst`: the model of the code as written; with `--spec`: the same events with every CDATA section read as
character data (what every other result target delivers), i.e. the code with the proposed fix -/
def fstReply (spec : Bool) (ws : List String) : String :=
  match ws.mapM parseTEv with
  | none => "bad"
  | some evs =>
    match tbuild spec evs with
    | .ok t => "ok " ++ (if t = .nil then "-" else dump t) ++ " ord=1"
    | .error e => showErr e

/-- `xdom`: FormatterToXercesDOM into an empty DOM document -/
def xdomReply (ws : List String) : String :=
  match ws.mapM parseTEv with
  | none => "bad"
  | some evs =>
    match xbuild evs with
    | .ok t => "ok " ++ (if t = .nil then "-" else dump t)
    | .error e => showErr e

/-- `pi`: the href chosen by the xml-stylesheet scan (as written; with --spec: with proposed/C05-pi-scan.diff) -/
def piReply (fixed : Bool) (ws : List String) : String :=
  let kids : Option (List PI.Child) := ws.mapM fun w =>
    match w.splitOn ":" with
    | ["X", d] => (Driver.unitsOfHex d).map some
    | ["O"] => some none
    | ["M"] => some none
    | _ => none
  match kids with
  | none => "bad"
  | some ks =>
    match PI.chosen fixed ks with
    | some h => "href " ++ Driver.hexOfUnits h
    | none => "none"

def parseOp (s : String) : Option WOp :=
  match s.splitOn ":" with
  | ["w", t] => (Driver.unitsOfHex t).map .wide
  | ["c", t] => match Driver.unitsOfHex t with
    | some [c] => some (.wideChar c)
    | _ => none
  | ["n", t] => (bytesOfHex t).map .narrow
  | ["f"] => some .flush
  | ["u"] => some .setUtf16
  | _ => none

/-- TranscodeToLocalCodePage on ASCII: one byte per unit -/
def trAscii (s : List Nat) : Bytes := s

def showLog (l : List Out) : String :=
  String.join (l.map fun | .chunk b => "k:" ++ hexOfBytes b ++ " " | .flushed => "F ")

def outReply (fixed : Bool) (ws : List String) : String :=
  match ws with
  | bs :: bud :: fh :: ops0 =>
    -- a leading `e` selects the UTF-8 transcoder (setOutputEncoding("UTF-8") on the empty stream writes nothing)
    let utf8 := ops0.head? == some "e"
    let ops := if utf8 then ops0.drop 1 else ops0
    let trAscii := if utf8 then trUtf8 else trAscii
    let wrun := if fixed then wrunH else wrun
    match bs.toNat?, (if bud = "-" then some none else bud.toNat?.map some), ops.mapM parseOp with
    | some bs, some bud, some ops =>
      let st : WSt := { bufSize := if bs = 0 then 1 else bs, budget := bud, hasFlushHandler := fh = "1" }
      -- the harness ends every history with an explicit flush (the serializer's endDocument), then the
      -- print writer's destructor flushes once more
      let st := wrun trAscii (ops ++ [.flush]) st
      let fin := st.close trAscii
      showLog fin.log ++ "| " ++ (if st.failed then "exc" else "ok")
    | _, _, _ => "bad"
  | _ => "bad"

def step (spec : Bool) (s : Unit) : List String → Unit × String
  | "sax" :: ws => (s, saxReply spec ws)
  -- `out`: the stream as written; with --spec: with proposed/C05-text-surrogate-split.diff (hold-back) applied
  | "out" :: ws => (s, outReply spec ws)
  | "fst" :: ws => (s, fstReply spec ws)
  | "wrap" :: ws => (s, wrapReply ws)
  | "xdom" :: ws => (s, xdomReply ws)
  | "pi" :: ws => (s, piReply spec ws)
  | ["data", h] => (s, match bytesOfHex h with
      | some b => hexOfBytes (cstr (capiData b))
      | none => "bad")
  | _ => (s, "bad")

end Driver.C05

def main (args : List String) : IO Unit :=
  Driver.run () (Driver.C05.step (args.contains "--spec"))
