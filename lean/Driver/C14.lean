import XalanModel.C14.Stylesheet
import XalanModel.Generated.C14_Variant
import Driver.Util
/-
xm_c14: runs generated stylesheets (as instruction trees) on the Lean model of the result-event machine.
Request (one case per line, blank-separated tokens, `-` = empty string, `#` = default prefix):
  case  := NDECL (p u)*  NEXCL p*  NALIAS (stylesheet-prefix result-prefix)*  NSETS (NATTR (name NSFLAG ns value)*)*  NMOD (parent NDECL (p u)* NEXCL p* NALIAS (sp rp)* NBODY INSTR*)*  SRC  NBODY INSTR*
  SRC   := name uri NATT (qname val)* NKIDS SRC*
  INSTR := L name NDECL (p u)* NATT (qname val)* NEXCL p* NUSE set* NBODY INSTR* | U NUSE set* (first child of E/Y) | K module (xsl:call-template of the module's template)
         | V k NBODY INSTR* (xsl:variable f<k> holding a result tree fragment) | CV k (xsl:copy-of select="$f<k>")
         | E name NSFLAG ns NBODY INSTR* | A name NSFLAG ns value | T | C k | CA k attr-qname | Y k NBODY INSTR*
Reply: `S name NATT (qname val)*` / `E name` / `T` events in order, then `|` and the branch tags;
       `BAD` (stylesheet would not compile), `ERR` (exception thrown), `bad` (unparsable request).
-/
open XalanModel.C14

namespace Driver.C14

def str (t : String) : String := if t = "-" then "" else t
def pfxOf (t : String) : String := if t = "#" || t = "-" then "" else t

def qn (t : String) : QN :=
  match t.splitOn ":" with
  | [l] => ⟨"", l⟩
  | p :: rest => ⟨p, ":".intercalate rest⟩
  | [] => ⟨"", ""⟩

abbrev P (α : Type) := List String → Option (α × List String)

def pNat : P Nat
  | t :: ts => t.toNat?.map (·, ts)
  | [] => none

partial def pMany {α : Type} (p : P α) : Nat → P (List α)
  | 0, ts => some ([], ts)
  | n + 1, ts => do
    let (a, ts) ← p ts
    let (as, ts) ← pMany p n ts
    pure (a :: as, ts)

def pCounted {α : Type} (p : P α) : P (List α) := fun ts => do
  let (n, ts) ← pNat ts
  pMany p n ts

def pNS : P NS
  | p :: u :: ts => some (⟨pfxOf p, str u⟩, ts)
  | _ => none

def pAtt : P Att
  | n :: v :: ts => some (⟨qn n, str v⟩, ts)
  | _ => none

def pAlias : P (String × String)
  | a :: b :: ts => some ((pfxOf a, pfxOf b), ts)
  | _ => none

def pSetAttr : P SetAttr
  | name :: flag :: ns :: value :: ts =>
    some (⟨qn name, if flag = "1" then some (str ns) else none, str value⟩, ts)
  | _ => none

def pPfx : P String
  | p :: ts => some (pfxOf p, ts)
  | [] => none

partial def pSrc : P Src
  | name :: uri :: ts => do
    let (atts, ts) ← pCounted pAtt ts
    let (kids, ts) ← pCounted pSrc ts
    pure (.elem (qn name) (str uri) atts kids, ts)
  | _ => none

partial def pInstr : P Instr
  | "T" :: ts => some (.text, ts)
  | "K" :: k :: ts => k.toNat?.map (fun k => (.call k [], ts))
  | "CV" :: k :: ts => k.toNat?.map (fun k => (.copyVar k, ts))
  | "V" :: k :: ts => do
    let k ← k.toNat?
    let (body, ts) ← pCounted pInstr ts
    pure (.rtfVar k body, ts)
  | "U" :: ts => do
    let (ks, ts) ← pCounted pNat ts
    pure (.useSets ks, ts)
  | "C" :: k :: ts => k.toNat?.map (fun k => (.copyOf k, ts))
  | "CA" :: k :: name :: ts => k.toNat?.map (fun k => (.copyAttr k (qn name), ts))
  | "Y" :: k :: ts => do
    let k ← k.toNat?
    let (body, ts) ← pCounted pInstr ts
    pure (.copy k body, ts)
  | "A" :: name :: flag :: ns :: value :: ts =>
    some (.attribute (qn name) (if flag = "1" then some (str ns) else none) (str value), ts)
  | "E" :: name :: flag :: ns :: ts => do
    let (body, ts) ← pCounted pInstr ts
    pure (.element (qn name) (if flag = "1" then some (str ns) else none) body, ts)
  | "L" :: name :: ts => do
    let (decls, ts) ← pCounted pNS ts
    let (atts, ts) ← pCounted pAtt ts
    let (excl, ts) ← pCounted pPfx ts
    let (use, ts) ← pCounted pNat ts
    let (body, ts) ← pCounted pInstr ts
    pure (.lre (qn name) decls atts excl use body, ts)
  | _ => none

def showStr (s : String) : String := if s = "" then "-" else s

def showEv : Ev → String
  | .start n atts =>
    s!"S {n.str} {atts.length}" ++ String.join (atts.map fun a => s!" {a.name.str} {showStr a.val}")
  | .stop n => s!"E {n.str}"
  | .text => "T"

/-- one imported module: `parent NDECL (p u)* NEXCL p* NALIAS (sp rp)* NBODY INSTR*` -/
def pModule : P (Module × List Instr)
  | par :: ts => do
    let par ← par.toNat?
    let (decls, ts) ← pCounted pNS ts
    let (excl, ts) ← pCounted pPfx ts
    let (al, ts) ← pCounted pAlias ts
    let (body, ts) ← pCounted pInstr ts
    pure ((⟨par, decls, excl, al⟩, body), ts)
  | [] => none

mutual
/-- put the body of the called module's template into every `call` -/
def fillCalls (bodies : List (List Instr)) : Instr → Instr
  | .call k _ => .call k (bodies.getD k [])
  | .element n ns b => .element n ns (fillCallsList bodies b)
  | .lre n d a e u b => .lre n d a e u (fillCallsList bodies b)
  | .copy k b => .copy k (fillCallsList bodies b)
  | .rtfVar k b => .rtfVar k (fillCallsList bodies b)
  | i => i
def fillCallsList (bodies : List (List Instr)) : List Instr → List Instr
  | [] => []
  | i :: is => fillCalls bodies i :: fillCallsList bodies is
end

def runLine (ts : List String) : String :=
  match (do
    let (decls, ts) ← pCounted pNS ts
    let (excl, ts) ← pCounted pPfx ts
    let (al, ts) ← pCounted pAlias ts
    let (sets, ts) ← pCounted (pCounted pSetAttr) ts
    let (mods, ts) ← pCounted pModule ts
    let (src, ts) ← pSrc ts
    let (body, ts) ← pCounted pInstr ts
    if ts.isEmpty then pure (decls, excl, al, sets, mods, src, body) else none) with
  | none => "bad"
  | some (decls, excl, al, sets, mods, src, body) =>
    let all : List Module := ⟨0, decls, excl, al⟩ :: mods.map (·.1)
    -- module bodies contain no calls themselves; index 0 (main) is never called
    let bodies : List (List Instr) := [] :: mods.map (·.2)
    let r := runCase XalanModel.Generated.C14_Variant.variant all sets src (fillCallsList bodies body)
    if r.bad then "BAD"
    else if r.st.err then "ERR | " ++ " ".intercalate r.tags.reverse
    else " ".intercalate (r.st.out.reverse.map showEv) ++ " | " ++ " ".intercalate r.tags.reverse

def step (_ : Unit) (ts : List String) : Unit × String := ((), runLine ts)

end Driver.C14

def main : IO Unit := Driver.run () Driver.C14.step
