import XalanModel.C18.ToString
import XalanModel.C18.ToDouble
import XalanModel.C18.Round
import Driver.Util
/-
xm_c18: number <-> string conversions on the Lean model.
Requests (doubles = 16 hex digits of the bit pattern, strings = 4 hex digits per UTF-16 unit, "-" = empty):
  tostr <bits>     -> ok:<text> | mem            NumberToDOMString(double)
  tochr <bits>     -> ok:<text> | mem            DOMStringHelper::NumberToCharacters(double, …) (same code, its own buffers)
  todbl <units>    -> <bits>|nan / <spec bits>|nan    DoubleSupport::toDouble  / toDoubleSpec
  valid <units>    -> 0|1 / 0|1                  doValidate / matchesNumber
  round|floor|ceil <bits> -> <bits>|nan / <spec>  model / XPath 4.4 specification
  bound            -> 0|1   generatedBufferCoversAllDoubles (buffer inequality over the regenerated constants)
  xeval id|round|floor|ceiling|neg <units> -> <bits> <text>   y = fn (toDouble s) and numberToString y (expected values for the engine stream)
  xchain id|round|floor|ceiling <units> -> ok:<text>   numberToString (fn (toDouble s))
-/
open XalanModel.C18

namespace Driver.C18

def renderChars (l : List Nat) : String :=
  String.join (l.map fun c => if 33 ≤ c ∧ c ≤ 126 ∧ c ≠ 92 then String.singleton (Char.ofNat c) else "\\u" ++ Driver.hex4 c)

def b (x : Bool) : String := if x then "1" else "0"

def step (_ : Unit) : List String → Unit × String
  | ["tostr", h] => match Driver.parseHex h with
    | some n => match numberToString genCfg (Dbl.ofBits n) with
      | .ok s => ((), "ok:" ++ renderChars s)
      | .memErr => ((), "mem")
    | none => ((), "bad")
  | ["bound"] => ((), b generatedBufferCoversAllDoubles)
  | ["tochr", h] => match Driver.parseHex h with
    | some n => match numberToString { genCfg with buffer := XalanModel.Generated.C18.toCharactersBuffer } (Dbl.ofBits n) with
      | .ok s => if s.length + 1 > XalanModel.Generated.C18.toCharactersResult then ((), "mem") else ((), "ok:" ++ renderChars s)
      | .memErr => ((), "mem")
    | none => ((), "bad")
  | ["todbl", u] => match Driver.unitsOfHex u with
    | some s => ((), (toDouble s).render ++ " / " ++ (toDoubleSpec (s.takeWhile (· ≠ 0))).render)
    | none => ((), "bad")
  | ["valid", u] => match Driver.unitsOfHex u with
    | some s =>
      let s := s.takeWhile (· ≠ 0)    -- `isValid(const XalanDOMString&)` passes `c_str()`
      ((), b (doValidate s) ++ " / " ++ b (matchesNumber s))
    | none => ((), "bad")
  | ["round", h] => match Driver.parseHex h with
    | some n => ((), (round (Dbl.ofBits n)).render ++ " / " ++ (roundSpec (Dbl.ofBits n)).render)
    | none => ((), "bad")
  | ["floor", h] => match Driver.parseHex h with
    | some n => ((), (floor (Dbl.ofBits n)).render ++ " / " ++ (floorSpec (Dbl.ofBits n)).render)
    | none => ((), "bad")
  | ["ceil", h] => match Driver.parseHex h with
    | some n => ((), (ceiling (Dbl.ofBits n)).render ++ " / " ++ (ceilingSpec (Dbl.ofBits n)).render)
    | none => ((), "bad")
  | ["xeval", fn, u] => match Driver.unitsOfHex u with
    | some s =>
      let x := toDouble s
      let y := match fn with
        | "round" => some (round x) | "floor" => some (floor x) | "ceiling" => some (ceiling x)
        | "id" => some x
        | "neg" => some (match x with | .fin n m e => .fin (!n) m e | .inf n => .inf (!n) | .nan => .nan)
        | _ => none
      match y with
      | some y => match numberToString genCfg y with
        | .ok t => ((), y.render ++ " " ++ renderChars t)
        | .memErr => ((), y.render ++ " mem")
      | none => ((), "bad")
    | none => ((), "bad")
  | ["xchain", fn, u] => match Driver.unitsOfHex u with
    | some s =>
      let x := toDouble s
      let y := match fn with
        | "round" => some (round x) | "floor" => some (floor x) | "ceiling" => some (ceiling x)
        | "id" => some x | _ => none
      match y with
      | some y => match numberToString genCfg y with
        | .ok t => ((), "ok:" ++ renderChars t)
        | .memErr => ((), "mem")
      | none => ((), "bad")
    | none => ((), "bad")
  | _ => ((), "bad")

end Driver.C18

def main : IO Unit := Driver.run () Driver.C18.step
