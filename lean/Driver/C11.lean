import XalanModel.C11.Dispatch
import Driver.Util
/-
xm_c11: runs `evalAs Generated.table Generated.callee` (the interpreter driven by the regenerated
switch tables) through all six entry points.

Primitive operations are *facts* supplied by the check (taken from the generic evaluation and from
direct calls of the primitives in the harness), so the driver decides only what C11 is about:
which conversion is applied where.

  reset
  node <id> <hex name> <hex local-name> <hex string-value>
  fact n2s <bits> <hex> | fact s2n <hex> <bits> | fact ar <add|sub|mul|div|mod> <x> <y> <r>
       | fact un <neg|floor|ceil|round> <x> <r> | fact cmp <ne|eq|le|lt|ge|gt> <val> <val> <0|1>
  eval <node> <pos> <last> <hex buf> <expr…>      -> O=… B=… N=… S=… C=… L=…
  spec <node> <pos> <last> <hex buf> <expr…>      -> the same six fields computed as stdConv ep (eval e)
  table                                           -> total=<bool> incoherent=<ep:op,…>
Strings are hex of UTF-16 units (4 digits each, "-" empty); numbers are 16 hex digits of the IEEE bits.
-/
open XalanModel.C11
open XalanModel.Generated.C11 (Op)

namespace Driver.C11

abbrev N := Nat

structure St where
  n2s : List (Nat × Str) := []
  s2n : List (Str × Nat) := []
  ar : List (String × Nat × Nat × Nat) := []
  un : List (String × Nat × Nat) := []
  cmp : List (String × String × String × Bool) := []
  nodes : List (Nat × Str × Str × Str) := []

def missingN : Nat := 0xffffffffffffffff
def missingS (what : String) : Str := (what.toList.map Char.toNat) ++ [63]

def hex16 (n : Nat) : String :=
  let ds := (Nat.toDigits 16 n)
  String.ofList (List.replicate (16 - ds.length) '0' ++ ds)

def showIds (l : List Nat) : String :=
  if l.isEmpty then "-" else ".".intercalate (l.map toString)

def showVal : Val N → String
  | .bool b => if b then "b1" else "b0"
  | .num x => "n" ++ hex16 x
  | .str s => "s" ++ Driver.hexOfUnits s
  | .nodes l => "l" ++ showIds l
  | .rtf s => "r" ++ Driver.hexOfUnits s

def isNaN (x : Nat) : Bool := (x >>> 52) &&& 0x7ff == 0x7ff && (x &&& 0xfffffffffffff) != 0
def isZero (x : Nat) : Bool := (x &&& 0x7fffffffffffffff) == 0

/-- document-order insertion on node ids (ids are document-order numbers): sorted, duplicate-free merge -/
def insertId (x : Nat) : List Nat → List Nat
  | [] => [x]
  | y :: ys => if x < y then x :: y :: ys else if x == y then y :: ys else y :: insertId x ys

def nsAdd (acc l : List Nat) : List Nat := l.foldl (fun a x => insertId x a) acc

def lookup3 (l : List (String × Nat × Nat × Nat)) (k : String) (x y : Nat) : Nat :=
  match l.find? fun e => e.1 == k && e.2.1 == x && e.2.2.1 == y with
  | some e => e.2.2.2
  | none => missingN

def lookup2 (l : List (String × Nat × Nat)) (k : String) (x : Nat) : Nat :=
  match l.find? fun e => e.1 == k && e.2.1 == x with
  | some e => e.2.2
  | none => missingN

def cmpName : CmpOp → String
  | .ne => "ne" | .eq => "eq" | .le => "le" | .lt => "lt" | .ge => "ge" | .gt => "gt"

def prims (s : St) : Prims N where
  n2s x := match s.n2s.find? (·.1 == x) with | some e => e.2 | none => missingS "n2s"
  s2n t := match s.s2n.find? (·.1 == t) with | some e => e.2 | none => missingN
  b2n b := if b then 0x3ff0000000000000 else 0
  n2b x := !isNaN x && !isZero x
  cxxN2B x := !isZero x
  ofNat n := (Float.ofNat n).toBits.toNat
  add := lookup3 s.ar "add"
  sub := lookup3 s.ar "sub"
  mul := lookup3 s.ar "mul"
  div := lookup3 s.ar "div"
  mod := lookup3 s.ar "mod"
  neg := lookup2 s.un "neg"
  floor := lookup2 s.un "floor"
  ceil := lookup2 s.un "ceil"
  round := lookup2 s.un "round"
  cmp c a b := match s.cmp.find? fun e => e.1 == cmpName c && e.2.1 == showVal a && e.2.2.1 == showVal b with
    | some e => e.2.2.2
    | none => false
  nsAdd := nsAdd
  nodeStr n := match s.nodes.find? (·.1 == n) with | some e => e.2.2.2 | none => missingS "node"
  nodeName n := match s.nodes.find? (·.1 == n) with | some e => e.2.1 | none => missingS "node"
  nodeLName n := match s.nodes.find? (·.1 == n) with | some e => e.2.2.1 | none => missingS "node"

def parseIds (t : String) : Option (List Nat) :=
  if t == "-" then some [] else (t.splitOn ".").mapM String.toNat?

def parseVal (t : String) : Option (Val N) :=
  match t.toList with
  | 'b' :: r => if r == ['1'] then some (.bool true) else if r == ['0'] then some (.bool false) else none
  | 'n' :: r => (Driver.parseHex (String.ofList r)).map .num
  | 's' :: r => (Driver.unitsOfHex (String.ofList r)).map .str
  | 'l' :: r => (parseIds (String.ofList r)).map .nodes
  | 'r' :: r => (Driver.unitsOfHex (String.ofList r)).map .rtf
  | _ => none

def k1Of : String → Option K1
  | "neg" => some .neg | "group" => some .group | "count" => some .count | "not" => some .not
  | "boolean" => some .boolean | "name1" => some .name1 | "lname1" => some .lname1 | "floor" => some .floor
  | "ceiling" => some .ceiling | "round" => some .round | "number1" => some .number1
  | "strlen1" => some .strlen1 | "sum" => some .sum
  | _ => none

def k2Of : String → Option K2
  | "or" => some .or | "and" => some .and | "ne" => some .ne | "eq" => some .eq | "le" => some .le
  | "lt" => some .lt | "ge" => some .ge | "gt" => some .gt | "plus" => some .plus | "minus" => some .minus
  | "mult" => some .mult | "div" => some .div | "mod" => some .mod
  | _ => none

def listOf : List (Expr N) → ExprList N
  | [] => .nil
  | e :: es => .cons e (listOf es)

mutual
partial def parseExpr : List String → Option (Expr N × List String)
  | "lit" :: h :: r => (Driver.unitsOfHex h).map fun s => (.k0 (.literal s), r)
  | "num" :: h :: r => (Driver.parseHex h).map fun x => (.k0 (.numberlit x), r)
  | "var" :: v :: r =>
    if v == "none" then some (.k0 (.variable fun _ => none), r)
    else (parseVal v).map fun x => (.k0 (.variable fun _ => some x), r)
  | "path" :: ids :: r => (parseIds ids).map fun l => (.k0 (.locationPath fun _ => l), r)
  | "pos" :: r => some (.k0 .position, r)
  | "last" :: r => some (.k0 .last, r)
  | "true" :: r => some (.k0 .true, r)
  | "false" :: r => some (.k0 .false, r)
  | "name0" :: r => some (.k0 .name0, r)
  | "lname0" :: r => some (.k0 .lname0, r)
  | "number0" :: r => some (.k0 .number0, r)
  | "strlen0" :: r => some (.k0 .strlen0, r)
  | "k1" :: k :: r => do
    let kk ← k1Of k
    let (a, r1) ← parseExpr r
    pure (.k1 kk a, r1)
  | "k2" :: k :: r => do
    let kk ← k2Of k
    let (a, r1) ← parseExpr r
    let (b, r2) ← parseExpr r1
    pure (.k2 kk a b, r2)
  | "union" :: n :: r => do
    let (es, r1) ← parseMany (← n.toNat?) r
    pure (.kn .union (listOf es), r1)
  | "fn" :: v :: n :: r => do
    let res : Option (Val N) ← (if v == "none" then some none else (parseVal v).map some)
    let (es, r1) ← parseMany (← n.toNat?) r
    pure (.kn (.function fun _ _ => res) (listOf es), r1)
  | "ext" :: v :: n :: r => do
    let res : Option (Val N) ← (if v == "none" then some none else (parseVal v).map some)
    let (es, r1) ← parseMany (← n.toNat?) r
    pure (.kn (.extfunction fun _ _ => res) (listOf es), r1)
  | _ => none
partial def parseMany : Nat → List String → Option (List (Expr N) × List String)
  | 0, r => some ([], r)
  | n + 1, r => do
    let (e, r1) ← parseExpr r
    let (es, r2) ← parseMany n r1
    pure (e :: es, r2)
end

def showRes : Res N → String
  | .obj v => match v with
    | .bool b => if b then "b:1" else "b:0"
    | .num x => "n:" ++ hex16 x
    | .str s => "s:" ++ Driver.hexOfUnits s
    | .nodes l => "l:" ++ showIds l
    | .rtf s => "r:" ++ Driver.hexOfUnits s
  | .bool b => if b then "1" else "0"
  | .num x => hex16 x
  | .str s => Driver.hexOfUnits s
  | .chars s => Driver.hexOfUnits s
  | .nodes v l => (if v then "1:" else "0:") ++ showIds l
  | .err => "E"

def tags : List (String × EP) := [("O", .obj), ("B", .bool), ("N", .num), ("S", .str), ("C", .chars), ("L", .nodes)]

def six (f : EP → Res N) : String :=
  " ".intercalate (tags.map fun (t, ep) => t ++ "=" ++ showRes (f ep))

def evalLine (s : St) (useSpec : Bool) : List String → String
  | node :: pos :: last :: buf :: e =>
    match node.toNat?, pos.toNat?, last.toNat?, Driver.unitsOfHex buf, parseExpr e with
    | some node, some pos, some last, some buf, some (ex, []) =>
      let P := prims s
      let ctx : Ctx := ⟨node, pos, last⟩
      if useSpec then
        let v := eval P ctx ex
        six fun ep => convOpt P ep buf v
      else
        six fun ep => evalAs P XalanModel.Generated.C11.table XalanModel.Generated.C11.callee ctx ex ep buf
    | _, _, _, _, _ => "bad"
  | _ => "bad"

def step (s : St) : List String → St × String
  | ["reset"] => ({}, "ok")
  | ["node", i, a, b, c] =>
    match i.toNat?, Driver.unitsOfHex a, Driver.unitsOfHex b, Driver.unitsOfHex c with
    | some i, some a, some b, some c => ({ s with nodes := (i, a, b, c) :: s.nodes }, "ok")
    | _, _, _, _ => (s, "bad")
  | ["fact", "n2s", x, h] =>
    match Driver.parseHex x, Driver.unitsOfHex h with
    | some x, some h => ({ s with n2s := (x, h) :: s.n2s }, "ok")
    | _, _ => (s, "bad")
  | ["fact", "s2n", h, x] =>
    match Driver.unitsOfHex h, Driver.parseHex x with
    | some h, some x => ({ s with s2n := (h, x) :: s.s2n }, "ok")
    | _, _ => (s, "bad")
  | ["fact", "ar", k, x, y, r] =>
    match Driver.parseHex x, Driver.parseHex y, Driver.parseHex r with
    | some x, some y, some r => ({ s with ar := (k, x, y, r) :: s.ar }, "ok")
    | _, _, _ => (s, "bad")
  | ["fact", "un", k, x, r] =>
    match Driver.parseHex x, Driver.parseHex r with
    | some x, some r => ({ s with un := (k, x, r) :: s.un }, "ok")
    | _, _ => (s, "bad")
  | ["fact", "cmp", k, a, b, r] =>
    match parseVal a, parseVal b with
    | some va, some vb => ({ s with cmp := (k, showVal va, showVal vb, r == "1") :: s.cmp }, "ok")
    | _, _ => (s, "bad")
  | "eval" :: r => (s, evalLine s false r)
  | "spec" :: r => (s, evalLine s true r)
  | ["table"] =>
    let inc := incoherent XalanModel.Generated.C11.table XalanModel.Generated.C11.callee
    (s, s!"total={totalB XalanModel.Generated.C11.table} incoherent=" ++
      (if inc.isEmpty then "-" else ",".intercalate (inc.map fun p => p.1.name ++ ":" ++ p.2.name)))
  | _ => (s, "bad")

end Driver.C11

/-- like `Driver.loop`, but flushes after every reply: the check talks to this driver interactively
(facts derived from the implementation's replies are sent before each `eval`) -/
partial def Driver.C11.loop (h out : IO.FS.Stream) (s : Driver.C11.St) : IO Unit := do
  let line ← h.getLine
  if line.isEmpty then
    out.flush
    return ()
  let (s', reply) := Driver.C11.step s (Driver.splitWords line)
  out.putStrLn reply
  out.flush
  Driver.C11.loop h out s'

def main : IO Unit := do
  Driver.C11.loop (← IO.getStdin) (← IO.getStdout) {}
