import XalanModel.C19.Ledger
import XalanModel.C19.XVec
import XalanModel.C19.XList
import XalanModel.C19.Arena
import XalanModel.C19.XDeque
import XalanModel.C19.XBVec
import XalanModel.C19.RArena
import XalanModel.C19.AutoPtr
import XalanModel.C19.OStream
import XalanModel.C19.XMap
import XalanModel.C19.XBDeque
import XalanModel.C19.StrCache
import XalanModel.C19.XArr
import Driver.Util
/-
xm_c19: (a) replays container operation logs on the allocation-explicit models (same request lines as
harness/c19_containers.cpp), (b) evaluates the C19 specification predicate (`Ledger.Balanced` after
`Ledger.replayAll`) on event traces recorded from the real memory manager (harness/c19_memmgr.cpp).

Requests
  cfg <clearGuard> <nextInit>          model configuration (which XalanList behaviour the tree has)
  new <failAt>                         fresh manager / list / vector; the failAt-th request is refused
  l pushb|pushf <x> | l popf|popb|clear|empty|destroy
  v push <x> | v reserve <n> | v pop|clear|rtc|ctp|destroy
  ledger / alloc <id> / refuse / free <id> / end     trace mode (reply only at `end`)
-/
open XalanModel.C19

namespace Driver.C19

structure St where
  cfg : Cfg := Cfg.asWritten
  l : Ledger := {}
  list : XList := {}
  vec : XVec := {}
  created : List (Nat × Nat) := []     -- (object block, its sub-block) made by rtc / ctp
  arena : Option Arena := none
  skipPending : Bool := false
  deque : XDeque := { bs := 1 }
  bvec : XBVec := {}
  ap : APState := {}
  os : OStream := {}
  sc : StrCache.Run := {}
  aa : XArr := { bs := 1 }
  aaClearDestroys : Bool := false
  scEarly : Bool := false
  mp : XMap := { minB := 2 }
  dq : XBDeque := { bs := 1 }
  dropEmpty : Bool := false
  lateUnerase : Bool := false
  ra : RArena := { bs := 1 }
  raObjs : List (Option (Nat × Nat)) := []     -- objects in creation order: (block object id, slot); none = destroyed
  popNull : Bool := false
  dead : Bool := false
  trace : Option Ledger := none        -- trace mode: ledger so far (none = trace rejected)
  inTrace : Bool := false

def showOut : Out → String
  | .ok => "ok" | .oom => "oom" | .ub => "ub"

def tail (l : Ledger) (o : Out) (contents : String) : String :=
  s!"{showOut o} reqs={l.reqs} live={l.live.length} bad={l.bad} | {contents}"

def showList (s : XList) : String :=
  String.join (s.nodes.map fun n => s!"{n.2.val} ") ++ s!"free={s.free.length} head={if s.head.isSome then 1 else 0}"

def showVec (v : XVec) : String :=
  s!"{v.items.length} {v.cap} :" ++ String.join (v.items.map fun x => s!" {x}")

def listReply (s : St) (r : Out × XList × Ledger) : St × String :=
  ({ s with list := r.2.1, l := r.2.2, dead := r.1 == .ub }, tail r.2.2 r.1 (showList r.2.1))

def vecReply (s : St) (r : Out × XVec × Ledger) : St × String :=
  ({ s with vec := r.2.1, l := r.2.2, dead := r.1 == .ub }, tail r.2.2 r.1 (showVec r.2.1))

/-- `T::create(mgr)` of the harness: XalanConstruct of an object whose constructor allocates one block -/
def createThing (l : Ledger) : Option Nat × Ledger :=
  xalanConstruct (fun l1 => match l1.alloc with | (none, l2) => (false, l2) | (some _, l2) => (true, l2)) l

def idiomReply (s : St) (r : Out × XVec × Option Nat × Ledger) : St × String :=
  let created := match r.2.2.1 with | some o => (o, o + 1) :: s.created | none => s.created
  ({ s with vec := r.2.1, l := r.2.2.2, created := created }, tail r.2.2.2 r.1 (showVec r.2.1))

def showArena (a : Arena) (full : Bool) : String :=
  (if full then "full " else "") ++
  String.join (a.slots.map fun sl => match sl with | some (v, _) => s!"o{v} " | none => "- ") ++
  s!"cnt={a.count} pend={if a.pending then 1 else 0} ff={a.freeList.head?.getD a.size}"

def arenaStep (s : St) : List String → St × String
  | ["new", n] => match n.toNat? with
    | some n =>
      let r := Arena.create n s.l
      match r.1 with
      | some a => ({ s with arena := some a, l := r.2 }, tail r.2 .ok (showArena a false))
      | none => ({ s with arena := none, l := r.2 }, tail r.2 .oom "none")
    | none => (s, "bad")
  | ["create", x] => match x.toInt?, s.arena with
    | some x, some a =>
      let r := a.construct x s.l
      ({ s with arena := some r.2.2.1, l := r.2.2.2, dead := r.1 == .ub }, tail r.2.2.2 r.1 (showArena r.2.2.1 r.2.1))
    | _, _ => (s, "bad")
  | ["destroy", i] => match i.toNat?, s.arena with
    | some i, some a =>
      let r := a.destroyObject i s.l
      ({ s with arena := some r.2.1, l := r.2.2, dead := r.1 == .ub }, tail r.2.2 r.1 (showArena r.2.1 false))
    | _, _ => (s, "bad")
  | ["free"] => match s.arena with
    | some a =>
      let r := a.destroy s.skipPending s.l
      if r.1 == .ub then ({ s with dead := true }, tail s.l .ub (showArena a false))
      else ({ s with arena := none, l := r.2 }, tail r.2 .ok "destroyed")
    | none => (s, "bad")
  | _ => (s, "bad")

def showBVec (v : XBVec) : String :=
  s!"{v.elems.length} {v.cap} :" ++ String.join (v.elems.map fun x => s!" {x.1}")

def bvReply (s : St) (r : Out × XBVec × Ledger) : St × String :=
  ({ s with bvec := r.2.1, l := r.2.2, dead := r.1 == .ub }, tail r.2.2 r.1 (showBVec r.2.1))

def bvecStep (s : St) : List String → St × String
  | ["push", x] => match x.toInt? with
    | some x => bvReply s (s.bvec.pushBack false x s.l)
    | none => (s, "bad")
  | ["reserve", n] => match n.toNat? with
    | some n => bvReply s (s.bvec.reserve false n s.l)
    | none => (s, "bad")
  | ["pop"] => bvReply s (s.bvec.popBack s.l)
  | ["clear"] => bvReply s (s.bvec.clear s.l)
  | ["resize", n, x] => match n.toNat?, x.toInt? with
    | some n, some x => bvReply s (s.bvec.resize false n x s.l)
    | _, _ => (s, "bad")
  | ["copy"] => bvReply s (s.bvec.copyProbe false s.l)
  | ["destroy"] =>
    let l1 := s.bvec.destroy s.l
    ({ s with bvec := {}, l := l1 }, tail l1 .ok "destroyed")
  | _ => (s, "bad")

def showRA (r : RArena) : String :=
  String.join (r.nodes.map fun nb =>
    "[" ++ String.join (nb.2.slots.map fun sl => match sl with | some (v, _) => s!"o{v} " | none => "- ") ++ "] ")

def raStep (s : St) : List String → St × String
  | ["new", n] => match n.toNat? with
    | some n => ({ s with ra := { bs := n }, raObjs := [] }, tail s.l .ok (showRA { bs := n }))
    | none => (s, "bad")
  | ["create", x] => match x.toInt? with
    | some x =>
      let r := s.ra.create x s.l
      let objs := match r.2.1 with | some p => s.raObjs ++ [some p] | none => s.raObjs
      ({ s with ra := r.2.2.1, l := r.2.2.2, raObjs := objs, dead := r.1 == .ub }, tail r.2.2.2 r.1 (showRA r.2.2.1))
    | none => (s, "bad")
  | ["destroy", j] => match j.toNat? with
    | some j =>
      (match s.raObjs[j]? with
       | some (some (blk, slot)) =>
         let r := s.ra.destroyObject false blk slot s.l
         ({ s with ra := r.2.1, l := r.2.2, raObjs := s.raObjs.set j none, dead := r.1 == .ub }, tail r.2.2 r.1 (showRA r.2.1))
       | _ => ({ s with dead := true }, tail s.l .ub (showRA s.ra)))
    | none => (s, "bad")
  | ["free"] =>
    let r := s.ra.destroy s.l
    if r.1 == .ub then ({ s with dead := true }, tail s.l .ub (showRA s.ra))
    else ({ s with ra := { bs := 1 }, raObjs := [], l := r.2 }, tail r.2 .ok "destroyed")
  | _ => (s, "bad")

def showAP (s : APState) : String :=
  let one := fun (v : Option Obj) => match v with | some o => s!"{o.1}" | none => "-"
  s!"p0={one s.p0} p1={one s.p1} loose=" ++ String.join (s.loose.map fun o => s!"{o.1},")

def apStep (s : St) : List String → St × String
  | ["destroy"] =>
    let l1 := s.ap.finish s.l
    ({ s with ap := {}, l := l1 }, tail l1 .ok "destroyed")
  | ws =>
    let op : Option APState.Op := match ws with
      | ["make", i] => i.toNat?.map .make
      | ["move", i, j] => match i.toNat?, j.toNat? with | some i, some j => some (.move i j) | _, _ => none
      | ["release", i] => i.toNat?.map .release
      | ["reset", i] => i.toNat?.map .reset
      | _ => none
    match op with
    | some op =>
      let r := s.ap.step s.l op
      ({ s with ap := r.2.1, l := r.2.2 }, tail r.2.2 r.1 (showAP r.2.1))
    | none => (s, "bad")

/-- `os new` | `os setenc <utf16|utf8|latin1|ascii|unsupported> <0|1>` (1: the creation of the transcoder is refused at its
first request; 2: the copy of the encoding name after the transcoder was made throws — the failure the real stream was
observed to have) | `os destroy` -/
def osStep (s : St) : List String → St × String
  | ["new"] => ({ s with os := {}, l := {} }, "new")
  | ["setenc", e, fail] =>
    let enc : Option Enc := match e with
      | "utf16" => some .utf16 | "utf8" => some .utf8 | "latin1" => some .latin1 | "ascii" => some .ascii
      | "unsupported" => some .unsupported | _ => none
    match enc with
    | some enc =>
      let l0 : Ledger := if fail == "1" then { s.l with failAt := s.l.reqs + 1 } else { s.l with failAt := 0 }
      let r := s.os.setEnc false enc l0 (fail == "2")
      let word := match r.1, enc with | .ok, _ => "ok" | _, .unsupported => "exc" | _, _ => "oom"
      ({ s with os := r.2.1, l := r.2.2 },
       s!"enc {word} slot={if r.2.1.slot.isSome then 1 else 0} bad={r.2.2.bad}")
    | none => (s, "bad")
  | ["destroy"] =>
    let l1 := s.os.destroy s.l
    ({ s with os := {}, l := l1 }, s!"destroyed live={l1.live.length} bad={l1.bad}")
  | _ => (s, "bad")

def showAA (a : XArr) : String :=
  String.join (a.entries.map fun e => s!" {e.free}/{e.size}") ++
  s!" last={match a.last with | some i => toString i | none => "-1"}"

/-- `aa new <blockSize>` | `aa alloc <n>` | `aa reset` | `aa clear` | `aa destroy`: XalanArrayAllocator<long> -/
def aaStep (s : St) : List String → St × String
  | ["new", n] => match n.toNat? with
    | some n => ({ s with aa := { bs := n } }, tail s.l .ok (showAA { bs := n }))
    | none => (s, "bad")
  | ["destroy"] =>
    let l1 := s.aa.destroy s.l
    ({ s with aa := { bs := 1 }, l := l1 }, tail l1 .ok "destroyed")
  | ws =>
    let op : Option XArr.Op := match ws with
      | ["alloc", n] => n.toNat?.map .alloc
      | ["reset"] => some .reset
      | ["clear"] => some .clear
      | _ => none
    match op with
    | some op =>
      let r := XArr.step s.aaClearDestroys s.aa s.l op
      ({ s with aa := r.2.1, l := r.2.2 }, tail r.2.2 r.1 (showAA r.2.1))
    | none => (s, "bad")

/-- `sc new <max> <early>` | `sc get` | `sc rel <handle>` | `sc reset` | `sc clear`: XalanDOMStringCache histories; the
reply is what the real cache shows after the call: sizes of the two lists, strings alive in its allocator, destroys of a
string that was not alive -/
def scStep (s : St) : List String → St × String :=
  let shw (r : StrCache.Run) (w : String) : String :=
    s!"sc {w} avail={r.c.avail.length} busy={r.c.busy.length} alive={r.l.live.length} bad={r.l.bad}"
  fun
  | ["new", m, e] => match m.toNat? with
    | some m => let r : StrCache.Run := { c := { maxSize := m } }
                ({ s with sc := r, scEarly := e == "1" }, shw r "new")
    | none => (s, "bad")
  | ["get"] => let r := StrCache.step s.scEarly s.sc .get; ({ s with sc := r }, shw r "ok")
  | ["rel", h] => match h.toNat? with
    | some h =>
      let w := match s.sc.handles[h]? with
        | some b => if (StrCache.release s.scEarly b s.sc.c s.sc.l).1 then "true" else "false"
        | none => "false"
      let r := StrCache.step s.scEarly s.sc (.release h)
      ({ s with sc := r }, shw r w)
    | none => (s, "bad")
  | ["reset"] => let r := StrCache.step s.scEarly s.sc .reset; ({ s with sc := r }, shw r "ok")
  | ["clear"] => let r := StrCache.step s.scEarly s.sc .clear; ({ s with sc := r }, shw r "ok")
  | _ => (s, "bad")

def showMap (m : XMap) : String :=
  s!"size={m.size} buckets={m.buckets.length} bcap={(m.buckets.map (·.cap)).foldl (· + ·) 0} free={m.freeE.length} :" ++
  String.join (m.entries.map fun e => s!" {e.key}={e.val}")

def mapReply (s : St) (r : Out × XMap × Ledger) : St × String :=
  ({ s with mp := r.2.1, l := r.2.2, dead := r.1 == .ub }, tail r.2.2 r.1 (showMap r.2.1))

def mapStep (s : St) : List String → St × String
  | ["new", n] => match n.toNat? with
    | some n => ({ s with mp := { minB := n, lateUnerase := s.lateUnerase } }, tail s.l .ok (showMap { minB := n }))
    | none => (s, "bad")
  | ["newboxed", n] => match n.toNat? with
    | some n => ({ s with mp := { minB := n, boxed := true, lateUnerase := s.lateUnerase } }, tail s.l .ok (showMap { minB := n }))
    | none => (s, "bad")
  | ["ins", k, v] => match k.toNat?, v.toInt? with
    | some k, some v => mapReply s (s.mp.insert k v s.l)
    | _, _ => (s, "bad")
  | ["erase", k] => match k.toNat? with
    | some k => mapReply s (s.mp.erase k s.l)
    | none => (s, "bad")
  | ["clear"] => mapReply s (s.mp.clear s.l)
  | ["find", k] => match k.toNat? with
    | some k => (s, tail s.l .ok (match s.mp.find k with | some e => s!"found {e.val}" | none => "none"))
    | none => (s, "bad")
  | ["destroy"] =>
    let l1 := s.mp.destroy s.l
    ({ s with mp := { minB := 2 }, l := l1 }, tail l1 .ok "destroyed")
  | _ => (s, "bad")

def showDq (d : XBDeque) : String :=
  s!"size={d.size} idx={d.inIdx.length} free={d.inFree.length} :" ++ String.join (d.elems.map fun x => s!" {x}")

def dqReply (s : St) (r : Out × XBDeque × Ledger) : St × String :=
  ({ s with dq := r.2.1, l := r.2.2, dead := r.1 == .ub }, tail r.2.2 r.1 (showDq r.2.1))

def dqStep (boxed : Bool) (s : St) : List String → St × String
  | ["new", n] => match n.toNat? with
    | some n => ({ s with dq := { bs := n, boxed := boxed, repaired := s.dropEmpty } }, tail s.l .ok (showDq { bs := n }))
    | none => (s, "bad")
  | ["push", x] => match x.toInt? with
    | some x => dqReply s (s.dq.pushBack x s.l)
    | none => (s, "bad")
  | ["pop"] => dqReply s (s.dq.popBack s.l)
  | ["clear"] => dqReply s (s.dq.clear s.l)
  | ["destroy"] =>
    let l1 := s.dq.destroy s.l
    ({ s with dq := { bs := 1 }, l := l1 }, tail l1 .ok "destroyed")
  | _ => (s, "bad")

def showDeque (d : XDeque) : String :=
  s!"idx={d.idx.items.length} free={d.freeV.items.length} :" ++ String.join (d.elems.map fun x => s!" {x}")

def dequeStep (s : St) : List String → St × String
  | ["new", n] => match n.toNat? with
    | some n => ({ s with deque := { bs := n } }, tail s.l .ok (showDeque { bs := n }))
    | none => (s, "bad")
  | ["push", x] => match x.toInt? with
    | some x =>
      let r := s.deque.pushBack s.popNull x s.l
      ({ s with deque := r.2.1, l := r.2.2, dead := r.1 == .ub }, tail r.2.2 r.1 (showDeque r.2.1))
    | none => (s, "bad")
  | ["size"] =>
    let r := s.deque.size
    ({ s with dead := r.1 == .ub }, tail s.l r.1 (if r.1 == .ub then showDeque s.deque else s!"size={r.2}"))
  | ["destroy"] =>
    let l1 := s.deque.destroy s.l
    ({ s with deque := { bs := 1 }, l := l1 }, tail l1 .ok "destroyed")
  | _ => (s, "bad")

def step (s : St) (ws : List String) : St × String :=
  match ws with
  | ["cfg", a, b] => ({ s with cfg := ⟨a == "1", b == "1"⟩ }, "cfg")
  | ["cfg", a, b, c] => ({ s with cfg := ⟨a == "1", b == "1"⟩, skipPending := c == "1" }, "cfg")
  | ["cfg", a, b, c, d] => ({ s with cfg := ⟨a == "1", b == "1"⟩, skipPending := c == "1", popNull := d == "1" }, "cfg")
  | ["cfg", a, b, c, d, e] => ({ s with cfg := ⟨a == "1", b == "1"⟩, skipPending := c == "1", popNull := d == "1", dropEmpty := e == "1" }, "cfg")
  | ["cfg", a, b, c, d, e, g] => ({ s with cfg := ⟨a == "1", b == "1"⟩, skipPending := c == "1", popNull := d == "1", dropEmpty := e == "1", lateUnerase := g == "1" }, "cfg")
  | ["cfg", a, b, c, d, e, g, h] => ({ s with cfg := ⟨a == "1", b == "1"⟩, skipPending := c == "1", popNull := d == "1", dropEmpty := e == "1", lateUnerase := g == "1", aaClearDestroys := h == "1" }, "cfg")
  | ["new", k] =>
    match k.toNat? with
    | some k => ({ cfg := s.cfg, skipPending := s.skipPending, popNull := s.popNull, dropEmpty := s.dropEmpty, lateUnerase := s.lateUnerase, aaClearDestroys := s.aaClearDestroys, l := { failAt := k } }, "new")
    | none => (s, "bad")
  | ["ledger"] => ({ s with trace := some {}, inTrace := true }, "ledger")
  | ["alloc", id] => match id.toNat? with
    | some id => ({ s with trace := s.trace.bind (·.replay (.alloc id)) }, "")
    | none => (s, "bad")
  | ["refuse"] => ({ s with trace := s.trace.bind (·.replay .refuse) }, "")
  | ["free", id] => match id.toNat? with
    | some id => ({ s with trace := s.trace.bind (·.replay (.free id)) }, "")
    | none => (s, "bad")
  | ["end"] =>
    let r := match s.trace with
      | none => "rejected"
      | some t => s!"{if decide t.Balanced then "balanced" else "unbalanced"} reqs={t.reqs} live={t.live.length} bad={t.bad}"
    ({ s with trace := none, inTrace := false }, r)
  | _ =>
    if s.dead then (s, "dead") else
    match ws with
    | ["l", "pushb", x] => match x.toInt? with
      | some x => listReply s (s.list.pushBack s.cfg x s.l)
      | none => (s, "bad")
    | ["l", "pushf", x] => match x.toInt? with
      | some x => listReply s (s.list.pushFront s.cfg x s.l)
      | none => (s, "bad")
    | ["l", "popf"] => listReply s (s.list.popFront s.cfg s.l)
    | ["l", "popb"] => listReply s (s.list.popBack s.cfg s.l)
    | ["l", "clear"] => listReply s (s.list.clear s.cfg s.l)
    | ["l", "empty"] => listReply s (s.list.isEmpty s.cfg s.l)
    | ["l", "destroy"] =>
      let r := s.list.destroy s.l
      if r.1 == .ub then ({ s with dead := true }, tail s.l .ub (showList s.list))
      else ({ s with list := {}, l := r.2 }, tail r.2 .ok "destroyed")
    | ["v", "push", x] => match x.toInt? with
      | some x => vecReply s (s.vec.pushBack x s.l)
      | none => (s, "bad")
    | ["v", "reserve", n] => match n.toNat? with
      | some n => vecReply s (s.vec.reserve n s.l)
      | none => (s, "bad")
    | ["v", "pop"] => vecReply s (s.vec.popBack s.l)
    | ["v", "clear"] => vecReply s (s.vec.clear s.l)
    | ["v", "rtc"] => idiomReply s (reserveThenCreate createThing s.vec s.l)
    | ["v", "ctp"] => idiomReply s (createThenPush createThing s.vec s.l)
    | "a" :: rest => arenaStep s rest
    | "d" :: rest => dequeStep s rest
    | "bv" :: rest => bvecStep s rest
    | "ra" :: rest => raStep s rest
    | "ap" :: rest => apStep s rest
    | "os" :: rest => osStep s rest
    | "sc" :: rest => scStep s rest
    | "aa" :: rest => aaStep s rest
    | "dql" :: rest => dqStep false s rest
    | "dqb" :: rest => dqStep true s rest
    | "m" :: rest => mapStep s rest
    | "mb" :: "new" :: rest => mapStep s ("newboxed" :: rest)
    | "mb" :: rest => mapStep s rest
    | ["v", "destroy"] =>
      -- ~XalanTransformer: XalanDestroy every object the vector holds, then ~XalanVector
      let held := s.created.filter fun c => s.vec.items.contains (Int.ofNat c.1)
      let l1 := held.foldl (fun acc c => (acc.free c.2).free c.1) s.l
      let l2 := s.vec.destroy l1
      ({ s with vec := {}, created := [], l := l2 }, tail l2 .ok "destroyed")
    | _ => (s, "bad")

end Driver.C19

def main : IO Unit := Driver.run ({} : Driver.C19.St) Driver.C19.step
