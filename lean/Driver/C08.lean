import XalanModel.C08.Options
import XalanModel.C08.Html
import XalanModel.C08.Utf8
import XalanModel.Generated.C08_CallPoints
import Driver.Util
/-
xm_c08: replays the C08 request lines (see harness/c08_serialize.cpp) on the Lean model.
Reply: `ok <hex of UTF-16 units>` (the model's rendering), `nomodel` where the model does not cover the
formatter, `bad` for a malformed line.
-/
open XalanModel.C08

namespace Driver.C08

def cc : CodeCfg := XalanModel.Generated.C08.codeCfg

def str (w : String) : Option Str := Driver.unitsOfHex w

/-- parse the event words -/
partial def parseEvents : List String → Option (List Ev)
  | [] => some []
  | "S" :: n :: k :: rest => do
    let n ← str n
    let k ← k.toNat?
    let rec attrs (k : Nat) (ws : List String) (acc : List (Str × Str)) : Option (List (Str × Str) × List String) :=
      match k, ws with
      | 0, ws => some (acc.reverse, ws)
      | k+1, a :: v :: ws => do
        let a ← str a
        let v ← str v
        attrs k ws ((a, v) :: acc)
      | _, _ => none
    let (as, rest) ← attrs k rest []
    let es ← parseEvents rest
    some (Ev.startElement n as :: es)
  | "E" :: n :: rest => do some (Ev.endElement (← str n) :: (← parseEvents rest))
  | "T" :: t :: rest => do some (Ev.characters (← str t) :: (← parseEvents rest))
  | "C" :: t :: rest => do some (Ev.cdata (← str t) :: (← parseEvents rest))
  | "R" :: t :: rest => do some (Ev.raw (← str t) :: (← parseEvents rest))
  | "M" :: t :: rest => do some (Ev.comment (← str t) :: (← parseEvents rest))
  | "P" :: t :: d :: rest => do some (Ev.pi (← str t) (← str d) :: (← parseEvents rest))
  | _ => none

/-- rebuild the result tree from the (well-nested) event list of an `xf` line; `R` = d-o-e text -/
partial def buildTree : List Ev → List Node × List Ev
  | [] => ([], [])
  | Ev.endElement _ :: rest => ([], rest)
  | Ev.startElement n a :: rest =>
    let (kids, rest1) := buildTree rest
    let (sibs, rest2) := buildTree rest1
    (Node.elem n a kids :: sibs, rest2)
  | Ev.characters t :: rest => let (sibs, r) := buildTree rest; (Node.text t :: sibs, r)
  | Ev.cdata t :: rest => let (sibs, r) := buildTree rest; (Node.text t :: sibs, r)
  | Ev.raw t :: rest => let (sibs, r) := buildTree rest; (Node.rawText t :: sibs, r)
  | Ev.pi a b :: Ev.characters t :: rest =>
    if isRawMarker a b then let (sibs, r) := buildTree rest; (Node.rtfRawText t :: sibs, r)
    else
      let (sibs, r) := buildTree (Ev.characters t :: rest)
      (Node.pi a b :: sibs, r)
  | Ev.comment t :: rest => let (sibs, r) := buildTree rest; (Node.comment t :: sibs, r)
  | Ev.pi t d :: rest => let (sibs, r) := buildTree rest; (Node.pi t d :: sibs, r)

def reply (l : Str) : String := "ok " ++ Driver.hexOfUnits l

def runFormatter (f : Formatter) (evs : List Ev) (ns : List Str := []) : String :=
  match f with
  | .xml c k r =>
    if evs.all Ev.valid && evs.all Ev.bulkValid && validUnits c.doctypeSystem && validUnits c.doctypePublic
        && evs.all (Ev.representable r.maxChar) then
      reply (renderAll r (serialize cc c k evs))
    else "ERR"
  | .text enc =>
    match textMethodEnc XalanModel.Generated.C08.textReportsUnrepresentable (maxCharOf (if enc.isEmpty then utf8 else enc)) evs with
    | some t => reply t
    | none => "ERR"
  | .html enc dsys dpub doIndent amount esc om =>
    match Html.serializeHtml { encoding := enc, doctypeSystem := dsys, doctypePublic := dpub, doIndent := doIndent,
                               indent := amount, escapeURLs := esc, omitMeta := om, nsPrefixes := ns,
                               rawSetsPrevText := XalanModel.Generated.C08.legacyRawSetsPrevText } evs with
    | some out => reply out
    | none => "nomodel"

/-- prefixes declared by `xmlns:p` attributes of the top-level elements (the generator declares them on the root) -/
def declaredPrefixes (tree : List Node) : List Str :=
  tree.flatMap fun n => match n with
    | .elem _ attrs _ => attrs.filterMap fun a => if (s "xmlns:").isPrefixOf a.1 && !a.2.isEmpty then some (a.1.drop 6) else none
    | _ => []

def yn (v : String) : Option Bool := if v = "yes" then some true else if v = "no" then some false else none

def parseOutAttr (w : String) : Option OutAttr :=
  match w.splitOn "=" with
  | ["method", "xml"] => some (.method .xml)
  | ["method", "html"] => some (.method .html)
  | ["method", "text"] => some (.method .text)
  | ["version", v] => (str v).map .version
  | ["indent", v] => (yn v).map .indent
  | ["encoding", v] => (str v).map .encoding
  | ["dsys", v] => (str v).map .doctypeSystem
  | ["dpub", v] => (str v).map .doctypePublic
  | ["omitdecl", v] => (yn v).map .omitXmlDecl
  | ["standalone", v] => (str v).map .standalone
  | ["cdata", v] => ((v.splitOn ",").mapM str).map .cdataElems
  | ["escurls", v] => (yn v).map .escapeURLs
  | ["indentamount", v] => v.toInt?.map .indentAmount
  | ["omitmeta", v] => (yn v).map .omitMeta
  | _ => none

def splitBar (ws : List String) : List String × List String :=
  (ws.takeWhile (· ≠ "|"), (ws.dropWhile (· ≠ "|")).drop 1)

def step (_ : Unit) : List String → Unit × String
  | "sax" :: method :: doIndent :: amount :: ver :: enc :: xmldecl :: sa :: dsys :: dpub :: esc :: om :: "|" :: evs =>
    ((), (do
      let amount ← amount.toNat?
      let ver ← str ver
      let enc ← str enc
      let sa ← str sa
      let dsys ← str dsys
      let dpub ← str dpub
      let evs ← parseEvents evs
      let ind := doIndent = "1"
      let f ← match method with
        | "xml" =>
          let v11 := ver = s "1.1"
          let enc1 := if enc.isEmpty then utf8 else enc
          let cfg : SerCfg := {
            version := (if v11 then s "1.1" else s "1.0")
            encoding := enc1
            doctypeSystem := dsys
            doctypePublic := dpub
            xmlDecl := (xmldecl = "1")
            standalone := sa }
          let rc : RenderCfg := { v11 := v11, maxChar := maxCharOf enc1 }
          some (Formatter.xml cfg (if ind then .real amount else .dummy) rc)
        | "html" => some (Formatter.html enc dsys dpub ind amount (esc = "1") (om = "1"))
        | "text" => some (Formatter.text enc)
        | _ => none
      some (runFormatter f evs [s "m", s "svg"])).getD "bad")
  | "xf" :: apiIndent :: apiEnc :: apiOm :: apiEu :: _sheet :: rest =>
    ((), (do
      let ai ← apiIndent.toInt?
      let ae ← str apiEnc
      let ao ← apiOm.toNat?
      let au ← apiEu.toNat?
      let api : Api := { indent := ai, encoding := ae, omitMeta := ao, escapeURLs := au }
      let (attrWords, evWords) := splitBar rest
      let attrs ← attrWords.mapM parseOutAttr
      let evs ← parseEvents evWords
      let (tree, _) := buildTree evs
      let o := processOutputSpec {} attrs
      let f0 := setupFormatterListener o api
      let f := switchToHTML o f0 (firstElem tree)
      let cd := match f with
        | .xml _ _ _ => o.cdataElems
        | _ => []
      some (runFormatter f (kidsEvents cd false tree) (declaredPrefixes tree))).getD "bad")
  | "xs" :: _dom :: _src :: _sheet :: rest =>
    -- a transformation of a given source: the option words and the events the engine delivers (a copied CDATA section
    -- node of a Xerces DOM source arrives as a `cdata` event whatever the output method is)
    ((), (do
      let (attrWords, evWords) := splitBar rest
      let attrs ← attrWords.mapM parseOutAttr
      let evs ← parseEvents evWords
      let o := processOutputSpec {} attrs
      let f := setupFormatterListener o {}
      some (runFormatter f evs)).getD "bad")
  | ["eraw", kind, start, len, buf] =>
    ((), (do
      let start ← start.toNat?
      let len ← len.toNat?
      let buf ← str buf
      let ev ← match kind with
        | "raw" => some (Ev.raw (engineSlice XalanModel.Generated.C08.engineRawUsesStart buf start len))
        | "cdata" => some (Ev.cdata (engineSlice XalanModel.Generated.C08.engineCdataUsesStart buf start len))
        | "chars" => some (Ev.characters (engineSlice XalanModel.Generated.C08.engineCharactersUsesStart buf start len))
        | _ => none
      let cfg : SerCfg := { xmlDecl := false }
      some (reply (renderAll {} (serialize cc cfg .dummy [.startElement (s "a") [], ev, .endElement (s "a")])))).getD "bad")
  | ["u8", kind, run] =>
    -- XalanUTF8Writer alone: bytes of a run through the bulk write, writeSafe, or one position at a time
    ((), match str run with
      | none => "bad"
      | some us =>
        let bytes : Option (List Nat) :=
          if kind = "bulk" then Utf8.bulkWrite XalanModel.Generated.C08.utf8BulkAdvances us
          else if kind = "safe" then Utf8.bulkWrite XalanModel.Generated.C08.utf8SafeAdvances us
          else Utf8.unitwiseWrite us
        match bytes with
        | some b => reply b
        | none => "ERR")
  | _ => ((), "bad")

end Driver.C08

def main : IO Unit := Driver.run () Driver.C08.step
