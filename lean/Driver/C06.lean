import XalanModel.C06.Api
import Driver.Util
/-
xm_c06: replays API histories of one XalanTransformer on the Lean model (`XalanModel.C06.step`).

Request (one per line)                     Reply
  new                                      ok                       -- a new transformer
  compile <slot> <sheet> ok|bad            rc <n>
  parse <slot> <src> ok|bad                rc <n>
  setexpr <key> <expr>                     ok
  setnum <key> <number>                    ok
  clearparams                              ok
  install <f> <impl> | uninstall <f>       ok        -- <impl> names the implementation; a re-install replaces
  transformfl <sheetslot> <srcslot> <seed> (as transform; result delivered to a FormatterListener supplied by the caller)
  ginstall <f> <impl> | guninstall <f>     ok        -- process-wide function table
  setobj <key> B:true|S:text               ok        -- XObject parameter
  setnode <key> <src>                      ok        -- node-set parameter (document node of <src>)
  config <name> <value>                    ok        -- sticky option (indent, enc, escurl, omitmeta, plistener, tlistener)
  dsheet <slot> | dsource <slot>           rc <n>
  transform <sheetslot> <srcslot> <seed>   T sheet=<s> src=<d> P=<k=E:expr;k=O:num;…> S=<…> F=<f;…> pre=<…> post=<name=size,…>
  transformsrc <sheet> <src> <seed>        (same)
  tables                                   member table summary (used by the check to cross-check the hook names)

`P` = parameters as the code hands them to the stylesheet, `S` = as the specification (last write wins)
says; `P`/`S`/`F` are sorted (XalanMap iteration order is a hash order); `pre` is the abstract value of every member
the interpreter starts from; `post` are the container sizes the model predicts *after* the call, i.e.
after `~EnsureReset` ran from a pseudo-random mid-transformation state derived from <seed> (`?` for the
XalanObjectStackCache members, whose depth `reset()` leaves as it was).
-/
open XalanModel.C06 XalanModel.Generated.C06

namespace Driver.C06

def showVal : Val → String
  | .ptr n => s!"p{n}"
  | .flag b => if b then "t" else "f"
  | .num i => s!"n{i}"
  | .seq l => "[" ++ ",".intercalate (l.map toString) ++ "]"

def showPVal : PVal → String
  | .expr e => "E:" ++ e
  | .obj o => "O:" ++ o
  | .null => "N:"

def insertSorted (x : String) : List String → List String
  | [] => [x]
  | y :: r => if x ≤ y then x :: y :: r else y :: insertSorted x r

def sortStrings (l : List String) : List String := l.foldr insertSorted []

/-- pseudo-random mid-transformation state: every member gets some junk of its kind; the variables
stack index stays within the stack (the `MidOk` invariant) -/
def midOf (seed : Nat) : State := fun k =>
  let h := (seed * 2654435761 + k * 40503 + 12345) % 65521
  if k = vsIndex then .num (Int.ofNat (h % (((seed * 2654435761 + vsStack * 40503 + 12345) % 65521) % 6 + 1)))
  else match kinds.getD k .ref with
    | .ptr | .ref => .ptr (h % 2)
    | .flag => .flag (h % 2 == 0)
    | .num => .num (Int.ofNat (h % 7))
    | _ => .seq (List.replicate (h % 6) (h % 3))

def sizeable (k : Nat) : Bool :=
  match kinds.getD k .ref with
  | .objstack => true
  | .seq | .obj => roles.getD k .unclassified == .transient || roles.getD k .unclassified == .guarded
  | .num | .ptr | .flag => roles.getD k .unclassified == .transient
  | _ => false

def postSizes (before after : State) : String :=
  let ids := (List.range kinds.length).filter sizeable
  ",".intercalate (ids.map fun k =>
    let nm := memberNames.getD k "?"
    if kinds.getD k .ref == .objstack && after k == before k && !objStackResetZeroesDepth then nm ++ "=?"
    else match after k with
      | .seq l => s!"{nm}={l.length}"
      | .num i => s!"{nm}={i}"
      | .ptr n => s!"{nm}={n}"
      | .flag b => nm ++ (if b then "=1" else "=0"))

def showObs (o : Obs) (sp : SpecParams) (post : String) : String :=
  let ps := sortStrings (o.params.map fun (k, v) => k ++ "=" ++ showPVal v)
  let ss := sortStrings (sp.map fun (k, v) => k ++ "=" ++ showPVal v)
  let fs := sortStrings (o.funcs.map fun (k, v) => k ++ ":" ++ v)
  let gs := sortStrings (o.gfuncs.map fun (k, v) => k ++ ":" ++ v)
  let cs := sortStrings (o.config.map fun (k, v) => k ++ "=" ++ v)
  let j (l : List String) := if l.isEmpty then "-" else ";".intercalate l
  s!"T sheet={o.sheet.getD "-"} src={o.source.getD "-"} P={j ps} S={j ss} F={j fs} G={j gs} C={j cs} pre={"".intercalate (o.pre.map showVal)} post={post}"

def reply (sp : SpecParams) (before : Tx) (mid : State) (r : Tx × Reply) : Tx × String :=
  match r.2 with
  | .ok => (r.1, "ok")
  | .rc n => (r.1, s!"rc {n}")
  | .obs o => (r.1, showObs o sp (postSizes (havoc (XalanModel.C06.run setup before.mem) mid) r.1.mem))

def stepTx (sp : SpecParams) (t : Tx) : List String → Tx × String
  | ["new"] => ({ Tx.init with gfuncs := t.gfuncs }, "ok")     -- the global function table outlives transformers
  | ["compile", slot, sheet, flag] =>
    match slot.toNat? with
    | some n => if flag == "ok" || flag == "bad" then reply sp t (fun _ => .ptr 0) (step t (.compile n sheet (flag == "ok"))) else (t, "bad-op")
    | none => (t, "bad-op")
  | ["parse", slot, src, flag] =>
    match slot.toNat? with
    | some n => if flag == "ok" || flag == "bad" then reply sp t (fun _ => .ptr 0) (step t (.parse n src (flag == "ok"))) else (t, "bad-op")
    | none => (t, "bad-op")
  | ["setexpr", k, e] => reply sp t (fun _ => .ptr 0) (step t (.setParamExpr k e))
  | ["setnum", k, v] => reply sp t (fun _ => .ptr 0) (step t (.setParamNum k v))
  | ["clearparams"] => reply sp t (fun _ => .ptr 0) (step t .clearParams)
  | ["setobj", k, v] => reply sp t (fun _ => .ptr 0) (step t (.setParamNum k v))
  | ["setnode", k, v] => reply sp t (fun _ => .ptr 0) (step t (.setParamNum k ("D:" ++ v)))
  | ["ginstall", f, i] => reply sp t (fun _ => .ptr 0) (step t (.ginstall f i))
  | ["guninstall", f] => reply sp t (fun _ => .ptr 0) (step t (.guninstall f))
  | ["config", n, v] => reply sp t (fun _ => .ptr 0) (step t (.config n v))
  | ["install", f, i] => reply sp t (fun _ => .ptr 0) (step t (.install f i))
  | ["uninstall", f] => reply sp t (fun _ => .ptr 0) (step t (.uninstall f))
  | ["dsheet", slot] =>
    match slot.toNat? with
    | some n => reply sp t (fun _ => .ptr 0) (step t (.destroySheet n))
    | none => (t, "bad-op")
  | ["dsource", slot] =>
    match slot.toNat? with
    | some n => reply sp t (fun _ => .ptr 0) (step t (.destroySource n))
    | none => (t, "bad-op")
  | ["transform", a, b, seed] =>
    match a.toNat?, b.toNat?, seed.toNat? with
    | some a, some b, some sd => let mid := midOf sd; reply sp t mid (step t (.transform a b mid))
    | _, _, _ => (t, "bad-op")
  | ["transformfl", a, b, seed] =>     -- same model step; the real call delivers to a caller-supplied FormatterListener
    match a.toNat?, b.toNat?, seed.toNat? with
    | some a, some b, some sd => let mid := midOf sd; reply sp t mid (step t (.transform a b mid))
    | _, _, _ => (t, "bad-op")
  | ["transformsrc", a, b, seed] =>
    match seed.toNat? with
    | some sd => let mid := midOf sd; reply sp t mid (step t (.transformSrc a b mid))
    | none => (t, "bad-op")
  | ["tables"] =>
    (t, s!"members={memberNames.length} reset={ensureReset.length} setup={setup.length} transient={transientIds.length} start={startIds.length} objstackZero={objStackResetZeroesDepth} paramClears={paramSetClearsOther}")
  | _ => (t, "bad-op")


/-- the specification's view of the parameters (last write wins), kept beside the model state -/
def specLine (sp : SpecParams) : List String → SpecParams
  | ["new"] => []
  | ["setexpr", k, e] => specP sp (.expr k e)
  | ["setnum", k, v] => specP sp (.num k v)
  | ["setobj", k, v] => specP sp (.num k v)
  | ["setnode", k, v] => specP sp (.num k ("D:" ++ v))
  | ["clearparams"] => specP sp .clear
  | _ => sp

def stepLine (st : Tx × SpecParams) (w : List String) : (Tx × SpecParams) × String :=
  let (t', r) := stepTx st.2 st.1 w
  ((t', specLine st.2 w), r)

end Driver.C06

def main : IO Unit := Driver.run (XalanModel.C06.Tx.init, ([] : XalanModel.C06.SpecParams)) Driver.C06.stepLine
