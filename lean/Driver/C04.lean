import XalanModel.C04.Model
import XalanModel.C04.Spec
import XalanModel.C04.CommentPI
import XalanModel.C04.Indent
import XalanModel.C04.DocReader
import XalanModel.C04.IndentTextProofs
import XalanModel.C04.RawMarker
import XalanModel.C04.Stream
import Driver.Util
/-
xm_c04: replays SAX event scripts on the Lean model of FormatterToXMLUnicode + writers + buffers.
Request:  doc U <encoding> <1.0|1.1> <event>...      (events as in harness/c04_serializer.cpp)
Reply:    ok <hex of output bytes> <sizes in bytes of the writeData calls, comma separated>
          err <forbidden|surrogate|unrep|scalar|mem>
          skip      (serializer kinds the model does not cover, e.g. L = FormatterToXML)
The CDATA variant is the one the translator read from the working tree (`CDataCfg.generated`);
`docfixed …` uses `CDataCfg.fixed` instead (the code with proposed/C04-cdata.diff applied).
-/
open XalanModel.C04

namespace Driver.C04

def hex2 (n : Nat) : String :=
  let d (k : Nat) : Char := (if k < 10 then Char.ofNat (48 + k) else Char.ofNat (87 + k))
  String.ofList [d (n / 16 % 16), d (n % 16)]

def hexOfBytes (l : List Nat) : String :=
  if l.isEmpty then "-" else String.join (l.map hex2)

def encOf (fx : Fixes) (name : String) : Option Enc :=
  if name = "UTF-8" then some ⟨.utf8, fun _ => true, fx⟩
  else if name = "UTF-16" then some ⟨.utf16, fun _ => true, fx⟩
  else if name = "ISO-8859-1" then some ⟨.other, fun c => decide (c < 256), fx⟩
  else if name = "US-ASCII" then some ⟨.other, fun c => decide (c < 128), fx⟩
  -- UTF-32BE: as observed from ICU's canTranscodeTo through XalanOutputStream: planes 0-15, no lone surrogate unit
  else if name = "UTF-32BE" then some ⟨.other, fun c => decide (c < 0x100000 ∧ ¬ (0xD800 ≤ c ∧ c ≤ 0xDFFF)), fx⟩
  else none

def verOf (s : String) : Option Ver :=
  if s = "1.0" then some .v10 else if s = "1.1" then some .v11 else none

def parseAttr (s : String) : Option (List Nat × List Nat) :=
  match s.splitOn "=" with
  | [n, v] => do
    let n ← unitsOfHex n
    let v ← unitsOfHex v
    pure (n, v)
  | _ => none

def parseEvent (w : String) : Option Event :=
  match w.splitOn ":" with
  | "s" :: name :: attrs => do
    let n ← unitsOfHex name
    let a ← attrs.mapM parseAttr
    pure (.startElement n a)
  | ["e", name] => (unitsOfHex name).map .endElement
  | ["t", s] => (unitsOfHex s).map fun u => .characters (u ++ [0]) u.length
  | ["t", s, tail] => do
    let u ← unitsOfHex s
    let t ← unitsOfHex tail
    pure (.characters (u ++ t) u.length)
  | ["c", s] => (unitsOfHex s).map fun u => .cdata (u ++ [0]) u.length
  | ["c", s, tail] => do
    let u ← unitsOfHex s
    let t ← unitsOfHex tail
    pure (.cdata (u ++ t) u.length)
  | ["r", s] => (unitsOfHex s).map .charactersRaw
  | ["m", s] => (unitsOfHex s).map .comment
  | ["p", t, d] => do
    let t ← unitsOfHex t
    let d ← unitsOfHex d
    pure (.pi t d)
  | _ => none

/-- characters (scalar values) as hex of their UTF-16 units -/
def hexU (l : List Nat) : String := hexOfUnits (Spec.utf16Encode l)

mutual
/-- canonical events of a tree read by `Spec.readDocument` (same tokens as the Xerces re-parse of the harness) -/
def canonNode : XNode → List String
  | .elem n a kids =>
    [":".intercalate (("s:" ++ hexU n) :: a.map fun p => hexU p.1 ++ "=" ++ hexU p.2)]
      ++ canonKids kids ++ ["e:" ++ hexU n]
  | .text s => ["t:" ++ hexU s]
  | .cdata s => ["t:" ++ hexU s]
  | .comment s => ["m:" ++ hexU s]
  | .pi t d => ["p:" ++ hexU t ++ ":" ++ hexU d]
def canonKids : List XNode → List String
  | [] => []
  | k :: ks => canonNode k ++ canonKids ks
end

/-- UTF-16 units of a character sequence given as hex of code points (the check sends what Xerces was given) -/
def readReply (ver : String) (hexUnits : String) : String :=
  match verOf ver, unitsOfHex hexUnits with
  | some v, some units =>
    match Spec.utf16Decode units with
    | none => "none"
    | some chars =>
      match Spec.readDocument v chars with
      | some t => " ".intercalate ("tree" :: canonNode t)
      | none => "none"
  | _, _ => "bad"

/-- an event in the request syntax (inverse of `parseEvent`) -/
def printEvent : Event → String
  | .startElement n a => ":".intercalate (("s:" ++ hexOfUnits n) :: a.map fun p => hexOfUnits p.1 ++ "=" ++ hexOfUnits p.2)
  | .endElement n => "e:" ++ hexOfUnits n
  | .characters buf len =>
    "t:" ++ hexOfUnits (buf.take len) ++ (if buf.drop len = [0] then "" else ":" ++ hexOfUnits (buf.drop len))
  | .cdata buf len =>
    "c:" ++ hexOfUnits (buf.take len) ++ (if buf.drop len = [0] then "" else ":" ++ hexOfUnits (buf.drop len))
  | .charactersRaw s => "r:" ++ hexOfUnits s
  | .comment s => "m:" ++ hexOfUnits s
  | .pi t d => "p:" ++ hexOfUnits t ++ ":" ++ hexOfUnits d

/-- `filter <amount> <event>...`: the event sequence behind the indentation filter of `indent_is_whitespace_text`
(`decorEvents`), to be given to the *plain* real serializer -/
def filterReply (amount : String) (evs : List String) : String :=
  match amount.toNat?, evs.mapM parseEvent with
  | some n, some events =>
    " ".intercalate ("events" :: (decorEvents (resolveRaw RawCfg.generated false events) [] { on := true, amount := n }).map printEvent)
  | _, _ => "bad"

def errName : Err → String
  | .forbidden => "forbidden"
  | .surrogate => "surrogate"
  | .unrep => "unrep"
  | .scalar => "scalar"
  | .mem => "mem"

def joinNat (l : List Nat) : String := ",".intercalate (l.map toString)

/-- bytes and chunk sizes delivered to `XalanOutputStream::writeData` -/
def be32 (c : Nat) : List Nat := [c / 16777216 % 256, c / 65536 % 256, c / 256 % 256, c % 256]

def deliver (encName : String) (e : Enc) (wchunks : List (List Nat)) : Except String (List Nat × List Nat) :=
  match e.kind with
  | .utf8 =>
    let cs := wchunks.filter (· ≠ [])
    .ok (cs.flatten, cs.map List.length)
  | .utf16 =>
    match some (streamRun (StreamCfg.generated true) wchunks) with
    | none => .error "mem"
    | some sc =>
      let cs := sc.filter (· ≠ [])
      let bytes := cs.map fun c => c.flatMap fun u => [u % 256, u / 256 % 256]
      .ok ([0xFF, 0xFE] ++ bytes.flatten, 2 :: bytes.map List.length)
  | .other =>
    match some (streamRun (StreamCfg.generated false) wchunks) with
    | none => .error "mem"
    | some sc =>
      let cs := sc.filter (· ≠ [])
      if encName = "UTF-32BE" then
        -- the transcoder is called once per chunk: a chunk must be well-formed UTF-16 on its own
        match cs.mapM Spec.utf16Decode with
        | some scalars =>
          -- XalanOutputStream::transcode as written: the destination starts at `factor * n` bytes; when a
          -- one-unit chunk needs 4 bytes and gets fewer, the converter reports the unit consumed, the loop ends
          -- and the bytes held back by the converter are never written (finding F11)
          let f := XalanModel.Generated.C04.transcodeDestFactor
          let bytes := (cs.zip scalars).map fun (units, ch) =>
            let b := ch.flatMap be32
            if units.length = 1 ∧ f * units.length < b.length then b.take (f * units.length) else b
          .ok (bytes.flatten, bytes.map List.length)
        | none => .error "transcode"
      else if cs.all (fun c => c.all e.canEnc) then .ok (cs.flatten, cs.map List.length)
      else .error "transcode"

/-- `stream <encoding> <run>...`: `XalanOutputStream` alone (its buffer with the hold-back, then the transcoder, one call
per chunk): UTF-16 goes through as it is, UTF-8 and UTF-32BE are transcoded chunk by chunk — a chunk that is not
well-formed UTF-16 by itself is a transcoding error, as with ICU -/
def streamReply (enc : String) (runs : List String) : String :=
  match runs.mapM unitsOfHex with
  | none => "bad"
  | some ws =>
    if enc = "UTF-16" then
      let cs := (streamRun (StreamCfg.generated true) ws).filter (· ≠ [])
      let bytes := cs.map fun c => c.flatMap fun u => [u % 256, u / 256 % 256]
      "ok " ++ hexOfBytes ([0xFF, 0xFE] ++ bytes.flatten) ++ " " ++ joinNat (2 :: bytes.map List.length)
    else if enc = "UTF-8" ∨ enc = "UTF-32BE" then
      let cs := (streamRun (StreamCfg.generated false) ws).filter (· ≠ [])
      match cs.mapM Spec.utf16Decode with
      | none => "err transcode"
      | some scalars =>
        let bytes := scalars.map fun ch => if enc = "UTF-8" then ch.flatMap Spec.utf8EncodeOne else ch.flatMap be32
        "ok " ++ hexOfBytes bytes.flatten ++ " " ++ (if bytes.isEmpty then "-" else joinNat (bytes.map List.length))
    else "skip"

structure DocOpts where
  decl : Bool := true
  sa : List Nat := []
  sys : List Nat := []
  pub : List Nat := []
  ind : Option Nat := none     -- indent="yes" with this indent amount

/-- "decl=0|1,sa=<hex>,sys=<hex>,pub=<hex>" -/
def parseOpts (s : String) : Option DocOpts :=
  (s.splitOn ",").foldlM (fun (o : DocOpts) kv =>
    match kv.splitOn "=" with
    | ["decl", v] => some { o with decl := v = "1" }
    | ["sa", v] => (unitsOfHex v).map fun u => { o with sa := u }
    | ["sys", v] => (unitsOfHex v).map fun u => { o with sys := u }
    | ["pub", v] => (unitsOfHex v).map fun u => { o with pub := u }
    | ["ind", v] => v.toNat?.map fun n => { o with ind := some n }
    | _ => none) {}

def runDoc (o : DocOpts) (cd : CDataCfg) (fx : Fixes) (enc ver : String) (evs : List String) : String :=
  match encOf fx enc, verOf ver, evs.mapM parseEvent with
  | some e, some v, some events0 =>
    -- the marker PI / m_nextIsRaw, as the working tree has it
    let events := resolveRaw RawCfg.generated false events0
    let cfg : Cfg := ⟨v, e, cd, enc.toList.map Char.toNat, o.decl, o.sa, o.sys, o.pub⟩
    match (match o.ind with | none => serializeItems cfg events | some n => serializeItemsI cfg true n events) with
    | .error er => "err " ++ errName er
    | .ok items =>
      match writerChunks e.kind items with
      | .error er => "err " ++ errName er
      | .ok wc =>
        match deliver enc e wc with
        | .error s => "err " ++ s
        | .ok (bytes, sizes) =>
          "ok " ++ hexOfBytes bytes ++ " " ++ joinNat sizes
  | _, _, _ => "bad"

def step (s : Unit) : List String → Unit × String
  | "doc" :: "U" :: enc :: ver :: evs => (s, runDoc {} CDataCfg.generated Fixes.generated enc ver evs)
  | "docx" :: "U" :: enc :: ver :: opts :: evs =>
    match parseOpts opts with
    | some o => (s, runDoc o CDataCfg.generated Fixes.generated enc ver evs)
    | none => (s, "bad")
  | "docx" :: _ :: _ => (s, "skip")
  | "docfixed" :: "U" :: enc :: ver :: evs => (s, runDoc {} CDataCfg.fixed Fixes.all enc ver evs)
  | ["read", ver, h] => (s, readReply ver h)
  | "filter" :: amount :: evs => (s, filterReply amount evs)
  | "stream" :: enc :: runs => (s, streamReply enc runs)
  | ["repairc", d] => (s, match unitsOfHex d with | some u => hexOfUnits (repairComment u) | none => "bad")
  | ["repairp", d] => (s, match unitsOfHex d with | some u => hexOfUnits (repairPI u) | none => "bad")
  | "doc" :: _ :: _ => (s, "skip")
  | _ => (s, "bad")

end Driver.C04

def main : IO Unit := Driver.run () Driver.C04.step
