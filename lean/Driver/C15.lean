import XalanModel.C15.ConcreteProofs
import XalanModel.Generated.C15_FunctionKey
import XalanModel.Generated.C15_ExecContext
import XalanModel.Generated.C15_KeyTable
import Driver.Util
/-
xm_c15: replays key scenarios on the Lean model (XalanModel/C15/Keys.lean, the transcription of
KeyTable / StylesheetRoot::getNodeSetByKey / FunctionKey) with the concrete pattern / use evaluators.

Requests (one reply line each; lines meant for the C++ harness only are answered `ok`):
  case <id>                                   reset
  doc <k> <tokens…>                           document k (0 = main source), see Concrete.parseDoc
  sheet <sid> <parent|->                      stylesheet module (sid 0 = root; parent imports it, in this order)
  decl <sid> <qname> <pattern> <use> <nsctx>  xsl:key in module sid; the name as written and the namespace declarations in
                                              scope on the element (`p=uri;…;=default-uri`, `-` none): expanded per XSLT 2.4
                                              (every `call` line ends with the <nsctx> of its key() call likewise)
  call <ctxdoc> <curdoc> <p|u> <top|pred> <name> str <value|->
                                              key(name, 'value') with the XPath context node in document ctxdoc while the
                                              XSLT current node is in document curdoc; p = the name is written with a prefix;
                                              pred = key() sits in a predicate filtering all nodes of ctxdoc (the answer is
                                              then the nodes of ctxdoc that are in their own key() result)
  call <ctxdoc> <curdoc> <p|u> <top|pred> <name> ns <argdoc>[+<argdoc>…] <pattern>
                                              key(name, <all nodes of argdoc matching pattern>)
  file … / anything else known to the harness → ok
  run …                                       → for every call, in order:  K=<as-written model> S=<specification> F=<E: the regenerated FunctionKey guard shapes K; P: position()/last() = 0 inside use shapes K; - neither>
                                                 each `ERR` or a comma list of document-order numbers (`-` = empty)
-/
open XalanModel.C15 XalanModel.C15.Concrete

namespace Driver.C15

inductive CallArg where
  | str (s : String)
  /-- all nodes matching `pat` in each of the documents `docs` (a node-set argument may span documents) -/
  | ns (docs : List Nat) (pat : List PathPat)

structure CallReq where
  doc : Nat
  cur : Nat
  prefixed : Bool
  pred : Bool
  name : String
  arg : CallArg

structure St where
  docs : List (Nat × Doc) := []
  sheets : List (Nat × Option Nat) := []          -- (sid, parent) in arrival order
  decls : List (Nat × String × List PathPat × UseExpr) := []   -- (sid, name, pattern, use) in arrival order
  calls : List CallReq := []
  bad : Bool := false

def St.doc (s : St) (k : Nat) : Doc := ((s.docs.find? fun p => p.1 = k).map (·.2)).getD default

/-- the import tree below module `sid` (fuel = number of modules) -/
def buildSheet (posZero : Bool) (s : St) (docs : Nat → Doc) : Nat → Nat → Sheet String CNode
  | 0, _ => Sheet.mk [] []
  | fuel + 1, sid =>
    let own := (s.decls.filter fun d => d.1 = sid).map fun d => mkDecl posZero docs d.2.1 d.2.2.1 d.2.2.2
    let kids := (s.sheets.filter fun p => p.2 = some sid).map fun p => buildSheet posZero s docs fuel p.1
    Sheet.mk own kids

def showList (l : List CNode) : String :=
  if l.isEmpty then "-" else ",".intercalate (l.map fun n => toString n.idx)

def showRes : Option (List CNode) → String
  | none => "ERR"
  | some l => showList l

def argOf (s : St) : CallArg → KeyArg
  | .str v => .str v
  | .ns ks pat =>
    .nodeset (ks.flatMap fun k =>
      let d := s.doc k
      (d.tree.docOrder.filter (matchPattern d pat)).map (·.value))

/-- the environment of the transformation -/
def envOf (posZero : Bool) (s : St) : Env String CNode Nat :=
  let docs : Nat → Doc := s.doc
  let root := buildSheet posZero s docs (s.sheets.length + 1) 0
  { keyDeclarations := root.postConstruction, doc := fun k => (docs k).tree, idx := fun n => n.idx,
    isDoc := isDocNode }

def runAll (s : St) : String :=
  let skip := XalanModel.Generated.C15_FunctionKey.skipEmptyRefs
  let calls := s.calls.reverse
  let cs := calls.map fun c =>
    ({ contextDoc := c.doc, currentDoc := c.cur, prefixed := c.prefixed, name := c.name, arg := argOf s c.arg } : XCall String Nat)
  let pz := XalanModel.Generated.C15_KeyTable.useContextListEmpty
  let env := envOf pz s
  let ov : Overloads := ⟨XalanModel.Generated.C15_ExecContext.qnameUsesContext,
    XalanModel.Generated.C15_ExecContext.stringUsesContext⟩
  -- key() inside a predicate over the nodes of ctxdoc: only nodes of ctxdoc can be in the filtered result
  let post (rs : List (Option (List CNode))) : List (Option (List CNode)) :=
    (List.zip cs (List.zip calls rs)).map fun (xc, c, r) =>
      if c.pred && xc.keyDoc ov != xc.contextDoc then r.map fun _ => [] else r
  -- the code as written (the guard and the overloads as regenerated from the source) and without the guard
  let kFull := post (runXCalls env ov skip [] cs)
  let kNoE := post (runXCalls env ov false [] cs)
  let kNoP := post (runXCalls (envOf false s) ov skip [] cs)
  let spec := envOf false s       -- XSLT 1.0 12.2: position() = last() = 1 inside `use`
  let ss := calls.map fun c =>
    let vals := (argOf s c.arg).values
    -- specification: union over all string values of the argument; an undeclared name is an error
    -- (unless the argument is an empty node-set, where the result is empty whatever the name)
    if vals.isEmpty then some []
    else if declared spec.keyDeclarations c.name then some (specKeyArg spec.keyDeclarations (spec.doc c.doc) c.name vals)
    else none
  let rows := List.zip kFull (List.zip ss (List.zip kNoE kNoP))
  " ".intercalate (rows.map fun (k, sp, e, p) =>
    let same (a b : Option (List CNode)) : Bool := showRes a == showRes b
    let fl := (if same k e then "" else "E") ++ (if same k p then "" else "P")
    s!"K={showRes k} S={showRes sp} F={if fl.isEmpty then "-" else fl}")

def step (s : St) : List String → St × String
  | ["case", _] => ({}, "ok")
  | "doc" :: k :: toks =>
    match k.toNat? with
    | some k =>
      match parseDoc k toks with
      | some d => ({ s with docs := s.docs ++ [(k, d)] }, s!"ok {d.nodes.size}")
      | none => ({ s with bad := true }, "bad doc")
    | none => (s, "bad")
  | ["sheet", sid, par] =>
    match sid.toNat? with
    | some sid => ({ s with sheets := s.sheets ++ [(sid, par.toNat?)] }, "ok")
    | none => (s, "bad")
  | ["decl", sid, lex, pat, use, nctx] =>
    -- the name as written plus the namespace declarations in scope on the xsl:key element: expanded per XSLT 2.4
    let name := resolveObjectName (parseNsContext nctx) lex
    match sid.toNat?, parsePattern pat with
    | some sid, some p => ({ s with decls := s.decls ++ [(sid, name, p, parseUse use)] }, "ok")
    | _, _ => ({ s with bad := true }, "bad decl")
  | ["call", d, cur, pu, form, lex, "str", v, nctx] =>
    let name := resolveObjectName (parseNsContext nctx) lex
    match d.toNat?, cur.toNat? with
    | some d, some cur => ({ s with calls := ⟨d, cur, pu == "p", form == "pred", name, .str (unval v)⟩ :: s.calls }, "ok")
    | _, _ => (s, "bad")
  | ["call", d, cur, pu, form, lex, "ns", ad, pat, nctx] =>
    let name := resolveObjectName (parseNsContext nctx) lex
    match d.toNat?, cur.toNat?, (ad.splitOn "+").mapM String.toNat?, parsePattern pat with
    | some d, some cur, some ad, some p =>
      ({ s with calls := ⟨d, cur, pu == "p", form == "pred", name, .ns ad p⟩ :: s.calls }, "ok")
    | _, _, _, _ => ({ s with bad := true }, "bad call")
  | "file" :: _ => (s, "ok")
  | "run" :: _ => if s.bad then (s, "bad") else (s, runAll s)
  | _ => (s, "bad")

end Driver.C15

def main : IO Unit := Driver.run ({} : Driver.C15.St) Driver.C15.step
