import XalanModel.C15.Concrete
import XalanModel.Generated.C15_FunctionKey
import Driver.Util
/-
xm_c15: replays key scenarios on the Lean model (XalanModel/C15/Keys.lean, the transcription of
KeyTable / StylesheetRoot::getNodeSetByKey / FunctionKey) with the concrete pattern / use evaluators.

Requests (one reply line each; lines meant for the C++ harness only are answered `ok`):
  case <id>                                   reset
  doc <k> <tokens…>                           document k (0 = main source), see Concrete.parseDoc
  sheet <sid> <parent|->                      stylesheet module (sid 0 = root; parent imports it, in this order)
  decl <sid> <name> <pattern> <use>           xsl:key in module sid
  call <ctxdoc> <name> str <value|->          key(name, 'value') with a context node in document ctxdoc
  call <ctxdoc> <name> ns <argdoc> <pattern>  key(name, <all nodes of argdoc matching pattern>)
  file … / anything else known to the harness → ok
  run …                                       → for every call, in order:  K=<as-written model> S=<specification> F=<E when the regenerated FunctionKey guard shapes K, else ->
                                                 each `ERR` or a comma list of document-order numbers (`-` = empty)
-/
open XalanModel.C15 XalanModel.C15.Concrete

namespace Driver.C15

inductive CallArg where
  | str (s : String)
  | ns (doc : Nat) (pat : List PathPat)

structure CallReq where
  doc : Nat
  name : String
  arg : CallArg

structure St where
  docs : List (Nat × Doc) := []
  sheets : List (Nat × Option Nat) := []          -- (sid, parent) in arrival order
  decls : List (Nat × String × List PathPat × UseExpr) := []   -- (sid, name, pattern, use) in arrival order
  calls : List CallReq := []
  bad : Bool := false

def St.doc (s : St) (k : Nat) : Doc := ((s.docs.find? fun p => p.1 = k).map (·.2)).getD default

/-- the import tree below module `sid` (fuel = number of modules) -/
def buildSheet (s : St) (docs : Nat → Doc) : Nat → Nat → Sheet String CNode
  | 0, _ => Sheet.mk [] []
  | fuel + 1, sid =>
    let own := (s.decls.filter fun d => d.1 = sid).map fun d => mkDecl docs d.2.1 d.2.2.1 d.2.2.2
    let kids := (s.sheets.filter fun p => p.2 = some sid).map fun p => buildSheet s docs fuel p.1
    Sheet.mk own kids

def showList (l : List CNode) : String :=
  if l.isEmpty then "-" else ",".intercalate (l.map fun n => toString n.idx)

def showRes : Option (List CNode) → String
  | none => "ERR"
  | some l => showList l

def argOf (s : St) : CallArg → KeyArg
  | .str v => .str v
  | .ns k pat =>
    let d := s.doc k
    .nodeset ((d.tree.docOrder.filter (matchPattern d pat)).map (·.value))

/-- the environment of the transformation -/
def envOf (s : St) : Env String CNode Nat :=
  let docs : Nat → Doc := s.doc
  let root := buildSheet s docs (s.sheets.length + 1) 0
  { keyDeclarations := root.postConstruction, doc := fun k => (docs k).tree, idx := fun n => n.idx,
    isDoc := fun n => n.kind = .root }

def runAll (s : St) : String :=
  let skip := XalanModel.Generated.C15_FunctionKey.skipEmptyRefs
  let calls := s.calls.reverse
  let cs := calls.map fun c => ({ doc := c.doc, name := c.name, arg := argOf s c.arg } : Call String Nat)
  let env := envOf s
  -- the code as written (the guard as regenerated from FunctionKey.cpp) and without the guard
  let kFull := runCalls env skip [] cs
  let kNoE := runCalls env false [] cs
  let ss := calls.map fun c =>
    let vals := (argOf s c.arg).values
    -- specification: union over all string values of the argument; an undeclared name is an error
    -- (unless the argument is an empty node-set, where the result is empty whatever the name)
    if vals.isEmpty then some []
    else if declared env.keyDeclarations c.name then some (specKeyArg env.keyDeclarations (env.doc c.doc) c.name vals)
    else none
  let rows := List.zip kFull (List.zip ss kNoE)
  " ".intercalate (rows.map fun (k, sp, e) =>
    let same (a b : Option (List CNode)) : Bool := showRes a == showRes b
    s!"K={showRes k} S={showRes sp} F={if same k e then "-" else "E"}")

def step (s : St) : List String → St × String
  | ["case", _] => ({}, "ok")
  | "doc" :: k :: toks =>
    match k.toNat? with
    | some k =>
      match parseDoc k toks with
      | some d => ({ s with docs := s.docs ++ [(k, d)] }, s!"ok {d.nodes.size}")
      | none => ({ s with bad := true }, "bad doc")
    | none => (s, "bad")
  | ["sheet", sid, par] =>
    match sid.toNat? with
    | some sid => ({ s with sheets := s.sheets ++ [(sid, par.toNat?)] }, "ok")
    | none => (s, "bad")
  | ["decl", sid, name, pat, use] =>
    match sid.toNat?, parsePattern pat with
    | some sid, some p => ({ s with decls := s.decls ++ [(sid, name, p, parseUse use)] }, "ok")
    | _, _ => ({ s with bad := true }, "bad decl")
  | ["call", d, name, "str", v] =>
    match d.toNat? with
    | some d => ({ s with calls := ⟨d, name, .str (unval v)⟩ :: s.calls }, "ok")
    | none => (s, "bad")
  | ["call", d, name, "ns", ad, pat] =>
    match d.toNat?, ad.toNat?, parsePattern pat with
    | some d, some ad, some p => ({ s with calls := ⟨d, name, .ns ad p⟩ :: s.calls }, "ok")
    | _, _, _ => ({ s with bad := true }, "bad call")
  | "file" :: _ => (s, "ok")
  | "run" :: _ => if s.bad then (s, "bad") else (s, runAll s)
  | _ => (s, "bad")

end Driver.C15

def main : IO Unit := Driver.run ({} : Driver.C15.St) Driver.C15.step
