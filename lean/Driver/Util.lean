/-
Shared line-protocol loop for the `xm_cNN` drivers: one request per line on stdin, one reply
per line on stdout.  Core Lean only.
-/
namespace Driver

def splitWords (line : String) : List String :=
  (line.trimAscii.toString.splitOn " ").filter (· ≠ "")

partial def loop {σ : Type} (h : IO.FS.Stream) (out : IO.FS.Stream) (s : σ)
    (step : σ → List String → σ × String) : IO Unit := do
  let line ← h.getLine
  if line.isEmpty then
    out.flush
    return ()
  let (s', reply) := step s (splitWords line)
  out.putStrLn reply
  loop h out s' step

def run {σ : Type} (init : σ) (step : σ → List String → σ × String) : IO Unit := do
  let stdin ← IO.getStdin
  let stdout ← IO.getStdout
  loop stdin stdout init step

/-- lower-case hex of UTF-16 code units <-> list of code units (strings cross the pipe this way) -/
def hexDigit (c : Char) : Option Nat :=
  if '0' ≤ c ∧ c ≤ '9' then some (c.toNat - '0'.toNat)
  else if 'a' ≤ c ∧ c ≤ 'f' then some (c.toNat - 'a'.toNat + 10)
  else if 'A' ≤ c ∧ c ≤ 'F' then some (c.toNat - 'A'.toNat + 10)
  else none

def parseHex (s : String) : Option Nat :=
  s.toList.foldl (fun acc c => acc.bind fun a => (hexDigit c).map fun d => a * 16 + d) (some 0)

/-- "0061 0062" style is not used; units are 4 hex digits each, concatenated; "-" is the empty string -/
def unitsOfHex (s : String) : Option (List Nat) :=
  if s = "-" then some [] else
  let cs := s.toList
  if cs.length % 4 ≠ 0 then none else
  let rec go (fuel : Nat) (cs : List Char) (acc : List Nat) : Option (List Nat) :=
    match fuel, cs with
    | _, [] => some acc.reverse
    | 0, _ => none
    | f+1, a :: b :: c :: d :: rest =>
      match parseHex (String.ofList [a, b, c, d]) with
      | some n => go f rest (n :: acc)
      | none => none
    | _, _ => none
  go (cs.length + 1) cs []

def hex4 (n : Nat) : String :=
  let d (k : Nat) : Char := (if k < 10 then Char.ofNat (48 + k) else Char.ofNat (87 + k))
  String.ofList [d (n / 4096 % 16), d (n / 256 % 16), d (n / 16 % 16), d (n % 16)]

def hexOfUnits (l : List Nat) : String :=
  if l.isEmpty then "-" else String.join (l.map hex4)

end Driver
