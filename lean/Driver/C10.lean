import XalanModel.C10.Conflict
import Driver.Util
/-
xm_c10: template conflict resolution.  One request per line, one reply per line.

  reset
  sheet <path> <wrapperless 0|1>                 path = "-" (root module) or dot-separated import indices (document order);
                                                 parents before children, siblings in document order
  tmpl <path> <id> <mode> <prio|-> <pat> <applyImports 0|1>[c<named id>][w<mode>[b<named id>]][x = bare: the body is only the call] <nalts> {<last> <name|-> <shape 0 simple|1 multi-step|2 boolean predicate|3 positional predicate>}*
                                                 in document order of the module (xsl:include expanded)
       last ∈ fn root comment text node pi pilit ne na we wa nwe nwa
  node <id> <kind> <lname|-> <text|-> <kids…>    kind ∈ el at ns tx co pi rt ot ; ids are 0,1,2… in order
  match <tmpl id> <alt> <node ids…>              nodes the alternative matches (evaluated by the harness)
  query <node> <mode>                            → q=<toks> r=<toks> s=<toks> w=<n>  (quiet model, reporting model, §5.5 spec, warnings of the reporting model)
  targets <nalts> {<last> <name|-> <complex>}*   → getTargetData of the model: <pseudo>/<score>/<ttype> …
  lists <path> <kind> <lname|->                  → the list locateMatchPatternDataList would return: <tmpl>:<pos>:<prio> …
-/
open XalanModel.C10

namespace Driver.C10

structure St where
  sheets : List (SheetPath × Bool) := []
  tmpls : List (SheetPath × Tmpl) := []       -- document order
  nodes : Array NodeRec := #[]
  mts : List ((Nat × Nat) × List Nat) := []

def parsePath (s : String) : Option SheetPath :=
  if s = "-" then some [] else (s.splitOn ".").mapM (·.toNat?)

def parseLast (l name : String) : Option LastStep :=
  match l with
  | "fn" => some .function
  | "root" => some .fromRoot
  | "comment" => some .comment
  | "text" => some .text
  | "node" => some .node
  | "pi" => some .piAny
  | "pilit" => some .piLit
  | "ne" => some (.name false name)
  | "na" => some (.name true name)
  | "we" => some (.wild false false)
  | "wa" => some (.wild true false)
  | "nwe" => some (.wild false true)
  | "nwa" => some (.wild true true)
  | _ => none

def parseAlts : Nat → List String → Option (List AltDesc)
  | 0, [] => some []
  | 0, _ => none
  | n + 1, l :: name :: c :: rest => do
    let ls ← parseLast l name
    let cx ← c.toNat?
    let sh : Shape := if cx = 0 then .simple else if cx = 1 then .multi else if cx = 2 then .boolPred else .posPred
    let tl ← parseAlts n rest
    pure (⟨ls, sh⟩ :: tl)
  | _, _ => none

def parseKind : String → Option NodeKind
  | "el" => some .element | "at" => some .attribute | "ns" => some .nsDecl | "tx" => some .text
  | "co" => some .comment | "pi" => some .pi | "rt" => some .root | "ot" => some .other
  | _ => none

/-- assemble the module tree from the flat list -/
def mkSrc (st : St) : Nat → SheetPath → Src
  | 0, p => .mk false ((st.tmpls.filter (·.1 = p)).map (·.2)) []
  | f + 1, p =>
    let w := ((st.sheets.find? (·.1 = p)).map (·.2)).getD false
    let ts := (st.tmpls.filter (·.1 = p)).map (·.2)
    let kids := (st.sheets.filter fun s => s.1.length = p.length + 1 ∧ s.1.take p.length = p).map (·.1)
    .mk w ts (kids.map (mkSrc st f))

def amOf (st : St) (n : Nat) : AltMatch := fun t i =>
  match st.mts.find? (·.1 = (t.id, i)) with
  | some (_, ns) => ns.contains n
  | none => false

/-- the matcher the *implementation* model sees: `XPath::stepPattern` tests a final `node()` step on the node itself
without asking for a parent, so `node()` also accepts the root node, and `x/node()` leaves eMatchScoreOther in the
score holder before it notices that the root has no parent (a pattern-matching matter, property C09); visible only
through the whole-pattern test of a union that has another alternative filed in the root list. The translator reports
whether the guard that excludes the root is in the source (`nodeTestAcceptsRoot`). -/
def amImpl (st : St) (n : Nat) : AltMatch := fun t i =>
  amOf st n t i || (XalanModel.Generated.C10.nodeTestAcceptsRoot && (st.nodes.getD n default).kind == .root &&
    (t.alts[i]? == some ⟨.node, .simple⟩ || t.alts[i]? == some ⟨.node, .multi⟩))

def showToks (l : List Tok) : String :=
  if l.isEmpty then "-" else
  ",".intercalate (l.map fun
    | .rule id => s!"T{id}"
    | .text s => s!"V{s}")

def sheetOf (st : St) (t : Tmpl) : SheetPath :=
  ((st.tmpls.find? (·.2.id = t.id)).map (·.1)).getD []

def query (st : St) (n mode : Nat) : String :=
  let root := mkSrc st 8 []
  let info := fun (k : Nat) => st.nodes.getD k default
  let subOf := fun (t : Tmpl) => (root.sub (sheetOf st t)).getD root
  let named := fun (id : Nat) => (st.tmpls.find? (·.2.id = id)).map (·.2)
  let implKeeps := !XalanModel.Generated.C10.callTemplateChangesCurrentRule
  let implWp := !XalanModel.Generated.C10.withParamSeesCalleeMode
  let implDirect := !XalanModel.Generated.C10.directCallTemplateChangesCurrentRule
  let impl := fun (quiet : Bool) =>
    processWith st.nodes
      (fun k m => implFind (amImpl st k) (info k).kind (info k).lname m quiet root)
      (fun cur k m => implApplyImports (amImpl st k) (info k).kind (info k).lname m quiet (subOf cur))
      named implKeeps implDirect implWp 10000 n mode none []
  let spec :=
    processWith st.nodes
      (fun k m => specWinner (amOf st k) m root)
      (fun cur k m => specApplyImports (amOf st k) m (subOf cur))
      named true true true 10000 n mode none []
  let warns :=
    warnsWith st.nodes
      (fun k m => implFind (amImpl st k) (info k).kind (info k).lname m false root)
      (fun cur k m => implApplyImports (amImpl st k) (info k).kind (info k).lname m false (subOf cur))
      (fun k m => root.build.warn (amImpl st k) (info k).kind (info k).lname m false)
      (fun cur k m => (subOf cur).build.warn (amImpl st k) (info k).kind (info k).lname m true)
      named implKeeps implDirect implWp 10000 n mode none
  s!"q={showToks (impl true)} r={showToks (impl false)} s={showToks spec} w={warns}"

def showPseudo : Pseudo → String
  | .text => "TEXT" | .comment => "COMMENT" | .root => "ROOT" | .pi => "PI" | .node => "NODE" | .any => "ANY"
  | .name s => s!"name:{s}"

def showScore : DefScore → String
  | .nodeTest => "NodeTest" | .nsWild => "NSWild" | .qname => "QName" | .other => "Other"

def showTType : TType → String
  | .attribute => "eAttribute" | .element => "eElement" | .any => "eAny" | .other => "eOther"

def step (st : St) : List String → St × String
  | ["reset"] => ({}, "ok")
  | ["sheet", p, w] => match parsePath p, w.toNat? with
    | some p, some w => ({ st with sheets := st.sheets ++ [(p, w != 0)] }, "ok")
    | _, _ => (st, "bad")
  | "tmpl" :: p :: id :: mode :: prio :: pat :: ai :: na :: rest =>
    let bare := ai.endsWith "x"
    let ai := if bare then (ai.dropRight 1) else ai
    let wSplit := ai.splitOn "w"
    let ai := wSplit.headD "0"
    let wPart := ((wSplit.drop 1).headD "").splitOn "b"
    let wpMode := (wPart.headD "").toNat?.getD 0
    let wpCall := ((wPart.drop 1).headD "0").toNat?.getD 0
    let aiParts := ai.splitOn "c"
    let aiFlag := (aiParts.headD "0")
    let callId := ((aiParts.drop 1).headD "0").toNat?.getD 0
    match parsePath p, id.toNat?, mode.toNat?, pat.toNat?, (if aiFlag = "" then some 0 else aiFlag.toNat?), na.toNat? with
    | some p, some id, some mode, some pat, some ai, some na =>
      let pr : Option (Option Int) := if prio = "-" then some none else (prio.toInt?).map some
      match pr, parseAlts na rest with
      | some pr, some alts =>
        ({ st with tmpls := st.tmpls ++ [(p, { id := id, mode := mode, prio := pr, pat := pat, alts := alts,
                                               applyImports := ai != 0, call := callId, wpMode := wpMode,
                                               wpCall := wpCall, bare := bare })] }, "ok")
      | _, _ => (st, "bad")
    | _, _, _, _, _, _ => (st, "bad")
  | "node" :: id :: k :: ln :: tx :: kids =>
    match id.toNat?, parseKind k, kids.mapM (·.toNat?) with
    | some id, some k, some kids =>
      if id ≠ st.nodes.size then (st, "bad") else
      ({ st with nodes := st.nodes.push ⟨k, if ln = "-" then "" else ln, kids, if tx = "-" then "" else tx⟩ }, "ok")
    | _, _, _ => (st, "bad")
  | "match" :: t :: a :: ns =>
    match t.toNat?, a.toNat?, ns.mapM (·.toNat?) with
    | some t, some a, some ns => ({ st with mts := ((t, a), ns) :: st.mts }, "ok")
    | _, _, _ => (st, "bad")
  | ["query", n, mode] => match n.toNat?, mode.toNat? with
    | some n, some mode => (st, query st n mode)
    | _, _ => (st, "bad")
  | "targets" :: na :: rest => match na.toNat? with
    | some na => match parseAlts na rest with
      | some alts =>
        (st, " ".intercalate (alts.map fun a =>
          let td := targetData a
          s!"{showPseudo td.pseudo}/{showScore td.score}/{showTType td.ttype}"))
      | none => (st, "bad")
    | none => (st, "bad")
  | ["lists", p, k, ln] => match parsePath p, parseKind k with
    | some p, some k =>
      let root := mkSrc st 8 []
      match root.sub p with
      | some s =>
        let l := locate (buildTables s.templates) k (if ln = "-" then "" else ln)
        (st, if l.isEmpty then "-" else " ".intercalate (l.map fun m => s!"{m.tmpl.id}:{m.pos}:{m.prioOrDefault}"))
      | none => (st, "bad")
    | _, _ => (st, "bad")
  | _ => (st, "bad")

end Driver.C10

/-- same loop as `Driver.run`, but flushing after every reply: the check talks to this driver interactively
while it shrinks a failing rule set -/
partial def Driver.C10.loop (i o : IO.FS.Stream) (s : Driver.C10.St) : IO Unit := do
  let line ← i.getLine
  if line.isEmpty then
    o.flush
    return ()
  let (s', reply) := Driver.C10.step s (Driver.splitWords line)
  o.putStrLn reply
  o.flush
  Driver.C10.loop i o s'

def main : IO Unit := do
  Driver.C10.loop (← IO.getStdin) (← IO.getStdout) {}
