import XalanModel.C01.Spec
import XalanModel.C01.Avt
import Driver.Util
/-!
Reader for the request lines of `xm_c01`: documents as flat node records, stylesheets as
s-expressions (tokens separated by blanks; strings as `x` + hex of the bytes, `-` = empty).
Driver glue only (not part of the model); `partial` recursion over the s-expression tree.
-/
open XalanModel.C01

namespace Driver.C01

inductive SExp | atom (s : String) | list (l : List SExp)
deriving Inhabited

/-- iterative reader: a stack of partially read lists (innermost first, each reversed) -/
def readSExp (toks : List String) : Option SExp :=
  let rec go : List String → List (List SExp) → Option SExp
    | [], [[x]] => some x
    | [], _ => none
    | t :: ts, st =>
      if t = "(" then go ts ([] :: st)
      else if t = ")" then
        match st with
        | cur :: parent :: rest => go ts ((SExp.list cur.reverse :: parent) :: rest)
        | _ => none
      else match st with
        | cur :: rest => go ts ((SExp.atom t :: cur) :: rest)
        | [] => none
  go toks [[]]

def hexByte (a b : Char) : Option Char := do
  let x ← Driver.hexDigit a
  let y ← Driver.hexDigit b
  some (Char.ofNat (x * 16 + y))

def decodeStr (t : String) : Option String :=
  if t = "-" then some "" else
  match t.toList with
  | 'x' :: cs =>
    let rec go : List Char → List Char → Option (List Char)
      | [], acc => some acc.reverse
      | a :: b :: rest, acc => (hexByte a b).bind fun c => go rest (c :: acc)
      | _, _ => none
    (go cs []).map String.ofList
  | _ => none

def hex2 (n : Nat) : String :=
  let d (k : Nat) : Char := (if k < 10 then Char.ofNat (48 + k) else Char.ofNat (87 + k))
  String.ofList [d (n / 16 % 16), d (n % 16)]

def encodeStr (s : String) : String :=
  if s.isEmpty then "-" else "x" ++ String.join (s.toUTF8.toList.map fun b => hex2 b.toNat)

def atomStr : SExp → Option String
  | .atom t => decodeStr t
  | _ => none

def optStr : SExp → Option (Option String)
  | .atom "none" => some none
  | .atom t => (decodeStr t).map some
  | _ => none

def parseAxis : String → Option Axis
  | "child" => some .child | "attribute" => some .attribute | "descendant" => some .descendant
  | "descendant-or-self" => some .descendantOrSelf | "self" => some .self | "parent" => some .parent
  | "ancestor" => some .ancestor | "ancestor-or-self" => some .ancestorOrSelf
  | "following-sibling" => some .followingSibling | "preceding-sibling" => some .precedingSibling
  | _ => none

def parseTest : SExp → Option NodeTest
  | .atom "star" => some .star | .atom "text" => some .text | .atom "node" => some .node
  | .atom "comment" => some .comment | .atom "pi" => some .pi
  | .list [.atom "name", .atom s] => (decodeStr s).map .name
  | .list [.atom "piname", .atom s] => (decodeStr s).map .piNamed
  | .list [.atom "nsstar", .atom s] => (decodeStr s).map .nsStar
  | _ => none

partial def parseExpr : SExp → Option Expr
  | .list [.atom "lit", .atom s] => (decodeStr s).map .lit
  | .list [.atom "num", .atom n] => n.toNat?.map .num
  | .list [.atom "var", .atom s] => (decodeStr s).map .var
  | .list (.atom "fn" :: .atom f :: args) => (args.mapM parseExpr).map (.fn f)
  | .list [.atom "bin", .atom op, a, b] => do
    let x ← parseExpr a
    let y ← parseExpr b
    some (.bin op x y)
  | .list [.atom "neg", a] => (parseExpr a).map .neg
  | .list [.atom "root"] => some .root
  | .list [.atom "ctx"] => some .ctx
  | .list [.atom "step", b, .atom ax, t, .list preds] => do
    let base ← parseExpr b
    let axis ← parseAxis ax
    let test ← parseTest t
    let ps ← preds.mapM parseExpr
    some (.step base axis test ps)
  | .list [.atom "filt", b, p] => do
    let base ← parseExpr b
    let pr ← parseExpr p
    some (.filt base pr)
  | _ => none

def optExpr : SExp → Option (Option Expr)
  | .atom "none" => some none
  | e => (parseExpr e).map some

def parseAvt : SExp → Option (List AvtPart)
  -- `( raw <text> )`: the attribute's text as written; the model's own §7.6.2 parser `Avt.avtParse` splits it
  | .list [.atom "raw", .atom s] => do
    let t ← decodeStr s
    (XalanModel.C01.Avt.avtParse t).map XalanModel.C01.Avt.toParts
  | .list parts => parts.mapM fun p => match p with
    | .list [.atom "l", .atom s] => (decodeStr s).map .lit
    | .list [.atom "e", e] => (parseExpr e).map .expr
    | _ => none
  | _ => none

def parseSort : SExp → Option SortKey
  | .list [.atom "sort", e, .atom dt, .atom ord] => do
    let sel ← parseExpr e
    some { select := sel, numeric := dt = "num", desc := ord = "desc" }
  | _ => none

partial def parseInstr : SExp → Option Instr
  | .list [.atom "text", .atom s] => (decodeStr s).map .text
  | .list [.atom "valueof", e] => (parseExpr e).map .valueOf
  | .list [.atom "lre", .atom n, .list attrs, .list body] => do
    let name ← decodeStr n
    let as ← attrs.mapM fun a => match a with
      | .list [.atom an, avt] => do
        let k ← decodeStr an
        let v ← parseAvt avt
        some (k, v)
      | _ => none
    let b ← body.mapM parseInstr
    some (.lre name as b)
  | .list [.atom "element", avt, .list body] => do
    let n ← parseAvt avt
    let b ← body.mapM parseInstr
    some (.element n b)
  | .list [.atom "elementNS", avt, nsavt, .list body] => do
    let n ← parseAvt avt
    let ns ← parseAvt nsavt
    let b ← body.mapM parseInstr
    some (.elementNs n ns b)
  | .list [.atom "attributeNS", avt, nsavt, .list body] => do
    let n ← parseAvt avt
    let ns ← parseAvt nsavt
    let b ← body.mapM parseInstr
    some (.attributeNs n ns b)
  | .list [.atom "attribute", avt, .list body] => do
    let n ← parseAvt avt
    let b ← body.mapM parseInstr
    some (.attribute n false b)
  | .list [.atom "attributeN", avt, .list body] => do
    let n ← parseAvt avt
    let b ← body.mapM parseInstr
    some (.attribute n true b)
  | .list [.atom "comment", .list body] => (body.mapM parseInstr).map .comment
  | .list [.atom "pi", avt, .list body] => do
    let n ← parseAvt avt
    let b ← body.mapM parseInstr
    some (.pi n b)
  | .list [.atom "copy", .list body] => (body.mapM parseInstr).map .copy
  | .list [.atom "copyof", e] => (parseExpr e).map .copyOf
  | .list [.atom "apply", sel, mode, .list sorts, .list params] => do
    let s ← optExpr sel
    let m ← optStr mode
    let ks ← sorts.mapM parseSort
    let ps ← params.mapM parseInstr
    some (.applyTemplates s m ks ps)
  | .list [.atom "call", .atom n, .list params] => do
    let name ← decodeStr n
    let ps ← params.mapM parseInstr
    some (.callTemplate name ps)
  | .list [.atom "foreach", e, .list sorts, .list body] => do
    let sel ← parseExpr e
    let ks ← sorts.mapM parseSort
    let b ← body.mapM parseInstr
    some (.forEach sel ks b)
  | .list [.atom "if", e, .list body] => do
    let t ← parseExpr e
    let b ← body.mapM parseInstr
    some (.if_ t b)
  | .list [.atom "choose", .list whens, .list other] => do
    let ws ← whens.mapM parseInstr
    let o ← other.mapM parseInstr
    some (.choose ws o)
  | .list [.atom "when", e, .list body] => do
    let t ← parseExpr e
    let b ← body.mapM parseInstr
    some (.when t b)
  | .list [.atom "variable", .atom n, sel, .list body] => do
    let name ← decodeStr n
    let s ← optExpr sel
    let b ← body.mapM parseInstr
    some (.variable name s b)
  | .list [.atom "param", .atom n, sel, .list body] => do
    let name ← decodeStr n
    let s ← optExpr sel
    let b ← body.mapM parseInstr
    some (.param name s b)
  | .list [.atom "applyimports"] => some .applyImports
  | .list (.atom "usesets" :: names) => (names.mapM atomStr).map .useSets
  | .list [.atom "number", e, .atom lvl, .list pats, .atom f, .list fr] => do
    let v ← optExpr e
    let ps ← pats.mapM parseExpr
    let fmt ← decodeStr f
    let fs ← fr.mapM parseExpr
    some (.number v lvl ps fmt fs)
  | .list [.atom "number", e, .atom lvl, .list pats, .atom f] => do
    let v ← optExpr e
    let ps ← pats.mapM parseExpr
    let fmt ← decodeStr f
    some (.number v lvl ps fmt)
  | .list [.atom "withparam", .atom n, sel, .list body] => do
    let name ← decodeStr n
    let s ← optExpr sel
    let b ← body.mapM parseInstr
    some (.withParam name s b)
  | _ => none

def parseTemplate : SExp → Option Template
  | .list [.atom "template", .list pats, name, mode, .atom prio, .atom prec, .atom low, .list body] => do
    let ps ← pats.mapM parseExpr
    let n ← optStr name
    let m ← optStr mode
    let pr ← if prio = "none" then some none else prio.toInt?.map some
    let pc ← prec.toNat?
    let lo ← low.toNat?
    let b ← body.mapM parseInstr
    some { pats := ps, name := n, mode := m, prio := pr, body := b, prec := pc, low := lo }
  | .list [.atom "template", .list pats, name, mode, .atom prio, .atom prec, .list body] => do
    let ps ← pats.mapM parseExpr
    let n ← optStr name
    let m ← optStr mode
    let pr ← if prio = "none" then some none else prio.toInt?.map some
    let pc ← prec.toNat?
    let b ← body.mapM parseInstr
    some { pats := ps, name := n, mode := m, prio := pr, body := b, prec := pc }
  | .list [.atom "template", .list pats, name, mode, .atom prio, .list body] => do
    let ps ← pats.mapM parseExpr
    let n ← optStr name
    let m ← optStr mode
    let pr ← if prio = "none" then some none else prio.toInt?.map some
    let b ← body.mapM parseInstr
    some { pats := ps, name := n, mode := m, prio := pr, body := b }
  | _ => none

def parseAttrSet : SExp → Option AttrSet
  | .list [.atom "attrset", .atom n, .atom prec, .list uses, .list body] => do
    let name ← decodeStr n
    let pc ← prec.toNat?
    let us ← uses.mapM atomStr
    let b ← body.mapM parseInstr
    some { name := name, uses := us, body := b, prec := pc }
  | .list [.atom "attrset", .atom n, .list uses, .list body] => do
    let name ← decodeStr n
    let us ← uses.mapM atomStr
    let b ← body.mapM parseInstr
    some { name := name, uses := us, body := b }
  | _ => none

def parseKey : SExp → Option KeyDecl
  | .list [.atom "key", .atom n, .list pats, use] => do
    let name ← decodeStr n
    let ps ← pats.mapM parseExpr
    let u ← parseExpr use
    some { name := name, pats := ps, use := u }
  | _ => none

def parseStylesheet : SExp → Option Stylesheet
  | .list [.atom "stylesheet", .list globals, .list templates, .list sets, .list keys, .list strip, .list alias] => do
    let gs ← globals.mapM parseInstr
    let ts ← templates.mapM parseTemplate
    let as ← sets.mapM parseAttrSet
    let ks ← keys.mapM parseKey
    let st ← strip.mapM atomStr
    let al ← alias.mapM fun x => match x with
      | .list [.atom a, .atom b] => do
        let a' ← decodeStr a
        let b' ← decodeStr b
        some (a', b')
      | _ => none
    some { templates := ts, globals := gs, attrSets := as, keys := ks, stripSpace := st, nsAlias := al }
  | .list [.atom "stylesheet", .list globals, .list templates, .list sets, .list keys, .list strip] => do
    let gs ← globals.mapM parseInstr
    let ts ← templates.mapM parseTemplate
    let as ← sets.mapM parseAttrSet
    let ks ← keys.mapM parseKey
    let st ← strip.mapM atomStr
    some { templates := ts, globals := gs, attrSets := as, keys := ks, stripSpace := st }
  | .list [.atom "stylesheet", .list globals, .list templates, .list sets, .list keys] => do
    let gs ← globals.mapM parseInstr
    let ts ← templates.mapM parseTemplate
    let as ← sets.mapM parseAttrSet
    let ks ← keys.mapM parseKey
    some { templates := ts, globals := gs, attrSets := as, keys := ks }
  | .list [.atom "stylesheet", .list globals, .list templates] => do
    let gs ← globals.mapM parseInstr
    let ts ← templates.mapM parseTemplate
    some { templates := ts, globals := gs }
  | .list [.atom "stylesheet", .list globals, .list templates, .list sets] => do
    let gs ← globals.mapM parseInstr
    let ts ← templates.mapM parseTemplate
    let as ← sets.mapM parseAttrSet
    some { templates := ts, globals := gs, attrSets := as }
  | _ => none

def parseKind : String → Option NKind
  | "R" => some .root | "E" => some .elem | "A" => some .attr | "T" => some .text
  | "C" => some .comment | "P" => some .pi | _ => none

/-- `<kind> <name> <value> <parent> <uri>` records up to `;`; returns the document and the remaining tokens -/
def parseDoc (toks : List String) : Option (Doc × List String) :=
  let rec go : Nat → List String → List SNode → Option (Doc × List String)
    | _, ";" :: rest, acc => some ({ nodes := acc.reverse.toArray }, rest)
    | f+1, k :: n :: v :: p :: u :: rest, acc => do
      let kind ← parseKind k
      let name ← decodeStr n
      let value ← decodeStr v
      let parent ← p.toNat?
      let uri ← decodeStr u
      go f rest ({ kind := kind, name := name, value := value, parent := parent, uri := uri } :: acc)
    | _, _, _ => none
  go toks.length toks []

def showEv : REv → String
  | .start n => "S:" ++ n
  | .attr n v => "A:" ++ n ++ "=" ++ encodeStr v
  | .text s => "T:" ++ encodeStr s
  | .comment s => "C:" ++ encodeStr s
  | .pi t d => "P:" ++ t ++ ":" ++ encodeStr d
  | .stop n => "E:" ++ n
  | .attrU n v => "A:" ++ n ++ "=" ++ encodeStr v

def showEvs (evs : List REv) : String := " ".intercalate (evs.map showEv)

end Driver.C01
