import XalanModel.C16.Sort
import XalanModel.C16.Position
import Driver.Util
/-
xm_c16: the sort model behind the line protocol.

Request (one line, fields separated by single spaces; trailing fields are ignored by the model and used
by the C++ harness):
  sort  <keys> <n> <vals> [<xml-hex> <xsl-hex>]      model: processing order with position()/last()
  check <keys> <n> <vals> <order>                    specification predicate on an observed order
  sortu <keys> <n> <vals> <matrix> [<xml-hex> <xsl-hex>]   as `sort`; text values are `s<i>` = i-th string of a table whose
  checku <keys> <n> <vals> <matrix> <order>                collation is, per key (`;`-separated, `-` for number keys), the m×m sign matrix (`-`,`0`,`+`, row-major;
                                                           string 0 is the empty string) answered by the library's ICU functor
  collcheck <matrix>                                 is the matrix a three-way total preorder (hypothesis CollationOK on the sample)
  coll …                                             (harness only; the model answers `-`)
    keys  = `-` | k(,k)*          k = <data-type>/<order>/<case-order>  evaluated attribute values of one xsl:sort
                                   (`~` = attribute absent, `^` = empty string, `p:x` = QName in a namespace)
    vals  = `-` | row(;row)*      row = v(,v)*   one value per key:
                                   number key: 16 hex digits (IEEE-754 bits of the evaluated key)
                                   text key:   lower-case ASCII letters, `_` = empty string
    order = `-` | i(,i)*          original positions (0-based) in processing order
Reply:
  sort  → `out i:pos:last(,i:pos:last)* evals=<m> pure=<same|DIFF> spec=<verdict>` (`out -` for no nodes)
          `err` when decoding an xsl:sort raises an error (only reached with more than one node), or when the last key
          token is `BOOM` (key expression raising a run-time error; reached iff two nodes tie on all keys before it) or
          `AVTBOOM` (its order AVT raises).  The driver threads ONE `Sorter` through all `sort`/`sortu` lines of a stream,
          like the transformer's execution context does.
  check → `ok` | `bad …`
-/
open XalanModel.C16

namespace Driver.C16

/-- `dt/order/caseorder`, each a raw attribute value, `~` = attribute absent, `^` = empty string -/
def parseRaw (s : String) : Option RawSort :=
  let f (t : String) : Option String := if t = "~" then none else if t = "^" then some "" else some t
  match s.splitOn "/" with
  | [dt, o, co] => some ⟨f dt, (dt.splitOn ":").length > 1, f o, f co⟩
  | _ => none

def parseList {β : Type} (sep : String) (f : String → Option β) (s : String) : Option (List β) :=
  if s = "-" then some [] else (s.splitOn sep).mapM f

inductive Val where
  | num (d : Dbl)
  | txt (s : Str)

def parseVal (key : Key) (s : String) : Option Val :=
  if key.number then
    if s.length = 16 then (Driver.parseHex s).map fun b => Val.num (Dbl.ofBits b) else none
  else if s = "_" then some (Val.txt [])
  else if s.startsWith "s" ∧ (s.drop 1).toString.toNat?.isSome then
    -- table index (sortu): index 0 is the empty string
    match (s.drop 1).toString.toNat? with
    | some 0 => some (Val.txt [])
    | some i => some (Val.txt [i])
    | none => none
  else if s.toList.all (fun c => 'a' ≤ c ∧ c ≤ 'z') ∧ s ≠ "" then some (Val.txt (s.toList.map Char.toNat))
  else none

def parseRow (keys : List Key) (s : String) : Option (List Val) :=
  let parts := s.splitOn ","
  -- a trailing `x` column belongs to the aborting key
  let parts := if parts.length = keys.length + 1 && parts.getLast? = some "x" then parts.dropLast else parts
  if keys.isEmpty && parts = [""] then some []
  else if parts.length ≠ keys.length then none else (keys.zip parts).mapM fun (k, p) => parseVal k p

def parseMatrix (s : String) : Option (List Int) :=
  s.toList.mapM fun c => if c = '-' then some (-1) else if c = '0' then some 0 else if c = '+' then some 1 else none

def isqrt (n : Nat) : Nat := ((List.range (n + 1)).find? fun m => m * m ≥ n).getD 0

structure Case where
  /-- a last xsl:sort whose key expression (`BOOM`) or whose order AVT (`AVTBOOM`) raises a run-time error when evaluated -/
  boom : Option Bool := none
  raws : List RawSort
  /-- decoded keys; `none` = sortChildren raises an error -/
  keys? : Option (List Key)
  n : Nat
  rows : Array (Array Val)
  /-- collation tables, one per key (sortu/checku; an empty table for number keys); `none` = code-unit order -/
  table : Option (List (Nat × List Int)) := none

def Case.keys (c : Case) : List Key := c.keys?.getD []

/-- the value columns are typed by the *intended* keys: number iff the data-type value is `number` -/
def intended (r : RawSort) : Key := ⟨r.dataType == some "number", r.order == some "descending"⟩

def parseCase (keys n vals : String) : Option Case := do
  let toks := if keys = "-" then [] else keys.splitOn ","
  let boom : Option Bool := match toks.getLast? with
    | some "BOOM" => some false
    | some "AVTBOOM" => some true
    | _ => none
  let keys := if boom.isSome then (if toks.length ≤ 1 then "-" else ",".intercalate toks.dropLast) else keys
  let raws ← parseList "," parseRaw keys
  let n ← n.toNat?
  let rows ← parseList ";" (parseRow (raws.map intended)) vals
  if rows.length ≠ n then none
  else some ⟨boom, raws, decodeSorts raws, n, (rows.map List.toArray).toArray, none⟩

def parseCaseU (keys n vals mat : String) : Option Case := do
  let c ← parseCase keys n vals
  let ms ← (mat.splitOn ";").mapM fun t => if t = "-" then some [] else parseMatrix t
  if ms.length ≠ c.raws.length then none
  else some { c with table := some (ms.map fun m => (isqrt m.length, m)) }

def Case.env (c : Case) : Env Nat where
  scmp := fun k a b => match c.table with
    | none => strCompare a b
    | some ts => let (m, mat) := ts.getD k (0, []); tableCmp m mat a b
  num := fun k i => match (c.rows.getD i #[]).getD k (Val.num Dbl.nan) with
    | .num d => d
    | .txt _ => Dbl.nan
  str := fun k i => match (c.rows.getD i #[]).getD k (Val.txt []) with
    | .txt s => s
    | .num _ => []

/-- what the body prints, computed through the context-list stack with its position cache: for every node of the
sorted list an inner loop over its preceding siblings and itself (document order, so the cache last holds the node's
INNER position), then position() and last() with nothing in between (Props.C16.body_position_after_inner) -/
def processViaStack (sorted : List Nat) : List (Nat × Nat × Nat) :=
  sorted.map fun x =>
    let vals := posRun posStep ⟨[sorted], none⟩ (bodyOps (List.range (x + 1)) x)
    (x, vals.getD (vals.length - 2) 0, vals.getD (vals.length - 1) 0)

def showTriples (l : List (Nat × Nat × Nat)) : String :=
  if l.isEmpty then "-" else ",".intercalate (l.map fun (i, p, n) => s!"{i}:{p}:{n}")

def doSort (st : Sorter Nat) (c : Case) : Sorter Nat × String :=
  let env := c.env
  let nodes := List.range c.n
  -- ElemForEach: sortChildren (decode + sort) only with xsl:sort children and more than one node
  if (c.raws.length > 0 || c.boom.isSome) && nodes.length > 1 then
    match c.keys? with
    | none => (st, "err")
    | some keys =>
      -- the aborting xsl:sort: its order AVT is evaluated while the keys are collected; its key expression is
      -- evaluated when a comparison reaches it, i.e. when two nodes tie on all keys before it
      let aborts := match c.boom with
        | some true => true
        | some false => existsTie env keys nodes
        | none => false
      if aborts then
        -- the exception leaves the sort with the caches in some populated state; the guards clear them
        let populated := (isortM env keys nodes.length (scratch nodes) st.caches).1
        ((sortOnce env keys nodes (some populated) st).1, "err")
      else
        let pure := selectAndSort env keys nodes
        -- the cache-threading insertion sort is quadratic (and its rows are lists): beyond 400 nodes use the
        -- merge-sort model it is proved equal to (Props.C16.sortNodesM_eq_sortNodes)
        let (st', sorted, evals) :=
          if c.n ≤ 400 then
            let r := sortOnce env keys nodes none st
            let caches := (isortM env keys nodes.length (scratch nodes) st.caches).1
            (r.1, r.2.getD [], caches.numEvals.length + caches.strEvals.length)
          else (st, pure, 0)
        let verdict := specVerdict (fun a b => specCompare env keys 0 a b) c.n sorted
        -- the libstdc++-shaped algorithm must agree as well (Props.C16.libStableSort_contract)
        let lib := sortNodesLib env keys nodes
        -- cubic in the list length: only for lists up to 60 nodes
        let viaStack := if c.n ≤ 60 then processViaStack sorted else process sorted
        (st', s!"out {showTriples viaStack} evals={evals} pure={if pure = sorted && lib = sorted && viaStack = process sorted then "same" else "DIFF"} spec={verdict}")
  else
    (st, s!"out {showTriples (process nodes)} evals=0 pure=same spec=ok")

def doCheck (c : Case) (o : List Nat) : String :=
  if c.raws.isEmpty || c.n ≤ 1 then (if o = List.range c.n then "ok" else "bad order-changed-without-sorting")
  else match c.keys? with
    | none => "bad expected-error"
    | some keys => specVerdict (fun a b => specCompare c.env keys 0 a b) c.n o

def step (st : Sorter Nat) : List String → Sorter Nat × String
  | "sort" :: keys :: n :: vals :: _ =>
    match parseCase keys n vals with
    | none => (st, "bad-request")
    | some c => doSort st c
  | "sortu" :: keys :: n :: vals :: mat :: _ =>
    match parseCaseU keys n vals mat with
    | none => (st, "bad-request")
    | some c => doSort st c
  | ["check", keys, n, vals, order] =>
    match parseCase keys n vals, parseList "," String.toNat? order with
    | some c, some o => (st, doCheck c o)
    | _, _ => (st, "bad-request")
  | ["checku", keys, n, vals, mat, order] =>
    match parseCaseU keys n vals mat, parseList "," String.toNat? order with
    | some c, some o => (st, doCheck c o)
    | _, _ => (st, "bad-request")
  | ["collcheck", mat] =>
    match parseMatrix mat with
    | some m =>
      let k := isqrt m.length
      (st, if k * k ≠ m.length then "bad-request"
           else if tableOk k (fun i j => m.getD (i * k + j) 0) then "ok" else "bad not-a-three-way-total-preorder")
    | none => (st, "bad-request")
  | "coll" :: _ => (st, "-")
  | _ => (st, "bad-request")

end Driver.C16

def main : IO Unit := Driver.run ({} : XalanModel.C16.Sorter Nat) Driver.C16.step
