import XalanModel.C12.Tree
import XalanModel.C12.NodeList
import XalanModel.C12.Walks
import Driver.Util
/-
xm_c12: replays the C12 request stream (see harness/c12_nodelist.cpp for the protocol) on the Lean
model of MutableNodeRefList / DOMServices::isNodeAfter / XPath::Union.

Extra request understood by the model only (the harness answers `ok`):
  variant asis|fixed doclast|docfirst nogroups|groups
      which "one is the ancestor of the other" edge the structural comparison uses, and whether
      addNodeInDocOrder puts a document node first (proposed/C12-docnode-first.diff) or treats it as written
-/
open XalanModel.C12

namespace Driver.C12

structure DocM where
  tree : Tree
  paths : Array Path
  /-- namespace-declaration attributes: (element, position among its attributes, name: 'x' = xmlns:xml, 'p' = xmlns:p1) -/
  ns : List (Path × Nat × Char) := []
  /-- the element nodes (the tree model does not distinguish an empty element from a text/comment/PI leaf) -/
  elems : List Path := []

structure St where
  rep : Char := 'S'
  fixedEdge : Bool := false
  docNodeFirst : Bool := false
  groupAware : Bool := false
  docs : List (Nat × DocM) := []
  lists : Array (List (Option NodeRef) × Order) := Array.replicate 8 ([], Order.unknown)

/-- shape grammar: node := 'e' digit '(' node* ')' | 't' | 'c' | 'p' -/
partial def parseNodes (cs : List Char) (acc : List Tree) : Option (List Tree × List Char) :=
  match cs with
  | [] => some (acc.reverse, [])
  | ')' :: _ => some (acc.reverse, cs)
  | 'e' :: d :: '(' :: rest =>
    if '0' ≤ d ∧ d ≤ '9' then
      match parseNodes rest [] with
      | some (ks, ')' :: rest') => parseNodes rest' (Tree.node (d.toNat - '0'.toNat) ks :: acc)
      | _ => none
    else none
  | 'E' :: d :: '(' :: rest =>
    -- an element that also carries a namespace declaration: one more attribute node
    if '0' ≤ d ∧ d ≤ '9' then
      match parseNodes rest [] with
      | some (ks, ')' :: rest') => parseNodes rest' (Tree.node (d.toNat - '0'.toNat + 1) ks :: acc)
      | _ => none
    else none
  | 't' :: rest => parseNodes rest (Tree.node 0 [] :: acc)
  | 'd' :: rest => parseNodes rest (Tree.node 0 [] :: acc)      -- a CDATA section (its own node in the Xerces DOM)
  | 'c' :: rest => parseNodes rest (Tree.node 0 [] :: acc)
  | 'p' :: rest => parseNodes rest (Tree.node 0 [] :: acc)
  | _ => none

def isElemShape : Tree → Bool
  | _ => true

/-- the source tree gives the document element one extra attribute node (the implicit
`xmlns:xml` declaration); `isElem` tells which top-level nodes are elements -/
def addXmlNs (tops : List Tree) (elemFlags : List Bool) : List Tree :=
  let rec go : List Tree → List Bool → Bool → List Tree
    | [], _, _ => []
    | t :: ts, f :: fs, done =>
      if f && !done then Tree.node (t.nattrs + 1) t.kids :: go ts fs true else t :: go ts fs done
    | t :: ts, [], done => t :: go ts [] done
  go tops elemFlags false

def topElemFlags (cs : List Char) : List Bool :=
  -- flags of the top-level nodes: walk the shape keeping the nesting depth
  let rec go : List Char → Nat → List Bool → List Bool
    | [], _, acc => acc.reverse
    | c :: rest, depth, acc =>
      if c = '(' then go rest (depth + 1) acc
      else if c = ')' then go rest (depth - 1) acc
      else if depth = 0 ∧ (c = 'e' ∨ c = 'E') then go rest depth (true :: acc)
      else if depth = 0 ∧ (c = 't' ∨ c = 'c' ∨ c = 'p' ∨ c = 'd') then go rest depth (false :: acc)
      else go rest depth acc
  go cs 0 []

/-- where the namespace declarations sit among the attributes of each element, per representation: the source tree
lists them first (the document element also carries the implicit xmlns:xml), the Xerces wrapper sorts attributes by
name so `xmlns:p1` comes after `a1…` -/
partial def nsTable (rep : Char) (cs : List Char) : List (Path × Nat × Char) :=
  let rec go (cs : List Char) (counters : List Nat) (path : Path) (seen : Bool)
      (acc : List (Path × Nat × Char)) : List (Path × Nat × Char) :=
    match cs with
    | [] => acc.reverse
    | c :: d :: '(' :: rest =>
      if c = 'e' ∨ c = 'E' then
        let k := counters.headD 0
        let p := path ++ [Step.child k]
        let isDoc := path.isEmpty && !seen
        let na := d.toNat - '0'.toNat
        let entries : List (Path × Nat × Char) :=
          if rep = 'S' then
            (if isDoc then [(p, 0, 'x')] else []) ++ (if c = 'E' then [(p, if isDoc then 1 else 0, 'p')] else [])
          else (if c = 'E' then [(p, na, 'p')] else [])
        go rest (0 :: (k + 1) :: counters.drop 1) p (seen || isDoc) (entries.reverse ++ acc)
      else go (d :: '(' :: rest) counters path seen acc
    | ')' :: rest => go rest (counters.drop 1) path.dropLast seen acc
    | _ :: rest =>
      go rest ((counters.headD 0 + 1) :: counters.drop 1) path seen acc
  go cs [0] [] false []

/-- paths of the element nodes of a shape -/
partial def elemPaths (cs : List Char) : List Path :=
  let rec go (cs : List Char) (counters : List Nat) (path : Path) (acc : List Path) : List Path :=
    match cs with
    | [] => acc.reverse
    | c :: d :: '(' :: rest =>
      if c = 'e' ∨ c = 'E' then
        let k := counters.headD 0
        let p := path ++ [Step.child k]
        go rest (0 :: (k + 1) :: counters.drop 1) p (p :: acc)
      else go (d :: '(' :: rest) counters path acc
    | ')' :: rest => go rest (counters.drop 1) path.dropLast acc
    | _ :: rest => go rest ((counters.headD 0 + 1) :: counters.drop 1) path acc
  go cs [0] [] []

def isNsAttr (tbl : List (Path × Nat × Char)) (q : Path) : Option Char :=
  match q.getLast? with
  | some (Step.attr k) => (tbl.find? fun x => x.1 == q.dropLast && x.2.1 == k).map (·.2.2)
  | _ => none

/-- `keep` of `findNamespace`: a namespace declaration that no nearer element of the chain re-declares -/
def nsKeep (tbl : List (Path × Nat × Char)) (ctx q : Path) : Bool :=
  match isNsAttr tbl q with
  | some nm => !(tbl.any fun x => x.2.2 == nm && x.1.length > q.dropLast.length && x.1.isPrefixOf ctx)
  | none => false

def axisOfName : String → Option Axis
  | "child" => some .child | "attribute" => some .attributes | "parent" => some .parent
  | "ancestor" => some .ancestor | "following-sibling" => some .followingSibling
  | "preceding-sibling" => some .precedingSibling | "self" => some .self
  | "ancestor-or-self" => some .ancestorOrSelf | "descendant" => some .descendant
  | "descendant-or-self" => some .descendantOrSelf | "following" => some .following
  | "preceding" => some .preceding | "namespace" => some .namespaces
  | _ => none

def showNode : Option NodeRef → String
  | none => "0"
  | some n => s!"d{n.doc}.{n.idx}"

def showOrder : Order → String
  | .unknown => "u" | .document => "d" | .reverse => "r"

def showList (l : List (Option NodeRef) × Order) : String :=
  showOrder l.2 ++ " :" ++ String.join (l.1.map fun n => " " ++ showNode n)

def findDoc (s : St) (d : Nat) : Option DocM := (s.docs.find? (·.1 = d)).map (·.2)

def parseNode (s : St) (t : String) : Option NodeRef :=
  match t.toList with
  | 'd' :: rest =>
    match (String.ofList rest).splitOn "." with
    | [a, b] =>
      match a.toNat?, b.toNat? with
      | some d, some i =>
        match findDoc s d with
        | some dm => if i < dm.paths.size then some ⟨d, i⟩ else none
        | none => none
      | _, _ => none
    | _ => none
  | _ => none

def pathOf (s : St) (n : NodeRef) : Option (Tree × Path) :=
  match findDoc s n.doc with
  | some dm => (dm.paths[n.idx]?).map fun p => (dm.tree, p)
  | none => none

/-- `XPathExecutionContext::isNodeAfter` of the session: index comparison for the indexed
representations, the structural walk for the non-indexed wrapper -/
def afterFn (s : St) (a b : NodeRef) : Bool :=
  if s.rep = 'N' then
    match pathOf s a, pathOf s b with
    | some (t, pa), some (_, pb) => isNodeAfterStructural t s.fixedEdge pa pb
    | _, _ => false
  else decide (a.idx > b.idx)

def envOf (s : St) : Env :=
  { indexed := fun _ => s.rep != 'N', after := afterFn s, docNodeFirst := s.docNodeFirst,
    groupAware := s.groupAware }

def getL (s : St) (i : Nat) : List (Option NodeRef) × Order := s.lists.getD i ([], Order.unknown)

def setL (s : St) (i : Nat) (l : List (Option NodeRef) × Order) : St × String :=
  ({ s with lists := s.lists.setIfInBounds i l }, showList l)

def allSome (l : List (Option NodeRef)) : Option (List NodeRef) :=
  if l.all Option.isSome then some (l.filterMap id) else none

/-- the source tree follows the XPath data model: adjacent character data (text, CDATA sections) is ONE text node -/
def mergeCharData : List Char → Bool → List Char
  | [], _ => []
  | c :: rest, inRun =>
    if c = 't' ∨ c = 'd' then
      if inRun then mergeCharData rest true else 't' :: mergeCharData rest true
    else c :: mergeCharData rest false

def docReply (s : St) (d : Nat) (shape0 : String) : St × String :=
  let shape := if s.rep = 'S' then String.ofList (mergeCharData shape0.toList false) else shape0
  if (findDoc s d).isSome then (s, "bad duplicate doc") else
  match parseNodes shape.toList [] with
  | some (tops, []) =>
    let tops := if s.rep = 'S' then addXmlNs tops (topElemFlags shape.toList) else tops
    let t := Tree.node 0 tops
    let ps := t.paths.toArray
    let parents := (ps.toList.drop 1).map fun p => toString (t.paths.idxOf p.dropLast)
    let s' := { s with docs := s.docs ++ [(d, { tree := t, paths := ps, ns := nsTable s.rep shape.toList, elems := elemPaths shape.toList })] }
    (s', s!"doc n={ps.size} idx={if s.rep = 'N' then "none" else "exact"} parents={",".intercalate parents}")
  | _ => (s, "bad shape")

def splitSemi (ws : List String) : List (List String) :=
  let rec go : List String → List String → List (List String) → List (List String)
    | [], cur, acc => (cur.reverse :: acc).reverse
    | w :: rest, cur, acc => if w = ";" then go rest [] (cur.reverse :: acc) else go rest (w :: cur) acc
  go ws [] []

def step (s : St) (ws : List String) : St × String :=
  match ws with
  | ["session", r] =>
    match r.toList with
    | [c] =>
      if c = 'S' ∨ c = 'W' ∨ c = 'N' then ({ rep := c, fixedEdge := s.fixedEdge, docNodeFirst := s.docNodeFirst, groupAware := s.groupAware }, "ok")
      else (s, "bad op")
    | _ => (s, "bad op")
  | ["variant", v, w, x] =>
    if (v = "asis" ∨ v = "fixed") ∧ (w = "doclast" ∨ w = "docfirst") ∧ (x = "nogroups" ∨ x = "groups") then
      ({ s with fixedEdge := v = "fixed", docNodeFirst := w = "docfirst", groupAware := x = "groups" }, "ok")
    else (s, "bad op")
  | ["doc", d, shape] =>
    match d.toNat? with
    | some d => docReply s d shape
    | none => (s, "bad doc")
  | ["after", a, b] =>
    match parseNode s a, parseNode s b with
    | some a, some b =>
      if a.isDoc || b.isDoc then (s, "bad document-node")
      else if a.doc ≠ b.doc then (s, "bad different-documents")
      else (s, if (envOf s).after a b then "1" else "0")
    | _, _ => (s, "bad node")
  | ["afterall", d] =>
    match d.toNat? with
    | some d =>
      match findDoc s d with
      | some dm =>
        let ns := (List.range dm.paths.size).drop 1
        let bits := ns.flatMap fun a => ns.map fun b => if (envOf s).after ⟨d, a⟩ ⟨d, b⟩ then '1' else '0'
        (s, if bits.isEmpty then "-" else String.ofList bits)
      | none => (s, "bad doc")
    | none => (s, "bad doc")
  | ["axis", n, name] =>
    -- one step `name::node()` from context node n: the transcribed walk, delivered through `stepFinish`
    match parseNode s n, axisOfName name with
    | some c, some a =>
      match findDoc s c.doc with
      | some dm =>
        match dm.paths[c.idx]? with
        | some ctx =>
          -- `findNamespace` only looks at an ELEMENT_NODE context
          let keep := fun q => dm.elems.contains ctx && nsKeep dm.ns ctx q
          let r := findAxisWalk dm.tree keep a ctx
          let l := if a == Axis.attributes then r.1.filter (fun q => (isNsAttr dm.ns q).isNone) else r.1
          let delivered := if r.2 then l.reverse else l
          (s, "d :" ++ String.join (delivered.map fun p => s!" d{c.doc}.{dm.tree.paths.idxOf p}"))
        | none => (s, "bad node")
      | none => (s, "bad node")
    | _, _ => (s, "bad axis")
  | ["axisp", n, name, k] =>
    -- `name::node()[k]`: the predicate evaluator counts in the order the walk left the nodes
    match parseNode s n, axisOfName name, k.toNat? with
    | some c, some a, some k =>
      match findDoc s c.doc with
      | some dm =>
        match dm.paths[c.idx]? with
        | some ctx =>
          let keep := fun q => dm.elems.contains ctx && nsKeep dm.ns ctx q
          let r := findAxisWalk dm.tree keep a ctx
          let l := if a == Axis.attributes then r.1.filter (fun q => (isNsAttr dm.ns q).isNone) else r.1
          let pick := if k = 0 then [] else (l[k - 1]?).toList
          (s, "d :" ++ String.join (pick.map fun p => s!" d{c.doc}.{dm.tree.paths.idxOf p}"))
        | none => (s, "bad node")
      | none => (s, "bad node")
    | _, _, _ => (s, "bad axis")
  | "build" :: _ => (s, "-")
  | "xmldoc" :: _ => (s, "-")     -- documents given as XML text, node identity, whole-document node-sets: oracle of the check
  | "identity" :: _ => (s, "-")
  | "nodesets" :: _ => (s, "-")      -- trees built from events: checked by the oracle of the check, not modelled
  | "xp" :: _ => (s, "-")
  | "xpu" :: rest =>
    match splitSemi rest with
    | _ :: operands =>
      let lists := operands.map fun o => o.filterMap (parseNode s)
      let r := union (envOf s) lists
      (s, showList (r.nodes.map some, r.order))
    | [] => (s, "bad xpu")
  | ["new", l] =>
    match l.toNat? with
    | some l => setL s l ([], Order.unknown)
    | none => (s, "bad list")
  | ["add", l, n] =>
    match l.toNat?, parseNode s n with
    | some l, some n => let x := getL s l; setL s l (x.1 ++ [some n], x.2)
    | _, _ => (s, "bad node")
  | ["addo", l, n] =>
    match l.toNat?, parseNode s n with
    | some l, some n =>
      let x := getL s l
      match allSome x.1 with
      | some ns => setL s l ((addNodeInDocOrder (envOf s) ns n).map some, x.2)
      | none => (s, "bad nulls")
    | _, _ => (s, "bad node")
  | ["rmn", l, n] =>
    match l.toNat?, parseNode s n with
    | some l, some n => let x := getL s l; setL s l (x.1.erase (some n), x.2)
    | _, _ => (s, "bad node")
  | [op, l, src] =>
    match l.toNat? with
    | none => (s, "bad list")
    | some l =>
      let x := getL s l
      if op = "order" then
        if src = "u" then setL s l (x.1, .unknown)
        else if src = "d" then setL s l (x.1, .document)
        else if src = "r" then setL s l (x.1, .reverse)
        else (s, "bad order")
      else if op = "setnull" then
        match src.toNat? with
        | some p => if 0 < x.1.length then setL s l (x.1.set (p % x.1.length) none, x.2) else (s, "bad pos")
        | none => (s, "bad pos")
      else if op = "rm" then
        match src.toNat? with
        | some p => if 0 < x.1.length then setL s l (x.1.eraseIdx (p % x.1.length), x.2) else (s, "bad pos")
        | none => (s, "bad pos")
      else
        match src.toNat? with
        | none => (s, "bad list")
        | some si =>
          if si = l ∨ si ≥ 8 ∨ l ≥ 8 then (s, "bad list") else
          let y := getL s si
          if op = "swap" then
            let s1 := { s with lists := (s.lists.setIfInBounds l y).setIfInBounds si x }
            (s1, showList y)
          else if op = "copy" then setL s l y
          else if op = "copyb" then let r := assignBase y.1; setL s l (r.1.map some, r.2)
          else
            match allSome x.1, allSome y.1 with
            | some xs, some ys =>
              if op = "addso" then
                let r := addNodesInDocOrderMutable (envOf s) ⟨xs, x.2⟩ ⟨ys, y.2⟩
                setL s l (r.nodes.map some, r.order)
              else if op = "addsb" ∨ op = "addsx" then
                let r := addNodesInDocOrderBase (envOf s) ⟨xs, x.2⟩ ys
                setL s l (r.nodes.map some, r.order)
              else (s, "bad op")
            | _, _ => (s, "bad nulls")
  | ["reverse", l] =>
    match l.toNat? with
    | some l => let x := getL s l; let r := (NList.reverse ⟨[], x.2⟩).order; setL s l (x.1.reverse, r)
    | none => (s, "bad list")
  | ["clearnulls", l] =>
    match l.toNat? with
    | some l => let x := getL s l; let r := clearNulls x.1 x.2; setL s l (r.1.map some, r.2)
    | none => (s, "bad list")
  | ["ins", l, n, p] =>
    match l.toNat?, parseNode s n, p.toNat? with
    | some l, some n, some p =>
      let x := getL s l
      let p := p % (x.1.length + 1)
      setL s l (x.1.take p ++ some n :: x.1.drop p, x.2)
    | _, _, _ => (s, "bad node")
  | _ => (s, "bad op")

end Driver.C12

def main : IO Unit := Driver.run ({} : Driver.C12.St) Driver.C12.step
