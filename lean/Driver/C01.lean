import XalanModel.C01.Spec
import XalanModel.C01.Pending
import XalanModel.C01.Variables
import XalanModel.C01.Walker
import Driver.Util
import Driver.C01_Parse
import Driver.C01_Core
import XalanModel.C01.Core
/-
xm_c01.  Request lines:
  `xslt <id> <hex stylesheet xml> <hex document xml> D <doc records> ; <stylesheet s-expression>`
     reply `ok <events>` | `err <reason>`   — the specification (`transform`)
     (the hex XML fields are for the C++ harness only)
  `xsltq <mask> <id> … same …`
     the interpreter with the engine-behaviour switches of `Quirks` selected by the bit mask
     (1 paramLeak) and the pending-start-tag model as the
     tree builder; used by the check only to classify a disagreement
  `vars <ops…>`  replays a VariablesStack operation log on `VStack`; one reply token per op
  `pend <id> <xsl> <xml> Q <ops…>`  replays engine calls on the pending-start-tag model; reply = delivered events
-/
open XalanModel.C01

namespace Driver.C01

def fuel : Nat := 4000

def quirksOf (mask : Nat) : Quirks :=
  { paramLeak := mask % 2 = 1, finish := if mask = 0 then normalize else Pending.result }

def xsltStep (mask : Nat) : List String → String
  | _id :: _xsl :: _xml :: "D" :: rest =>
    match parseDoc rest with
    | none => "err bad-doc"
    | some (doc, toks) =>
      match (readSExp toks).bind parseStylesheet with
      | none => "err bad-stylesheet"
      | some ss =>
        match transformWith (quirksOf mask) ss doc fuel with
        | none => "err spec-undefined"
        | some evs => "ok " ++ showEvs evs
  | _ => "err bad-request"

/-! `core <id> <xsl> <xml> D <doc> ; <stylesheet>`: the stylesheet (inside the Core fragment) is run on the
`Core` engine model with an oracle answered by `Spec.eval`; reply `ok <events>` when that equals `Spec.transform`
as well (`oki` when the stylesheet is inside the fragment of `core_refines_spec_total` and `Core.run` on the
proved compiler's program `CoreSpec.compile ss` with the theorem's oracle `CoreSpec.oracleOf` gives the same tree too), `core-ne-spec …` / `core-inst-ne-spec …` otherwise -/
def coreStep : List String → String
  | _id :: _xsl :: _xml :: "D" :: rest =>
    match parseDoc rest with
    | none => "err bad-doc"
    | some (doc, toks) =>
      match (readSExp toks).bind parseStylesheet with
      | none => "err bad-stylesheet"
      | some ss =>
        match Driver.C01Core.toProg ss with
        | none => "err outside-core-fragment"
        | some P =>
          let O := Driver.C01Core.oracle ss doc
          match Core.run P O 300000 (Driver.C01Core.rootTemplate ss doc) (0, 1, 1), transform ss doc fuel with
          | some evs, some sp =>
            if evs ≠ sp then "core-ne-spec " ++ showEvs evs ++ " ## " ++ showEvs sp
            else if Driver.C01Core.narrow ss then
              -- inside the fragment of `core_refines_spec_total`: the conclusion of the theorem, evaluated
              (match Driver.C01Core.runInstantiated ss doc 300000 with
               | some ev2 => if ev2 = sp then "oki " ++ showEvs evs else "core-inst-ne-spec " ++ showEvs ev2 ++ " ## " ++ showEvs sp
               | none => "err core-inst-not-finished")
            else "ok " ++ showEvs evs
          | none, _ => "err core-not-finished"
          | _, none => "err spec-undefined"
  | _ => "err bad-request"

/-! VariablesStack op log -/

def showIdx (s : VStack) : String :=
  s!"{s.cur}/" ++ (if s.glob = 4294967295 then "-" else toString s.glob)

def parseParams (spec : String) : Option (List (Nat × Nat)) :=
  if spec = "-" then some [] else
  (spec.splitOn ",").mapM fun item =>
    match item.splitOn "=" with
    | [a, b] => do
      let x ← a.toNat?
      let y ← b.toNat?
      some (x % 8, y)
    | _ => none

def showFound : Option (Option Nat × VStack) → VStack → VStack × String
  | none, s => (s, "mem")
  | some (none, s'), _ => (s', "none")
  | some (some v, s'), _ => (s', toString v)

partial def varsRun (s : VStack) (acc : List String) : List String → List String
  | [] => acc.reverse
  | "mode" :: m :: r => varsRun { s with activating := m = "1" } ("ok" :: acc) r
  | "cm" :: r => varsRun s.pushContextMarker ("ok" :: acc) r
  | "pcm" :: r => varsRun s.popContextMarker ("ok" :: acc) r
  | "ef" :: e :: r => varsRun (s.pushElementFrame (e.toNat?.getD 0 % 64)) ("ok" :: acc) r
  | "pef" :: r =>
    let (s', exc) := s.popElementFrame
    varsRun s' ((if exc then "exc" else "ok") :: acc) r
  | "var" :: n :: v :: e :: r =>
    let (s', exc) := s.pushVariable (n.toNat?.getD 0 % 8) (v.toNat?.getD 0) (e.toNat?.getD 0 % 64)
    varsRun s' ((if exc then "exc" else "ok") :: acc) r
  | "params" :: spec :: r =>
    match parseParams spec with
    | some ps => varsRun (s.pushParams ps) ("ok" :: acc) r
    | none => varsRun s ("bad" :: acc) r
  | "get" :: n :: r =>
    let (s', out) := showFound (s.getVariable (n.toNat?.getD 0 % 8)) s
    varsRun s' (out :: acc) r
  | "getp" :: n :: r =>
    let (s', out) := showFound (s.getParamVariable (n.toNat?.getD 0 % 8)) s
    varsRun s' (out :: acc) r
  | "idx" :: r => varsRun s (showIdx s :: acc) r
  | "setidx" :: k :: r => varsRun (s.setCurrentStackFrameIndex (if k = "top" then none else k.toNat?)) ("ok" :: acc) r
  | "mark" :: r => varsRun s.markGlobalStackFrame ("ok" :: acc) r
  | "unmark" :: r => varsRun s.unmarkGlobalStackFrame ("ok" :: acc) r
  | _ :: r => varsRun s ("bad" :: acc) r

/-! pending model op log: tokens in the reply syntax of `showEv` (`U:name=hex` = unguarded attribute) -/

def parseEv (t : String) : Option REv :=
  let body := (t.drop 2).toString
  if t.startsWith "S:" then some (.start body)
  else if t.startsWith "E:" then some (.stop body)
  else if t.startsWith "T:" then (decodeStr body).map .text
  else if t.startsWith "C:" then (decodeStr body).map .comment
  else if t.startsWith "A:" then
    match body.splitOn "=" with
    | [n, v] => (decodeStr v).map (.attr n)
    | _ => none
  else if t.startsWith "P:" then
    match body.splitOn ":" with
    | [n, v] => (decodeStr v).map (.pi n)
    | _ => none
  else if t.startsWith "U:" then
    match body.splitOn "=" with
    | [n, v] => (decodeStr v).map (.attrU n)
    | _ => none
  else none

/-! walker: `walk <id> <xsl> <xml> W ( prog <template>… )`, node = `( l )` | `( b kids… )` | `( c<t> kids… )` | `( p<i> kids… )` | `( L<r> kids… )` | `( A<t1,t2,…> kids… )` | `( U<s1,s2,…> kids… )`;
reply = the addresses (`t:i.j…`, root first) of the `startElement` calls of the iterative loop -/

partial def parseNode : SExp → Option Walker.Node
  | .list (.atom k :: kids) => do
    let ks ← kids.mapM parseNode
    if k = "l" then some (.mk .leaf ks)
    else if k = "b" then some (.mk .block ks)
    else if k.startsWith "c" then ((k.drop 1).toString.toNat?).map fun t => .mk (.call t) ks
    else if k.startsWith "p" then ((k.drop 1).toString.toNat?).map fun i => .mk (.pick i) ks
    else if k.startsWith "L" then ((k.drop 1).toString.toNat?).map fun r => .mk (.loop r) ks
    else if k = "U" then some (.mk (.uses []) ks)
    else if k.startsWith "U" then
      (((k.drop 1).toString.splitOn ",").mapM fun (t : String) => t.toNat?).map fun ts => .mk (.uses ts) ks
    else if k = "A" then some (.mk (.apply []) ks)
    else if k.startsWith "A" then
      (((k.drop 1).toString.splitOn ",").mapM fun (t : String) => t.toNat?).map fun ts => .mk (.apply ts) ks
    else none
  | _ => none

def showAddr (a : Walker.Addr) : String :=
  toString a.1 ++ ":" ++ ".".intercalate (a.2.reverse.map toString)

def walkStep : List String → String
  | _id :: _xsl :: _xml :: "W" :: rest =>
    match readSExp rest with
    | some (.list (.atom "prog" :: ts)) =>
      match ts.mapM parseNode with
      | some P =>
        match Walker.execute P 200000 0 [] [] with
        | some (tr, stk, its) =>
          -- a template entered from an apply-templates is announced twice by the real engine's tracer
          -- (once by findTemplateToTransformChild, once by ElemTemplate::startElement): mark it with `@`
          let (starts, _) := tr.foldl (fun (acc : List String × List Walker.Addr) e =>
            match e with
            | .start a =>
              let viaApply := a.2.isEmpty && (match acc.2 with
                | inv :: _ => (match Walker.lookup P inv with
                  | some n => (match n.kind with
                    | Walker.Kind.apply _ => true
                    | _ => false)
                  | none => false)
                | [] => false)
              ((showAddr a ++ (if viaApply then "@" else "")) :: acc.1, a :: acc.2)
            | .stop _ => (acc.1, acc.2.tail)) ([], [])
          (if stk.isEmpty ∧ its.isEmpty then "ok " else "stack ") ++ " ".intercalate starts.reverse
        | none => "err not-finished"
      | none => "err bad-prog"
    | _ => "err bad-prog"
  | _ => "err bad-request"

def step (s : Unit) : List String → Unit × String
  | "xslt" :: rest => (s, xsltStep 0 rest)
  | "xsltq" :: mask :: rest => (s, xsltStep (mask.toNat?.getD 0) rest)
  | "core" :: rest => (s, coreStep rest)
  | "walk" :: rest => (s, walkStep rest)
  | "vars" :: rest => (s, " ".intercalate (varsRun {} [] rest))
  | "pend" :: _id :: _xsl :: _xml :: "Q" :: rest =>
    match rest.mapM parseEv with
    | some evs => (s, "ok " ++ showEvs (Pending.run evs))
    | none => (s, "bad")
  | _ => (s, "bad")

end Driver.C01

def main : IO Unit := Driver.run () Driver.C01.step
