import XalanModel.C01.Spec
import XalanModel.C01.Core
import XalanModel.C01.CoreCompile
/-!
Glue for `xm_c01 core`: turns a parsed stylesheet of the Core fragment (literal text, value-of, literal result
elements, xsl:attribute with a literal name, copy-of / comment / processing-instruction, if, choose, for-each, apply-templates, call-template; no variables, sort keys or
parameters) into a `Core.Prog` and an `Oracle` whose answers come from the specification's XPath evaluator
(`Spec.eval`) and rule choice (`chooseTemplate`).  Built-in rules become extra templates at the end of the
program.  Driver code only (not part of the model).
-/
open XalanModel.C01

namespace Driver.C01Core

/-- Core node for a Spec instruction; `none` = outside the fragment -/
partial def toNode (ss : Stylesheet) : Instr → Option Core.Node
  | .text _ => some (.mk .text [])
  | .valueOf _ => some (.mk .text [])
  | .lre name attrs body =>
    (body.mapM (toNode ss)).map fun ks => .mk (.lre (sheetName name)) (attrs.map (fun a => Core.Node.mk (.attr (sheetName a.1)) []) ++ ks)
  | .attribute [.lit name] nsEmpty _ => some (.mk (.attr (if nsEmpty then localOf name else sheetName name)) [])
  | .copyOf _ => some (.mk .emit [])
  | .comment _ => some (.mk .emit [])
  | .pi _ _ => some (.mk .emit [])
  | .if_ _ body => (body.mapM (toNode ss)).map fun ks => .mk .choose [.mk .block ks]
  | .choose whens other => do
    let ws ← whens.mapM fun w => match w with
      | .when _ body => (body.mapM (toNode ss)).map fun ks => Core.Node.mk .block ks
      | _ => none
    let o ← other.mapM (toNode ss)
    some (.mk .choose (ws ++ [.mk .block o]))
  | .forEach _ [] body => (body.mapM (toNode ss)).map fun ks => .mk .forEach ks
  | .applyTemplates _ _ [] [] => some (.mk .apply [])
  | .callTemplate name [] =>
    (ss.templates.zipIdx.reverse.find? fun p => p.1.name = some name).map fun p => .mk (.call p.2) []
  | _ => none

/-- what sits at an address: an instruction, or the attribute value template of a literal result element -/
inductive Item | instr (i : Instr) | lreAttr (parts : List AvtPart)

partial def instrAt : List Instr → List Nat → Option Item
  | body, [i] => (body[i]?).map .instr
  | body, i :: rest =>
    match body[i]? with
    | some (.lre _ attrs b) =>
      (match rest with
       | j :: r =>
         if j < attrs.length then (if r.isEmpty then (attrs[j]?).map fun a => Item.lreAttr a.2 else none)
         else instrAt b ((j - attrs.length) :: r)
       | [] => none)
    | some (.forEach _ _ b) => instrAt b rest
    | some (.if_ _ b) => (match rest with | 0 :: r => if r.isEmpty then none else instrAt b r | _ => none)
    | some (.choose whens other) =>
      (match rest with
       | j :: r =>
         if r.isEmpty then none else
         if j < whens.length then (match whens[j]? with | some (.when _ b) => instrAt b r | _ => none)
         else instrAt other r
       | [] => none)
    | _ => none
  | _, [] => none

partial def applyModes : List Instr → List (Option String)
  | [] => []
  | .applyTemplates _ m _ _ :: r => m :: applyModes r
  | .lre _ _ b :: r => applyModes b ++ applyModes r
  | .forEach _ _ b :: r => applyModes b ++ applyModes r
  | .if_ _ b :: r => applyModes b ++ applyModes r
  | .when _ b :: r => applyModes b ++ applyModes r
  | .choose ws o :: r => applyModes ws ++ applyModes o ++ applyModes r
  | _ :: r => applyModes r

def modes (ss : Stylesheet) : List (Option String) :=
  (none :: ss.templates.map (·.mode) ++ ss.templates.flatMap fun t => applyModes t.body).eraseDups

/-- index of the built-in rule for elements/root in mode `m`, for text/attributes, for everything else -/
def builtinElem (ss : Stylesheet) (m : Option String) : Nat :=
  ss.templates.length + ((modes ss).findIdx? (· = m)).getD 0
def builtinText (ss : Stylesheet) : Nat := ss.templates.length + (modes ss).length
def builtinNone (ss : Stylesheet) : Nat := ss.templates.length + (modes ss).length + 1

def toProg (ss : Stylesheet) : Option Core.Prog := do
  let ts ← ss.templates.mapM fun t => (t.body.mapM (toNode ss)).map fun ks => Core.Node.mk .block ks
  some (ts ++ (modes ss).map (fun _ => Core.Node.mk .block [.mk .apply []]) ++ [.mk .block [.mk .text []], .mk .block []])

def fuel : Nat := 2000

def oracle (ss : Stylesheet) (d : Doc) : Core.Oracle :=
  let nT := ss.templates.length
  let nM := (modes ss).length
  let lookItem (a : Core.Addr) : Option Item :=
    (ss.templates[a.1]?).bind fun t => instrAt t.body a.2.reverse
  let look (a : Core.Addr) : Option Instr :=
    match lookItem a with
    | some (.instr i) => some i
    | _ => none
  let modeOfApply (a : Core.Addr) : Option String :=
    if a.1 < nT then (match look a with | some (.applyTemplates _ m _ _) => m | _ => none)
    else ((modes ss)[a.1 - nT]?).getD none
  let xOf (n : Core.SrcNode) : XCtx := { node := n.1, cur := n.1, pos := n.2.1, size := n.2.2 }
  let ctxOf (n : Core.SrcNode) : Ctx := { node := n.1, cur := n.1, pos := n.2.1, size := n.2.2 }
  let number (l : List Nat) : List Core.SrcNode := (l.zipIdx 1).map fun p => (p.1, p.2, l.length)
  { sel := fun a n =>
      if a.1 < nT then
        match look a with
        | some (.forEach e _ _) => (match eval d evalFuel e (xOf n) with | some (.ns l) => number l | _ => [])
        | some (.applyTemplates (some e) _ _ _) => (match eval d evalFuel e (xOf n) with | some (.ns l) => number l | _ => [])
        | some (.applyTemplates none _ _ _) => number (d.children n.1)
        | _ => []
      else number (d.children n.1)
    tmpl := fun a n0 =>
      let n := n0.1
      let m := modeOfApply a
      match (ss.templates.zipIdx.foldl (fun (acc : Option (Int × Nat)) (p : Template × Nat) =>
          if p.1.mode ≠ m then acc else
          (p.1.pats.filter fun pat => matchesPat d evalFuel pat n).foldl (fun acc pat =>
            let pr := rulePrio p.1.prio pat
            match acc with
            | none => some (pr, p.2)
            | some b => if pr > b.1 ∨ (pr = b.1 ∧ p.2 ≥ b.2) then some (pr, p.2) else some b) acc) none) with
      | some b => b.2
      | none =>
        match (d.node n).kind with
        | .root | .elem => builtinElem ss m
        | .text | .attr => builtinText ss
        | _ => builtinNone ss
    branch := fun a n =>
      match look a with
      | some (.if_ t _) => (match eval d evalFuel t (xOf n) with | some v => if toBool v then 0 else 1 | none => 1)
      | some (.choose whens _) =>
        ((whens.findIdx? fun w => match w with
          | .when t _ => (match eval d evalFuel t (xOf n) with | some v => toBool v | none => false)
          | _ => false).getD whens.length)
      | _ => 0
    str := fun a n =>
      if a.1 < nT then
        match look a with
        | some (.text s) => s
        | some (.valueOf e) => (match eval d evalFuel e (xOf n) with | some v => toStr d v | none => "")
        | some (.attribute _ _ body) =>
          (match execSeq Quirks.spec ss d [] fuel body (ctxOf n) with | some evs => rtfString evs | none => "")
        | _ =>
          match lookItem a with
          | some (.lreAttr parts) => (evalAvt d evalFuel parts (xOf n)).getD ""
          | _ => ""
      else (d.node n.1).value
    evs := fun a n =>
      match look a with
      | some i => (execOne Quirks.spec ss d [] fuel i (ctxOf n)).getD []
      | none => [] }

/-- template for the root node in the default mode -/
def rootTemplate (ss : Stylesheet) (d : Doc) : Nat := (oracle ss d).tmpl (builtinElem ss none, [0]) (0, 1, 1)

/-! ### `core_refines_spec_total` at run time: the proved compiler `CoreSpec.compile` and the instantiated oracle -/

open XalanModel.C01.CoreSpec in
/-- is the stylesheet inside the fragment `core_refines_spec_total` is proved for?  (the model's own decidable test) -/
def narrow (ss : Stylesheet) : Bool := inFragment ss

open XalanModel.C01.CoreSpec in
/-- `Core.run` exactly as in the conclusion of `core_refines_spec_total`: the compiled program `compile ss`
(= `eraseL (compileA ss)`), the oracle `oracleOf` with the annotation `infoOf ss` (= `infoAt (compileA ss)`) -/
def runInstantiated (ss : Stylesheet) (d : Doc) (fuel : Nat) : Option (List REv) :=
  let L := layoutOf ss
  let AP := compileA ss
  Core.run (eraseL AP) (oracleOf ss d L (infoAt AP)) fuel (tmplFor ss d L none 0) (0, 1, 1)

end Driver.C01Core
