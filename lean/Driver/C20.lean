import XalanModel.Containers.Vector
import XalanModel.Containers.VectorTrace
import XalanModel.Containers.XMap
import XalanModel.Containers.Deque
import XalanModel.Containers.XList
import XalanModel.Containers.PList
import XalanModel.Containers.DOMString
import XalanModel.Containers.DOMStringCompare
import XalanModel.Containers.Bitmap
import XalanModel.Containers.ObjCache
import XalanModel.Containers.StringPool
import XalanModel.Containers.StringCache
import Driver.Util
/-
xm_c20: replays container operation logs on the Lean models.
Request:  `<kind> <op> <id> <args…>` with kind ∈ vec | map | set | deq | lst | str, or `reset`.
Reply:    the canonical dump of the container the operation acted on (formats below, identical to
          what harness/c20_containers.cpp and harness/c20_string.cpp print), `mem` when the model
          reaches undefined behaviour, `bad` for a malformed request.
-/
open XalanModel.Containers

namespace Driver.C20

/-- the colliding hash used by the harness for keys of maps and sets -/
def khash (k : Nat) : Nat := k / 2

structure St where
  vecs : Array (TVec Int) := Array.replicate 4 (TVec.ofVec Vec.empty)
  cnt : Nat × Nat × Nat × Nat := (0, 0, 0, 0)   -- element-object calls of the last request: copy-ctor, assign, dtor, other ctor
  maps : Array (XMap Nat Int) := Array.replicate 4 {}
  sets : Array (XMap Nat Int) := Array.replicate 2 {}
  deqs : Array (Deq Int) := Array.replicate 4 { blockSize := 10 }
  pheap : PHeap Int := {}                              -- the node heap shared by all lists
  plists : Array PL := Array.replicate 3 {}
  slots : Array (Option Nat) := Array.replicate 4 none     -- saved list iterators (node ids)
  strs : Array DStr := Array.replicate 4 {}
  bmps : Array Bitmap := Array.replicate 2 (Bitmap.new 0)
  ocache : OCache Int := {}
  ocslots : Array (Option Nat) := Array.replicate 4 none
  pools : Array SPool := Array.replicate 2 (SPool.new 101)
  scache : SCache := {}
  scslots : Array (Option Nat) := Array.replicate 8 none
  sctag : Nat := 0

def nats (l : List String) : Option (List Nat) := l.mapM String.toNat?

def ints (l : List String) : Option (List Int) := l.mapM String.toInt?

/-- `3.4.5` → [3,4,5]; `-` → [] -/
def units (s : String) : Option (List Nat) :=
  if s = "-" then some [] else (s.splitOn ".").mapM String.toNat?

/-- like `units`, but 0 is allowed (a `const XalanDOMChar*` buffer; the harness appends the terminator) -/
def units0 (s : String) : Option (List Nat) :=
  if s = "-" then some [] else (s.splitOn ".").mapM String.toNat?

/- ---------------------------------------------------------------- vector -/

def showVec (v : Vec Int) : String :=
  s!"{v.items.length} {v.alloc} :" ++ String.join (v.items.map fun x => s!" {x}")

/-- vector `i` with an empty log (the log of one request is what is counted) -/
def getV (s : St) (i : Nat) : TVec Int := { s.vecs.getD i (TVec.ofVec Vec.empty) with tr := [] }

def setV (s : St) (i : Nat) (r : Option (TVec Int)) : St × String :=
  match r with
  | some t =>
    let (c, a, d) := evCounts t.tr
    ({ s with vecs := s.vecs.setIfInBounds i t, cnt := (c, a, d, 0) }, showVec t.v)
  | none => (s, "mem")

/-- a returned iterator as an offset from the current `begin()` -/
def showRet (r : Option Nat) : String := match r with | some k => s!"ret={k} " | none => "ret=dangling "

def vecStep (s : St) : List String → St × String
  | ["new", i] => match i.toNat? with
    | some i =>
      let r := setV s i (some (TVec.ofVec Vec.empty))
      ({ r.1 with cnt := (0, 0, (getV s i).v.items.length, 0) }, r.2)
    | none => (s, "bad")
  | ["newcap", i, n] => match i.toNat?, n.toNat? with
    | some i, some n =>
      let r := setV s i (some (TVec.ofVec (Vec.withAlloc n)))
      ({ r.1 with cnt := (0, 0, (getV s i).v.items.length, 0) }, r.2)
    | _, _ => (s, "bad")
  | ["push", i, x] => match i.toNat?, x.toInt? with
    | some i, some x => setV s i ((getV s i).pushBack x)
    | _, _ => (s, "bad")
  | ["pop", i] => match i.toNat? with
    | some i => setV s i (getV s i).popBack
    | none => (s, "bad")
  | ["ins1", i, p, x] => match i.toNat?, p.toNat?, x.toInt? with
    | some i, some p, some x =>
      match (getV s i).insertOneRet p x with
      | none => (s, "mem")
      | some (t, r) => let q := setV s i (some t); (q.1, showRet r ++ q.2)
    | _, _, _ => (s, "bad")
  | ["insn", i, p, n, x] => match i.toNat?, p.toNat?, n.toNat?, x.toInt? with
    | some i, some p, some n, some x => setV s i ((getV s i).insertN p n x)
    | _, _, _, _ => (s, "bad")
  | ["insr", i, p, j, a, b] => match i.toNat?, p.toNat?, j.toNat?, a.toNat?, b.toNat? with
    | some i, some p, some j, some a, some b =>
      if i = j ∨ a > b ∨ b > (getV s j).v.items.length then (s, "bad")
      else setV s i ((getV s i).insertRange p (((getV s j).v.items.drop a).take (b - a)))
    | _, _, _, _, _ => (s, "bad")
  | ["erase", i, a, b] => match i.toNat?, a.toNat?, b.toNat? with
    | some i, some a, some b =>
      match (getV s i).eraseRet a b with
      | none => (s, "mem")
      | some (t, r) => let q := setV s i (some t); (q.1, showRet r ++ q.2)
    | _, _, _ => (s, "bad")
  | ["erase1", i, a] => match i.toNat?, a.toNat? with
    | some i, some a =>
      match (getV s i).eraseRet a (a + 1) with
      | none => (s, "mem")
      | some (t, r) => let q := setV s i (some t); (q.1, showRet r ++ q.2)
    | _, _ => (s, "bad")
  | ["resize", i, n, x] => match i.toNat?, n.toNat?, x.toInt? with
    | some i, some n, some x => setV s i ((getV s i).resize n x)
    | _, _, _ => (s, "bad")
  | ["reserve", i, n] => match i.toNat?, n.toNat? with
    | some i, some n => setV s i (some ((getV s i).reserve n))
    | _, _ => (s, "bad")
  | ["clear", i] => match i.toNat? with
    | some i => setV s i (getV s i).clear
    | none => (s, "bad")
  | ["assign", i, j, a, b] => match i.toNat?, j.toNat?, a.toNat?, b.toNat? with
    | some i, some j, some a, some b =>
      if i = j ∨ a > b ∨ b > (getV s j).v.items.length then (s, "bad")
      else setV s i ((getV s i).assign (((getV s j).v.items.drop a).take (b - a)))
    | _, _, _, _ => (s, "bad")
  | ["copy", i, j] => match i.toNat?, j.toNat? with
    | some i, some j => if i = j then (s, showVec (getV s i).v) else setV s i ((getV s i).copyAssign (getV s j).v)
    | _, _ => (s, "bad")
  | ["swap", i, j] => match i.toNat?, j.toNat? with
    | some i, some j =>
      let vi := getV s i; let vj := getV s j
      let s1 := { s with vecs := (s.vecs.setIfInBounds i vj).setIfInBounds j vi }
      (s1, showVec vj.v)
    | _, _ => (s, "bad")
  -- aliasing forms: the value argument is an element of the same vector
  | ["insself", i, p, n, k] => match i.toNat?, p.toNat?, n.toNat?, k.toNat? with
    | some i, some p, some n, some k => setV s i ((getV s i).insertNSelf p n k)
    | _, _, _, _ => (s, "bad")
  | ["resizeself", i, n, k] => match i.toNat?, n.toNat?, k.toNat? with
    | some i, some n, some k => setV s i ((getV s i).resizeSelf n k)
    | _, _, _ => (s, "bad")
  | ["pushself", i, k] => match i.toNat?, k.toNat? with
    | some i, some k => setV s i ((getV s i).pushBackSelf k)
    | _, _ => (s, "bad")
  | _ => (s, "bad")

/- ---------------------------------------------------------------- map / set -/

def showMap (pre : String) (m : XMap Nat Int) : String :=
  s!"{pre}{m.size} nb={m.buckets.length} ptr={m.pointerCount} stale={m.staleCount} free={m.free.length} bc={m.bcaps.sum} :" ++
    String.join (m.entries.map fun e => s!" {e.key}={e.val}")

def getM (s : St) (i : Nat) : XMap Nat Int := s.maps.getD i {}

def setM (s : St) (i : Nat) (pre : String) (r : Option (XMap Nat Int)) : St × String :=
  match r with
  | some m => ({ s with maps := s.maps.setIfInBounds i m }, showMap pre m)
  | none => (s, "mem")

def mapStep (s : St) (op : String) (a : List Int) : St × String :=
  let n (x : Int) : Nat := x.toNat
  match op, a with
  | "new", [i, lfn, lfd, minb, thr] => setM s (n i) "" (some (XMap.new (n lfn) (n lfd) (n minb) (n thr)))
  | "ins", [i, k, v] => setM s (n i) "" (XMap.insert khash (getM s (n i)) (n k) v)
  | "set", [i, k, v] => setM s (n i) "" (XMap.setAt khash 0 (getM s (n i)) (n k) v)
  | "find", [i, k] =>
    match XMap.find khash (getM s (n i)) (n k) with
    | none => (s, "mem")
    | some none => (s, showMap "r=nf " (getM s (n i)))
    | some (some e) => (s, showMap s!"r={e.val} " (getM s (n i)))
  | "erase", [i, k] =>
    match XMap.erase khash (getM s (n i)) (n k) with
    | none => (s, "mem")
    | some (m, c) => setM s (n i) s!"r={c} " (some m)
  | "clear", [i] => setM s (n i) "" (XMap.clear (getM s (n i)))
  | "copy", [i, j] => setM s (n i) "" (XMap.assign khash (getM s (n i)) (getM s (n j)))
  | "copyctor", [i, j] => setM s (n i) "" (XMap.copyOf khash (getM s (n j)))
  | "swap", [i, j] =>
    let mi := getM s (n i); let mj := getM s (n j)
    if i = j then (s, showMap "" mi) else
    let ni := XMap.swapInto mi mj; let nj := XMap.swapInto mj mi
    ({ s with maps := (s.maps.setIfInBounds (n i) ni).setIfInBounds (n j) nj }, showMap "" ni)
  | _, _ => (s, "bad")

def showSet (pre : String) (m : XMap Nat Int) : String :=
  s!"{pre}{m.size} :" ++ String.join (m.entries.map fun e => s!" {e.key}")

def getS (s : St) (i : Nat) : XMap Nat Int := s.sets.getD i {}

def setS (s : St) (i : Nat) (pre : String) (r : Option (XMap Nat Int)) : St × String :=
  match r with
  | some m => ({ s with sets := s.sets.setIfInBounds i m }, showSet pre m)
  | none => (s, "mem")

def setStep (s : St) (op : String) (a : List Int) : St × String :=
  let n (x : Int) : Nat := x.toNat
  match op, a with
  | "new", [i] => setS s (n i) "" (some {})
  | "ins", [i, k] => setS s (n i) "" (XMap.insert khash (getS s (n i)) (n k) 1)
  | "count", [i, k] =>
    match XMap.find khash (getS s (n i)) (n k) with
    | none => (s, "mem")
    | some none => (s, showSet "r=0 " (getS s (n i)))
    | some (some _) => (s, showSet "r=1 " (getS s (n i)))
  | "erase", [i, k] =>
    match XMap.erase khash (getS s (n i)) (n k) with
    | none => (s, "mem")
    | some (m, c) => setS s (n i) s!"r={c} " (some m)
  | "clear", [i] => setS s (n i) "" (XMap.clear (getS s (n i)))
  | "copyctor", [i, j] => setS s (n i) "" (XMap.copyOf khash (getS s (n j)))
  | _, _ => (s, "bad")

/- ---------------------------------------------------------------- deque -/

def showDeq (d : Deq Int) : String :=
  let sz := d.size
  let elems := (List.range sz).map fun i => match d.get i with | some x => s!" {x}" | none => " ?"
  let bk := match d.back with | some x => s!"{x}" | none => "-"
  s!"{sz} e={if d.isEmpty then 1 else 0} b={bk} :" ++ String.join elems

def getD (s : St) (i : Nat) : Deq Int := s.deqs.getD i { blockSize := 10 }

def setD (s : St) (i : Nat) (r : Option (Deq Int)) : St × String :=
  match r with
  | some d => ({ s with deqs := s.deqs.setIfInBounds i d }, showDeq d)
  | none => (s, "mem")

def deqStep (s : St) (op : String) (a : List Int) : St × String :=
  let n (x : Int) : Nat := x.toNat
  match op, a with
  | "new", [i, bs, k] => if bs ≤ 0 then (s, "bad") else setD s (n i) (some (Deq.create (n bs) (n k) 0))
  | "push", [i, x] => setD s (n i) (some ((getD s (n i)).pushBack x))
  | "pop", [i] => setD s (n i) (getD s (n i)).popBack
  | "resize", [i, k] => setD s (n i) ((getD s (n i)).resize (n k) 0)
  | "clear", [i] => setD s (n i) (some (getD s (n i)).clear)
  | "copy", [i, j] => if i = j then (s, showDeq (getD s (n i))) else setD s (n i) (some ((getD s (n i)).assign (getD s (n j))))
  | "copyctor", [i, j] => setD s (n i) (some (Deq.copyOf (getD s (n j))))
  | "swap", [i, j] =>
    let di := getD s (n i); let dj := getD s (n j)
    if i = j then (s, showDeq di) else
    let (ni, nj) := Deq.swapPair di dj
    ({ s with deqs := (s.deqs.setIfInBounds (n i) ni).setIfInBounds (n j) nj }, showDeq ni)
  | _, _ => (s, "bad")

/- ---------------------------------------------------------------- list -/

def getP (s : St) (i : Nat) : PL := s.plists.getD i {}

/-- dump of list `i` (pointer-level model: the chains are walked), with the number of blocks all lists hold -/
def showLst (s : St) (i : Nat) (pre : String := "") : St × String :=
  let l := getP s i
  let h := s.pheap
  let total := s.plists.foldl (fun acc l => acc + PL.blocks h l) 0
  let fwd := PL.toList h l
  let bwd := (PL.nodesBack h l).filterMap h.valOf
  let f := match fwd.head? with | some x => s!"{x}" | none => "-"
  let b := match fwd.getLast? with | some x => s!"{x}" | none => "-"
  (s, s!"{pre}{fwd.length} blocks={total} f={f} b={b} :" ++ String.join (fwd.map fun x => s!" {x}") ++ " |" ++
    String.join (bwd.map fun x => s!" {x}"))

def setP (s : St) (i : Nat) (r : Option (PHeap Int × PL)) : St × String :=
  match r with
  | some (h, l) => showLst { s with pheap := h, plists := s.plists.setIfInBounds i l } i
  | none => (s, "mem")

def setPN (s : St) (i : Nat) (r : Option (PHeap Int × PL × Nat)) : St × String :=
  setP s i (r.map fun q => (q.1, q.2.1))

/-- like `setPN`, also reporting the returned iterator as its distance from `begin()` -/
def setPNR (s : St) (i : Nat) (r : Option (PHeap Int × PL × Nat)) : St × String :=
  match r with
  | none => (s, "mem")
  | some (h, l, m) =>
    let q := setP s i (some (h, l))
    let idx := (PL.nodesOf h l).findIdx (· == m)
    (q.1, (if idx < (PL.nodesOf h l).length then s!"ret={idx} " else "ret=dangling ") ++ q.2)

/-- iterator to position `idx` of list `l`: `PL.posAt` of the model file -/
def posAt (h : PHeap Int) (l : PL) (idx : Nat) : Option Nat := PL.posAt h l idx

def lstStep (s : St) (op : String) (a : List Int) : St × String :=
  let n (x : Int) : Nat := x.toNat
  let h := s.pheap
  match op, a with
  | "new", [i] => showLst { s with plists := s.plists.setIfInBounds (n i) {} } (n i)
  | "pushb", [i, x] => setP s (n i) (PL.pstep h (getP s (n i)) (.pushBack x))
  | "pushf", [i, x] => setP s (n i) (PL.pstep h (getP s (n i)) (.pushFront x))
  | "popb", [i] => setP s (n i) (PL.pstep h (getP s (n i)) .popBack)
  | "popf", [i] => setP s (n i) (PL.pstep h (getP s (n i)) .popFront)
  | "insat", [i, idx, x] =>
    match posAt h (getP s (n i)) (n idx) with
    | none => (s, "mem")
    | some p => setPNR s (n i) (PL.constructNode h (getP s (n i)) x p)
  | "eraseat", [i, idx] => setP s (n i) (PL.pstep h (getP s (n i)) (.eraseAt (n idx)))
  | "save", [slot, i, idx] =>
    match (PL.nodesOf h (getP s (n i)))[n idx]? with
    | none => (s, "mem")
    | some p => match h.valOf p with
      | none => (s, "mem")
      | some v => showLst { s with slots := s.slots.setIfInBounds (n slot) (some p) } (n i) s!"r={v} "
  | "deref", [slot, i] =>
    match s.slots.getD (n slot) none with
    | none => (s, "mem")
    | some p => match h.valOf p with
      | none => (s, "mem")
      | some x => showLst s (n i) s!"r={x} "
  | "insit", [i, slot, x] =>
    match s.slots.getD (n slot) none with
    | none => (s, "mem")
    | some p => setPNR s (n i) (PL.constructNode h (getP s (n i)) x p)
  | "eraseit", [i, slot] =>
    match s.slots.getD (n slot) none with
    | none => (s, "mem")
    | some p => setP s (n i) (PL.erase h (getP s (n i)) p)
  | "splice", [i, pidx, j, sidx] =>
    if i = j then setP s (n i) (PL.pmove h (getP s (n i)) (n pidx) (n sidx)) else
    match posAt h (getP s (n i)) (n pidx), (PL.nodesOf h (getP s (n j)))[n sidx]? with
    | some p, some t => setP s (n i) (PL.splice h (getP s (n i)) p t)
    | _, _ => (s, "mem")
  | "splicer", [i, pidx, j, x, y] =>
    if i = j then (s, "bad") else
    let src := getP s (n j)
    let ns := PL.nodesOf h src
    if n x > n y ∨ n y > ns.length then (s, "mem") else
    match posAt h (getP s (n i)) (n pidx), posAt h src (n x), posAt h src (n y) with
    | some p, some f, some la => setP s (n i) (PL.spliceRange h (getP s (n i)) p f la)
    | _, _, _ => (s, "mem")
  | "clear", [i] => setP s (n i) (PL.pstep h (getP s (n i)) .clear)
  | "swap", [i, j] =>
    let li := getP s (n i); let lj := getP s (n j)
    showLst { s with plists := (s.plists.setIfInBounds (n i) lj).setIfInBounds (n j) li } (n i)
  | "show", [i] => showLst s (n i)
  | _, _ => (s, "bad")

/- ---------------------------------------------------------------- string -/

def showStr (d : DStr) : String :=
  let term := match d.data.items[d.size]? with
    | some t => s!"{t}"
    | none => if d.data.items.length = 0 ∧ d.size = 0 then "0" else "?"   -- c_str() of an empty buffer is &s_empty
  s!"{d.size} {d.capacity} t={term} :" ++ String.join (d.chars.map fun x => s!" {x}")

def getStr (s : St) (i : Nat) : DStr := s.strs.getD i {}

def setStr (s : St) (i : Nat) (r : Option DStr) : St × String :=
  match r with
  | some d => ({ s with strs := s.strs.setIfInBounds i d }, showStr d)
  | none => (s, "mem")

def optCount (t : String) : Option (Option Nat) :=
  if t = "npos" then some none else t.toNat?.map some

def strStep (s : St) : List String → St × String
  | ["new", i] => match i.toNat? with
    | some i => setStr s i (some {})
    | none => (s, "bad")
  | ["app", i, u] => match i.toNat?, units u with
    | some i, some xs => setStr s i ((getStr s i).append xs)
    | _, _ => (s, "bad")
  | ["appstr", i, j] => match i.toNat?, j.toNat? with
    | some i, some j => setStr s i ((getStr s i).append (getStr s j).chars)
    | _, _ => (s, "bad")
  | ["ctor", i, u] => match i.toNat?, units0 u with
    | some i, some xs => setStr s i (DStr.ofPtr xs xs.length)
    | _, _ => (s, "bad")
  | ["appz", i, u] => match i.toNat?, units0 u with
    | some i, some xs => setStr s i ((getStr s i).appendZ xs)
    | _, _ => (s, "bad")
  | ["assignz", i, u] => match i.toNat?, units0 u with
    | some i, some xs => setStr s i ((getStr s i).assignZ xs)
    | _, _ => (s, "bad")
  | ["insz", i, p, u] => match nats [i, p], units0 u with
    | some [i, p], some xs => setStr s i ((getStr s i).insertZ p xs)
    | _, _ => (s, "bad")
  | ["assignp", i, u, c] => match nats [i, c], units0 u with
    | some [i, c], some xs => setStr s i ((getStr s i).assignPtr xs c)
    | _, _ => (s, "bad")
  | ["appsub", i, j, p, cnt] => match nats [i, j, p], optCount cnt with
    | some [i, j, p], some c =>
      if i = j then (s, "bad") else setStr s i ((getStr s i).appendSub (getStr s j) p c)
    | _, _ => (s, "bad")
  | ["appn", i, n, c] => match nats [i, n, c] with
    | some [i, n, c] => setStr s i ((getStr s i).appendN n c)
    | _ => (s, "bad")
  | ["push", i, c] => match nats [i, c] with
    | some [i, c] => setStr s i ((getStr s i).pushBack c)
    | _ => (s, "bad")
  | ["ins", i, p, u] => match nats [i, p], units u with
    | some [i, p], some xs => setStr s i ((getStr s i).insert p xs)
    | _, _ => (s, "bad")
  | ["insn", i, p, n, c] => match nats [i, p, n, c] with
    | some [i, p, n, c] => setStr s i ((getStr s i).insertN p n c)
    | _ => (s, "bad")
  | ["erase", i, st, cnt] => match nats [i, st], optCount cnt with
    | some [i, st], some c => setStr s i ((getStr s i).erase st c)
    | _, _ => (s, "bad")
  | ["eraseat", i, p] => match nats [i, p] with
    | some [i, p] => match (getStr s i).eraseAtRet p with
      | none => (s, "mem")
      | some (d, r) => let q := setStr s i (some d); (q.1, s!"ret={r} " ++ q.2)
    | _ => (s, "bad")
  | ["insat", i, p, c] => match nats [i, p, c] with
    | some [i, p, c] => match (getStr s i).insertAt p c with
      | none => (s, "mem")
      | some (d, r) => let q := setStr s i (some d); (q.1, s!"ret={r} " ++ q.2)
    | _ => (s, "bad")
  | ["eraser", i, a, b] => match nats [i, a, b] with
    | some [i, a, b] => let q := setStr s i ((getStr s i).eraseRange a b); (q.1, if q.2 = "mem" then q.2 else s!"ret={a} " ++ q.2)
    | _ => (s, "bad")
  | ["assignit", i, j, a, b] => match nats [i, j, a, b] with
    | some [i, j, a, b] =>
      if i = j ∨ a > b ∨ b > (getStr s j).size then (s, "bad")
      else setStr s i ((getStr s i).assignIt (((getStr s j).chars.drop a).take (b - a)))
    | _ => (s, "bad")
  | ["clear", i] => match i.toNat? with
    | some i => setStr s i (getStr s i).clear
    | none => (s, "bad")
  | ["resize", i, n, c] => match nats [i, n, c] with
    | some [i, n, c] => setStr s i ((getStr s i).resize n c)
    | _ => (s, "bad")
  | ["reserve", i, n] => match nats [i, n] with
    | some [i, n] => setStr s i (some ((getStr s i).reserve n))
    | _ => (s, "bad")
  | ["assign", i, j] => match nats [i, j] with
    | some [i, j] => if i = j then (s, showStr (getStr s i)) else setStr s i ((getStr s i).assign (getStr s j))
    | _ => (s, "bad")
  | ["assignn", i, n, c] => match nats [i, n, c] with
    | some [i, n, c] => setStr s i ((getStr s i).assignN n c)
    | _ => (s, "bad")
  | ["assignsub", i, j, p, c] => match nats [i, j, p, c] with
    | some [i, j, p, c] =>
      if i = j then setStr s i ((getStr s i).assignSelfSub p c)
      else setStr s i ((getStr s i).assignSub (getStr s j) p c)
    | _ => (s, "bad")
  | ["substr", i, j, p, cnt] => match nats [i, j, p], optCount cnt with
    | some [i, j, p], some c =>
      if i = j then (s, "bad") else setStr s i ((getStr s j).substrInto (getStr s i) p c)
    | _, _ => (s, "bad")
  | ["swap", i, j] => match nats [i, j] with
    | some [i, j] =>
      let a := getStr s i; let b := getStr s j
      ({ s with strs := (s.strs.setIfInBounds i b).setIfInBounds j a }, showStr b)
    | _ => (s, "bad")
  | _ => (s, "bad")

/-- number of element objects that must be alive: every constructed cell of every container -/
def liveCells (s : St) : Nat :=
  s.vecs.foldl (fun n v => n + v.v.items.length) 0 + s.maps.foldl (fun n m => n + m.entries.length) 0 +
  s.deqs.foldl (fun n d => n + d.toList.length) 0 + s.plists.foldl (fun n l => n + (PL.nodesOf s.pheap l).length) 0

def withLive (r : St × String) : St × String :=
  if r.2 = "mem" ∨ r.2 = "bad" then r
  else
    let (c, a, d, n) := r.1.cnt
    (r.1, r.2 ++ s!" L={liveCells r.1} C={c} A={a} D={d} N={n}")

/-- element-object calls made by a map / deque / list request (one event per element touched; see
`design/C20.md` for the derivation from the code) -/
def otherCounts (old new : St) (kind op : String) (a : List Int) : Nat × Nat × Nat × Nat :=
  let n (x : Int) : Nat := x.toNat
  let msz (s : St) (i : Int) : Nat := (s.maps.getD (n i) {}).entries.length
  let dsz (s : St) (i : Int) : Nat := (s.deqs.getD (n i) { blockSize := 10 }).toList.length
  let dbs (s : St) (i : Int) : Nat := (s.deqs.getD (n i) { blockSize := 10 }).blockSize
  let lsz (s : St) (i : Int) : Nat := (PL.nodesOf s.pheap (s.plists.getD (n i) {})).length
  match kind, op, a with
  | "map", "new", i :: _ => (0, 0, msz old i, 0)
  | "map", "ins", i :: _ => (msz new i - msz old i, 0, 0, 0)
  | "map", "set", i :: _ => (0, 1, 0, msz new i - msz old i)
  | "map", "erase", i :: _ => (0, 0, msz old i - msz new i, 0)
  | "map", "clear", i :: _ => (0, 0, msz old i, 0)
  | "map", "copy", [i, j] => (msz old j, 0, msz old i, 0)
  | "map", "copyctor", [i, j] => (msz old j, 0, msz old i, 0)
  | "deq", "new", [i, _, k] => (n k, 0, 1 + dsz old i, 1)
  | "deq", "push", _ => (1, 0, 0, 0)
  | "deq", "pop", _ => (0, 0, 1, 0)
  | "deq", "resize", [i, k] => (n k - dsz old i, 0, 1 + (dsz old i - n k), 1)
  | "deq", "clear", i :: _ => (0, 0, dsz old i, 0)
  | "deq", "copy", [i, j] => if i = j then (0, 0, 0, 0) else (dsz old j, 0, dsz old i, 0)
  | "deq", "copyctor", [i, j] => (dsz old j, 0, dsz old i, 0)
  | "deq", "swap", [i, j] =>
    if i = j ∨ dbs old i = dbs old j then (0, 0, 0, 0)
    else (dsz old i + dsz old j, 0, dsz old i + dsz old j + 1, 1)   -- + the default value of the temporary deque
  | "lst", "new", i :: _ => (0, 0, lsz old i, 0)
  | "lst", "clear", i :: _ => (0, 0, lsz old i, 0)
  | "lst", "pushb", _ => (1, 0, 0, 0)
  | "lst", "pushf", _ => (1, 0, 0, 0)
  | "lst", "insat", _ => (1, 0, 0, 0)
  | "lst", "insit", _ => (1, 0, 0, 0)
  | "lst", "popb", _ => (0, 0, 1, 0)
  | "lst", "popf", _ => (0, 0, 1, 0)
  | "lst", "eraseat", _ => (0, 0, 1, 0)
  | "lst", "eraseit", _ => (0, 0, 1, 0)
  | _, _, _ => (0, 0, 0, 0)

def counted (s : St) (kind op : String) (a : List Int) (r : St × String) : St × String :=
  withLive ({ r.1 with cnt := otherCounts s r.1 kind op a }, r.2)

/- ---------------------------------------------------------------- object cache -/

def ocStep (s : St) (op : String) (a : List Int) : St × String :=
  let n (x : Int) : Nat := x.toNat
  let c := s.ocache
  match op, a with
  | "new", [] => ({ s with ocache := {}, ocslots := Array.replicate 4 none }, "created=0")
  | "get", [sl] =>
    let (c', id) := c.get
    ({ s with ocache := c', ocslots := s.ocslots.setIfInBounds (n sl) (some id) },
      s!"r={id} n={(c'.objs.getD id []).length} created={c'.objs.length}")
  | "put", [sl, x] =>
    match s.ocslots.getD (n sl) none with
    | none => (s, "mem")
    | some id =>
      let c' := c.put id x
      ({ s with ocache := c' }, s!"r={id} n={(c'.objs.getD id []).length} created={c'.objs.length}")
  | "release", [sl] =>
    match s.ocslots.getD (n sl) none with
    | none => (s, "mem")
    | some id =>
      let c' := c.release id
      ({ s with ocache := c', ocslots := s.ocslots.setIfInBounds (n sl) none }, s!"created={c'.objs.length}")
  | _, _ => (s, "bad")

/- ---------------------------------------------------------------- string pool -/

def showPool (pre : String) (p : SPool) : String :=
  let cnts := p.bucketCounts
  let nz := (List.range cnts.length).filterMap fun i =>
    let c := cnts.getD i 0
    if c = 0 then none else some s!" {i}={c}"
  s!"{pre}size={p.count} :" ++ String.join nz

def poolStep (s : St) : List String → St × String
  | ["new", i, bc] => match nats [i, bc] with
    | some [i, bc] => let p := SPool.new bc; ({ s with pools := s.pools.setIfInBounds i p }, showPool "" p)
    | _ => (s, "bad")
  | [g, i, u] => match (if g = "get" ∨ g = "gets" then i.toNat? else none), units0 u with
    | some i, some cs =>
      match (s.pools.getD i (SPool.new 101)).get cs with
      | none => (s, "mem")
      | some (p, r) =>
        let pre := match r with | some id => s!"r={id} " | none => "r=E "
        ({ s with pools := s.pools.setIfInBounds i p }, showPool pre p)
    | _, _ => (s, "bad")
  | ["clear", i] => match i.toNat? with
    | some i => let p := (s.pools.getD i (SPool.new 101)).clear; ({ s with pools := s.pools.setIfInBounds i p }, showPool "" p)
    | none => (s, "bad")
  | _ => (s, "bad")

/- ---------------------------------------------------------------- string cache -/

def scStep (s : St) : List String → St × String
  | ["new", m] => match m.toNat? with
    | some m => ({ s with scache := { maxSize := m }, scslots := Array.replicate 8 none, sctag := 0 }, "ok")
    | none => (s, "bad")
  | ["get", sl] => match sl.toNat? with
    | some sl =>
      let (c, id) := s.scache.get
      let cap := c.caps.getD id 0
      ({ s with scache := c.setCap id (16 + s.sctag), sctag := s.sctag + 1,
                scslots := s.scslots.setIfInBounds sl (some id) }, s!"r={cap} n=0")
    | none => (s, "bad")
  | ["release", sl] => match sl.toNat? with
    | some sl => match s.scslots.getD sl none with
      | none => (s, "mem")
      | some id =>
        let (c, r) := s.scache.release id
        ({ s with scache := c, scslots := s.scslots.setIfInBounds sl none }, s!"r={if r then 1 else 0}")
    | none => (s, "bad")
  | ["reset"] => ({ s with scache := s.scache.reset, scslots := Array.replicate 8 none }, "ok")
  | ["clear"] => ({ s with scache := s.scache.clear, scslots := Array.replicate 8 none }, "ok")
  | _ => (s, "bad")

/- ---------------------------------------------------------------- comparison family -/

def ofUnits (xs : List Nat) : DStr := ((({} : DStr).append xs).getD {})

def sgn (x : Int) : Int := if x < 0 then -1 else if x > 0 then 1 else 0

def cmpStep (s : St) : List String → St × String
  | ["compare", a, b] => match units a, units0 b with
    | some x, some y => let v := (ofUnits x).compareZ (y ++ [0]); (s, s!"r={sgn v} v={v}")
    | _, _ => (s, "bad")
  | ["comparestr", a, b] => match units a, units b with
    | some x, some y => let v := (ofUnits x).compareStr (ofUnits y); (s, s!"r={sgn v} v={v}")
    | _, _ => (s, "bad")
  | ["comparesub", a, p1, c1, b, c2] => match units a, nats [p1, c1], units0 b, optCount c2 with
    | some x, some [p1, c1], some y, some c2 =>
      let v := (ofUnits x).compareSub p1 c1 (y ++ [0]) c2
      (s, if c2.isNone then s!"r={sgn v}" else s!"r={sgn v} v={v}")
    | _, _, _, _ => (s, "bad")
  | ["equals", a, b] => match units a, units b with
    | some x, some y => (s, s!"r={if equalsUnits x y then 1 else 0}")
    | _, _ => (s, "bad")
  | ["eqi", a, b] => match units a, units b with
    | some x, some y => (s, s!"r={if equalsIgnoreCaseASCII x y then 1 else 0}")
    | _, _ => (s, "bad")
  | ["cmpi", a, b] => match units a, units b with
    | some x, some y => let v := compareIgnoreCaseASCII x y; (s, s!"r={sgn v} v={v}")
    | _, _ => (s, "bad")
  | _ => (s, "bad")

/- ---------------------------------------------------------------- bitmap -/

def showBmp (b : Bitmap) : String :=
  s!"{b.size} :" ++ String.join (b.bits.map fun x => match x with | some true => " 1" | some false => " 0" | none => " ?")

def setB (s : St) (i : Nat) (r : Option Bitmap) : St × String :=
  match r with
  | some b => ({ s with bmps := s.bmps.setIfInBounds i b }, showBmp b)
  | none => (s, "mem")

def bmpStep (s : St) (op : String) (a : List Int) : St × String :=
  let n (x : Int) : Nat := x.toNat
  let g (i : Int) : Bitmap := s.bmps.getD (n i) (Bitmap.new 0)
  match op, a with
  | "new", [i, sz] => setB s (n i) (some (Bitmap.new (n sz)))
  | "set", [i, b] => setB s (n i) ((g i).set (n b))
  | "clear", [i, b] => setB s (n i) ((g i).clear (n b))
  | "toggle", [i, b] => setB s (n i) ((g i).toggle (n b))
  | "clearall", [i] => setB s (n i) (some (g i).clearAll)
  | _, _ => (s, "bad")

def step (s : St) : List String → St × String
  | ["reset"] => ({}, "ok")
  | ["arith", _] => (s, "ok")      -- the integer formulas are the model; the harness checks the floating-point code against them
  | "bmp" :: op :: rest => match ints rest with
    | some a => bmpStep s op a
    | none => (s, "bad")
  | "oc" :: op :: rest => match ints rest with
    | some a => ocStep s op a
    | none => (s, "bad")
  | "pool" :: rest => poolStep s rest
  | "cmp" :: rest => cmpStep s rest
  | "sc" :: rest => scStep s rest
  | "vec" :: rest => withLive (vecStep { s with cnt := (0, 0, 0, 0) } rest)
  | "map" :: op :: rest => match ints rest with
    | some a => counted s "map" op a (mapStep s op a)
    | none => (s, "bad")
  | "set" :: op :: rest => match ints rest with
    | some a => setStep s op a
    | none => (s, "bad")
  | "deq" :: op :: rest => match ints rest with
    | some a => counted s "deq" op a (deqStep s op a)
    | none => (s, "bad")
  | "lst" :: op :: rest => match ints rest with
    | some a => counted s "lst" op a (lstStep s op a)
    | none => (s, "bad")
  | "str" :: rest => strStep s rest
  | _ => (s, "bad")

end Driver.C20

def main : IO Unit := Driver.run ({} : Driver.C20.St) Driver.C20.step
