import XalanModel.Containers.Vector
import Driver.Util
/-
xm_c20: replays container operation logs on the Lean models.
Request:  `vec <op> <id> <args…>`     Reply: `<size> <capacity> : <elements…>` | `mem` | `bad`
-/
open XalanModel.Containers

namespace Driver.C20

structure St where
  vecs : Array (Vec Int) := Array.replicate 4 Vec.empty

def showVec (v : Vec Int) : String :=
  s!"{v.items.length} {v.alloc} :" ++ String.join (v.items.map fun x => s!" {x}")

def getV (s : St) (i : Nat) : Vec Int := s.vecs.getD i Vec.empty

def setV (s : St) (i : Nat) (r : Option (Vec Int)) : St × String :=
  match r with
  | some v => ({ s with vecs := s.vecs.setIfInBounds i v }, showVec v)
  | none => (s, "mem")

def vecStep (s : St) : List String → St × String
  | ["new", i] => match i.toNat? with
    | some i => setV s i (some Vec.empty)
    | none => (s, "bad")
  | ["newcap", i, n] => match i.toNat?, n.toNat? with
    | some i, some n => setV s i (some (Vec.withAlloc n))
    | _, _ => (s, "bad")
  | ["push", i, x] => match i.toNat?, x.toInt? with
    | some i, some x => setV s i ((getV s i).pushBack x)
    | _, _ => (s, "bad")
  | ["pop", i] => match i.toNat? with
    | some i => setV s i (getV s i).popBack
    | none => (s, "bad")
  | ["ins1", i, p, x] => match i.toNat?, p.toNat?, x.toInt? with
    | some i, some p, some x => setV s i ((getV s i).insertOne p x)
    | _, _, _ => (s, "bad")
  | ["insn", i, p, n, x] => match i.toNat?, p.toNat?, n.toNat?, x.toInt? with
    | some i, some p, some n, some x => setV s i ((getV s i).insertN p n x)
    | _, _, _, _ => (s, "bad")
  | ["insr", i, p, j, a, b] => match i.toNat?, p.toNat?, j.toNat?, a.toNat?, b.toNat? with
    | some i, some p, some j, some a, some b =>
      if i = j ∨ a > b ∨ b > (getV s j).items.length then (s, "bad")
      else setV s i ((getV s i).insertRange p (((getV s j).items.drop a).take (b - a)))
    | _, _, _, _, _ => (s, "bad")
  | ["erase", i, a, b] => match i.toNat?, a.toNat?, b.toNat? with
    | some i, some a, some b => setV s i ((getV s i).erase a b)
    | _, _, _ => (s, "bad")
  | ["resize", i, n, x] => match i.toNat?, n.toNat?, x.toInt? with
    | some i, some n, some x => setV s i ((getV s i).resize n x)
    | _, _, _ => (s, "bad")
  | ["reserve", i, n] => match i.toNat?, n.toNat? with
    | some i, some n => setV s i (some ((getV s i).reserve n))
    | _, _ => (s, "bad")
  | ["clear", i] => match i.toNat? with
    | some i => setV s i (getV s i).clear
    | none => (s, "bad")
  | ["assign", i, j, a, b] => match i.toNat?, j.toNat?, a.toNat?, b.toNat? with
    | some i, some j, some a, some b =>
      if i = j ∨ a > b ∨ b > (getV s j).items.length then (s, "bad")
      else setV s i ((getV s i).assign (((getV s j).items.drop a).take (b - a)))
    | _, _, _, _ => (s, "bad")
  | ["copy", i, j] => match i.toNat?, j.toNat? with
    | some i, some j => if i = j then (s, showVec (getV s i)) else setV s i ((getV s i).copyAssign (getV s j))
    | _, _ => (s, "bad")
  | ["swap", i, j] => match i.toNat?, j.toNat? with
    | some i, some j =>
      let vi := getV s i; let vj := getV s j
      let s1 := { s with vecs := (s.vecs.setIfInBounds i vj).setIfInBounds j vi }
      (s1, showVec vj)
    | _, _ => (s, "bad")
  | _ => (s, "bad")

def step (s : St) : List String → St × String
  | "vec" :: rest => vecStep s rest
  | _ => (s, "bad")

end Driver.C20

def main : IO Unit := Driver.run ({} : Driver.C20.St) Driver.C20.step
