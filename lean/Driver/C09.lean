import XalanModel.C09.Matcher
import Driver.Util
/-
xm_c09: match patterns on the Lean model.

Requests (same file as for harness/c09_patterns.cpp; the hex fields are for the C++ side):
  doc <hex xml> <n> <tok>…        tok = r | e:<name>:<parent> | a:<name>:<parent> | t::<parent> | c::<parent> | p:<target>:<parent>
      reply  "doc <n> <tok>…" (the table as understood) or "doc ERR:wf"
  variant <findAttrFix> <attrGuard> <rootGuard> <backtrack>   (0/1 each) selects the model variant (Matcher.lean `Variant`); echoed
  pat <hex pattern> <alt> ('|' <alt>)*
      alt  = ("abs" | "rel") <step>*          step = <sep>:<axis>:<test>:<preds>
      sep  = c | d      axis = c | a | C (child::) | A (attribute::)      test = n.<name> | q.<prefix>.<uri>.<local> | w.<prefix>.<uri> | any | text | comment | pi | pl.<name> | node
      preds = "-" | comma separated:  i<k> | last | pe<k> | pnl | le<k> | lg<k> | pll | lm1 | sl.<a>.<b> | dv.<a>.<b> | ce.<a>.<b> | ng.<k> | cc.<x> | cs.<x> | sa.<x> | nu.<x> | a.<x> | c.<x> | na.<x>
  fpat <hex pattern> <hex4 units of the id()/key() call text> <node-set "3,7"|"-"> <step>*   (id()/key()-leading pattern)
      reply  "pat <rendered pattern> codes=<alt;alt> m=<score per node> s=<0/1 per node>"
        codes: compilePathW (the compiler's branches);  m: getMatchScore (model of XPath::getMatchScore);  s: Spec.matchesPattern
-/
open XalanModel.C09

namespace Driver.C09

structure St where
  doc : Option Doc := none
  v : Variant := Variant.asWritten

def parseNode (tok : String) : Option NodeInfo :=
  match tok.splitOn ":" with
  | ["r"] => some { kind := .root, name := "", parent := 0 }
  | ["f"] => some { kind := .root, name := "", parent := 0 }      -- a document fragment root (result tree fragment)
  | [k, nm, p] =>
    match p.toNat? with
    | none => none
    | some p =>
      match k with
      | "e" => some { kind := .elem, name := nm, parent := p }
      | "a" => some { kind := .attr, name := nm, parent := p }
      | "t" => some { kind := .text, name := nm, parent := p }
      | "c" => some { kind := .comment, name := nm, parent := p }
      | "p" => some { kind := .pi, name := nm, parent := p }
      | _ => none
  | _ => none

def showNode (ni : NodeInfo) : String :=
  match ni.kind with
  | .root => "r"
  | .elem => s!"e:{ni.name}:{ni.parent}"
  | .attr => s!"a:{ni.name}:{ni.parent}"
  | .text => s!"t:{ni.name}:{ni.parent}"
  | .comment => s!"c:{ni.name}:{ni.parent}"
  | .pi => s!"p:{ni.name}:{ni.parent}"

def parseTest (s : String) : Option Test :=
  match s.splitOn "." with
  | ["n", nm] => some (.name nm)
  | ["q", pfx, uri, loc] => some (.qname pfx uri loc)
  | ["w", pfx, uri] => some (.nsAny pfx uri)
  | ["any"] => some .any
  | ["text"] => some .text
  | ["comment"] => some .comment
  | ["pi"] => some .pi
  | ["pl", nm] => some (.piLit nm)
  | ["node"] => some .node
  | _ => none

def parsePred (s : String) : Option Pred :=
  if s = "last" then some .last
  else if s = "pnl" then some .posNeLast
  else if s = "pll" then some .posLtLast
  else if s = "lm1" then some .lastMinus1
  else match s.splitOn "." with
    | ["cc", x] => some (.countChild x)
    | ["cs", x] => some (.countSib x)
    | ["sa", x] => some (.strlenAttr x)
    | ["nu", x] => some (.numberAttr x)
    | ["sl", a, b] => (a.toNat?.bind fun a => b.toNat?.map fun b => Pred.sumLit a b)
    | ["dv", a, b] => (a.toNat?.bind fun a => b.toNat?.map fun b => Pred.divLit a b)
    | ["ce", a, b] => (a.toNat?.bind fun a => b.toNat?.map fun b => Pred.ceilDiv a b)
    | ["ng", k] => k.toNat?.map Pred.negLit
    | ["a", x] => some (.attr x)
    | ["c", x] => some (.child x)
    | ["na", x] => some (.notAttr x)
    | [w] =>
      if w.startsWith "pe" then (w.drop 2).toString.toNat?.map Pred.posEq
      else if w.startsWith "le" then (w.drop 2).toString.toNat?.map Pred.lastEq
      else if w.startsWith "lg" then (w.drop 2).toString.toNat?.map Pred.lastGt
      else if w.startsWith "i" then (w.drop 1).toString.toNat?.map Pred.idx
      else none
    | _ => none

def parsePreds (s : String) : Option (List Pred) :=
  if s = "-" then some [] else (s.splitOn ",").mapM parsePred

def parseStep (tok : String) : Option (Sep × Step) :=
  match tok.splitOn ":" with
  | [sep, ax, t, ps] =>
    match (if sep = "c" then some Sep.child else if sep = "d" then some Sep.desc else none),
          (if ax = "c" then some (false, false) else if ax = "a" then some (true, false)
           else if ax = "C" then some (false, true) else if ax = "A" then some (true, true) else none),
          parseTest t, parsePreds ps with
    | some sep, some ax, some t, some ps =>
      some (sep, { attrAxis := ax.1, test := t, preds := ps, explicit := ax.2 })
    | _, _, _, _ => none
  | _ => none

def parsePath : List String → Option Path
  | "abs" :: steps => (steps.mapM parseStep).map fun s => { abs := true, steps := s }
  | "rel" :: steps => (steps.mapM parseStep).map fun s => { abs := false, steps := s }
  | _ => none

/-- split a token list at "|" -/
def splitAlts (ws : List String) : List (List String) :=
  ws.foldr (fun w acc => if w = "|" then [] :: acc else
    match acc with
    | a :: r => (w :: a) :: r
    | [] => [[w]]) [[]]

def bit (s : String) : Option Bool := if s = "1" then some true else if s = "0" then some false else none

def step (s : St) : List String → St × String
  | ["variant", f, a, r, b] =>
    match bit f, bit a, bit r, bit b with
    | some f', some a', some r', some b' => ({ s with v := ⟨f', a', r', b'⟩ }, s!"variant {f} {a} {r} {b}")
    | _, _, _, _ => (s, "bad")
  | "doc" :: _hex :: n :: toks =>
    match n.toNat?, toks.mapM parseNode with
    | some n, some nodes =>
      let d : Doc := { nodes := nodes, rootKind := if toks.head? == some "f" then .fragment else .document }
      if n = nodes.length ∧ d.WF then
        ({ s with doc := some d }, s!"doc {n}" ++ String.join (nodes.map fun ni => " " ++ showNode ni))
      else ({ s with doc := none }, "doc ERR:wf")
    | _, _ => ({ s with doc := none }, "doc ERR:wf")
  | "pat" :: _hex :: rest =>
    match s.doc, (splitAlts rest).mapM parsePath with
    | some d, some P =>
      if P.all Path.valid ∧ !P.isEmpty then
        let idx := List.range d.size
        let codes := ";".intercalate (P.map fun p => String.join ((compilePathW p).map fun c =>
          String.ofList (c.code.char :: c.preds.map fun q => if q.usesPos then '+' else '-')))
        let m := String.join (idx.map fun i => toString (getMatchScore s.v d P i).toNat)
        let sp := String.join (idx.map fun i => if Spec.matchesPattern d P i then "1" else "0")
        let amb := String.join (idx.map fun _ => "0")
        let alts := ",".intercalate ((List.range (P.length + 1)).map fun a =>
          String.join (idx.map fun i => toString (getMatchScoreAlt s.v d P a i).toNat))
        (s, s!"pat {Pattern.render P} codes={codes} amb={amb} alts={alts} ns=0 m={m} s={sp}")
      else (s, "pat ERR:invalid")
    | none, _ => (s, "pat ERR:nodoc")
    | _, none => (s, "pat ERR:parse")
  | "fpat" :: _hex :: txtHex :: set :: steps =>
    -- id()/key()-leading pattern: <hex of the call text> <node-set "3,7" or "-"> <step>*
    match s.doc, steps.mapM parseStep, Driver.unitsOfHex txtHex,
          (if set = "-" then some [] else (set.splitOn ",").mapM String.toNat?) with
    | some d, some st, some units, some S =>
      let p : FnPath := { txt := String.ofList (units.map Char.ofNat), S := S, steps := st }
      let idx := List.range d.size
      let codes := String.join ((compileFnW p).map fun c =>
        (match c.code with | .fn true => "FG" | _ => String.ofList [c.code.char]) ++
          String.ofList (c.preds.map fun q => if q.usesPos then '+' else '-'))
      let m := String.join (idx.map fun i => toString (getMatchScoreFn s.v d p i).toNat)
      let sp := String.join (idx.map fun i => if Spec.matchesFn d p i then "1" else "0")
      let amb := String.join (idx.map fun _ => "0")
      -- one alternative: index 0 is the pattern, index 1 is past the end
      (s, s!"pat {p.render} codes={codes} amb={amb} alts={m},{amb} ns=0 m={m} s={sp}")
    | none, _, _, _ => (s, "pat ERR:nodoc")
    | _, _, _, _ => (s, "pat ERR:parse")
  | _ => (s, "bad")

end Driver.C09

def main : IO Unit := Driver.run ({} : Driver.C09.St) Driver.C09.step
