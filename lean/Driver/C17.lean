import XalanModel.C17.Format
import XalanModel.C17.Spec
import XalanModel.C17.Forest
import Driver.Util
/-
xm_c17: replays xsl:number requests on the Lean model and on the Lean specification.

  doc <parent of node 0 (= -1)> <parent of node 1> …        -> ok n=<N> wf=<0|1>   (wf: the list is a document-order parent list, i.e. Doc.ofForest of the forest read from it has exactly these parents)
  cls <class id per node>                                     -> ok            (default count pattern = same class)
  num <s|m|a> <count bits|-> <count bits for the specification|=> <from bits|-> <fmt hex|-> <gsep hex|-> <gsize|-> <visited node>…
        -> one entry per visit:  <formatted hex | !err>|<model list>|<spec list>|<flags>
           flags: h = answer differs from the empty-cache answer, - = none
  attrs <owner element of attribute 0> <of attribute 1> …     -> ok            (attribute j is node number size + j)
  numa <s|m|a> <count bits|-> <from bits|-> <visited node>…   -> per visit: <model list>|<spec list>   (document with attribute nodes)
  lv <0|1|2>                                                  -> ok            (letter-value for the following val requests)
  fmt <fmt hex|-> <gsep hex|-> <gsize|-> <number>…          -> formatted hex | !err        (formatNumberList)
  val <fmt hex|-> <gsep hex|-> <gsize|-> <integer>           -> formatted hex | !err        (value= path)
  valq <fmt hex|-> <gsep hex|-> <gsize|-> <num> <den>        -> formatted hex | !err | !num2str | !undefined-cast   (value = num/den)
  dec <fmt hex|-> <gsep hex|-> <gsize|-> <string hex>        -> a.b.c | none                 (decodeList)
-/
open XalanModel.C17

namespace Driver.C17

structure St where
  parents : Array Int := #[]
  cls : Array Nat := #[]
  lv : Nat := 0                  -- letter-value for the following val / valq / fmt requests (1 = alphabetic)
  owners : Array Nat := #[]      -- attribute j (node number size + j) belongs to element owners[j]

/-- ASCII part of `isXMLLetterOrDigit` (the generator only emits characters for which the XML 1.0
Letter/Digit classes are known: ASCII, plus a few listed non-letters) -/
def alnum (c : Nat) : Bool :=
  (48 ≤ c && c ≤ 57) || (65 ≤ c && c ≤ 90) || (97 ≤ c && c ≤ 122) ||
  c == 0xE9 || c == 0x3A9 ||     -- é, Ω are XML letters (used by the generator as "strange" alnum characters)
  (0x3B1 ≤ c && c ≤ 0x3C9)       -- Greek small letters α … ω (XML BaseChar): the Greek numbering token and its output

/-- The document of a parent list: read into the inductive `Forest` and flattened by `Doc.ofForest` — the documents
the counting theorems hold for without hypothesis (`forest_doc_wf`: every flattened forest is `WF` and `Closed`).  The
navigation functions are the flattened ones, copied once into arrays for speed. -/
def mkDoc (parents : Array Int) : Doc :=
  let d0 := Doc.ofForest (Forest.ofParents parents.toList)
  let n := d0.size
  let par : Array (Option Nat) := Array.ofFn (n := n) fun i => d0.parent i.val
  let ps : Array (Option Nat) := Array.ofFn (n := n) fun i => d0.prevSib i.val
  let lc : Array (Option Nat) := Array.ofFn (n := n) fun i => d0.lastChild i.val
  { size := n, parent := fun i => (par[i]?).join, prevSib := fun i => (ps[i]?).join, lastChild := fun i => (lc[i]?).join }

/-- did reading the parent list into a forest lose anything?  (same number of nodes, same parent for every node: the
request really was a parent list in document order) -/
def faithful (parents : Array Int) (d : Doc) : Bool :=
  d.size == parents.size &&
  (List.range parents.size).all fun i =>
    d.parent i == (match parents[i]? with
      | some p => if p < 0 then none else some p.toNat
      | none => none)

def bits (s : String) : Option (Nat → Bool) :=
  if s = "-" then none else
  let a := s.toList.toArray
  some fun i => a[i]? == some '1'

def showList (l : List Nat) : String :=
  if l.isEmpty then "-" else ".".intercalate (l.map toString)

def parseStr (s : String) : Option (List Nat) := if s = "-" then some [] else Driver.unitsOfHex s

def mkGrouping (gsep gsize : String) : Option Grouping :=
  -- getNumberFormatter: grouping is used iff both attributes are non-empty; a separator longer than one character
  -- is an error as soon as a decimal token is formatted
  let sp? : Option Str := if gsep = "-" then some [] else Driver.unitsOfHex gsep
  match sp? with
  | none => none
  | some sp =>
    if gsep = "-" ∨ gsize = "-" then some { rawSepLen := sp.length } else
    match gsize.toNat? with
    | some k => some { used := true, sep := sp, size := k, rawSepLen := sp.length }
    | none => none

def showOut (r : Option Str) : String :=
  match r with
  | none => "!err"
  | some s => Driver.hexOfUnits s

def after (counted node : Nat) : Bool := decide (counted ≤ node)

def numStep (s : St) (level count scount from_ fmt gsep gsize : String) (visits : List String) : String :=
  let d := mkDoc s.parents
  let lv? : Option Level := if level = "s" then some .single else if level = "m" then some .multiple
    else if level = "a" then some .any else none
  match lv?, parseStr fmt, mkGrouping gsep gsize, visits.mapM String.toNat? with
  | some lv, some fmtS, some g, some vs =>
    let cls (i : Nat) : Nat := s.cls.getD i 0
    let countAt : Nat → Nat → Bool := match bits count with
      | some f => fun _ n => f n
      | none => fun pos n => cls pos == cls n    -- the document node has a class of its own
    let specCount : Nat → Nat → Bool := match bits scount with
      | some f => fun _ n => f n
      | none => countAt
    let cfg : NumCfg := { level := lv, countAt := countAt, fromP := bits from_ }
    let rec go (cs : List Counter) : List Nat → List String
      | [] => []
      | v :: rest =>
        let r := getCountList d cfg after cs v
        let scratch := getCountList d cfg after [] v
        let spec := numberSpec d lv (specCount v) cfg.fromP v
        let out := if r.2.isEmpty then some [] else formatNumberList alnum g fmtS r.2
        let fl := if scratch.2 ≠ r.2 then "h" else ""
        s!"{showOut out}|{showList r.2}|{showList spec}|{if fl.isEmpty then "-" else fl}" :: go r.1 rest
    " ".intercalate (go [] vs)
  | _, _, _, _ => "bad"

/-- `numa`: like `num` (default format), on the document with its attribute nodes; visits are node numbers, the
attributes being `size + j`; masks and classes cover `size + #attributes` numbers -/
def numaStep (s : St) (level count from_ : String) (visits : List String) : String :=
  let d := (mkDoc s.parents).withAttrs s.owners.toList
  let lv? : Option Level := if level = "s" then some .single else if level = "m" then some .multiple
    else if level = "a" then some .any else none
  match lv?, visits.mapM String.toNat? with
  | some lv, some vs =>
    let cls (i : Nat) : Nat := s.cls.getD i 0
    let countAt : Nat → Nat → Bool := match bits count with
      | some f => fun _ n => f n
      | none => fun pos n => cls pos == cls n
    let cfg : NumCfg := { level := lv, countAt := countAt, fromP := bits from_ }
    let rec go (cs : List Counter) : List Nat → List String
      | [] => []
      | v :: rest =>
        let r := getCountListA XalanModel.Generated.C17.anyWalkUsesDomParent XalanModel.Generated.C17.anyZeroPrintsNothing d cfg after cs v
        let spec := if v < d.size then numberSpec d lv (countAt v) cfg.fromP v
          else match lv with
            | .any => specAnyAttr (countAt v) cfg.fromP v ((d.parent v).getD 0)
            | l => numberSpec d l (countAt v) cfg.fromP v
        s!"{showList r.2}|{showList spec}" :: go r.1 rest
    " ".intercalate (go [] vs)
  | _, _ => "bad"

def step (s : St) : List String → St × String
  | "doc" :: ps =>
    match ps.mapM String.toInt? with
    | some l =>
      let s' := { s with parents := l.toArray, cls := #[], owners := #[] }
      let d := mkDoc s'.parents
      (s', s!"ok n={d.size} wf={if faithful s'.parents d then 1 else 0}")
    | none => (s, "bad")
  | "cls" :: cs =>
    match cs.mapM String.toNat? with
    | some l => ({ s with cls := l.toArray }, "ok")
    | none => (s, "bad")
  | ["lv", v] =>
    match v.toNat? with
    | some k => ({ s with lv := k }, "ok")
    | none => (s, "bad")
  | "attrs" :: os =>
    match os.mapM String.toNat? with
    | some l => ({ s with owners := l.toArray }, "ok")
    | none => (s, "bad")
  | "numa" :: level :: count :: from_ :: visits =>
    (s, numaStep s level count from_ visits)
  | "num" :: level :: count :: scount :: from_ :: fmt :: gsep :: gsize :: visits =>
    (s, numStep s level count (if scount = "=" then "-" else scount) from_ fmt gsep gsize visits)
  | "fmt" :: fmt :: gsep :: gsize :: ns =>
    match parseStr fmt, mkGrouping gsep gsize, ns.mapM String.toNat? with
    | some f, some g, some l => (s, showOut (formatNumberList alnum g f l))
    | _, _, _ => (s, "bad")
  | ["val", fmt, gsep, gsize, v] =>
    match parseStr fmt, mkGrouping gsep gsize, v.toInt? with
    | some f, some g, some x => (s, showOut (formatValue alnum { g with letterValue := s.lv } f x))
    | _, _, _ => (s, "bad")
  | ["valq", fmt, gsep, gsize, num, den] =>
    match parseStr fmt, mkGrouping gsep gsize, num.toInt?, den.toNat? with
    | some f, some g, some a, some b =>
      if b = 0 then (s, "bad") else
      (s, match formatValueQ XalanModel.Generated.C17.valueRangeGuard alnum g f a b with
          | .viaNumberToString => "!num2str"
          | .castUndefined => "!undefined-cast"
          | .formatted r => showOut r)
    | _, _, _, _ => (s, "bad")
  | ["dec", fmt, gsep, gsize, str] =>
    match parseStr fmt, mkGrouping gsep gsize, parseStr str with
    | some f, some g, some o =>
      (s, match decodeList alnum g f o with
          | some l => showList l
          | none => "none")
    | _, _, _ => (s, "bad")
  | _ => (s, "bad")

end Driver.C17

def main : IO Unit := Driver.run ({} : Driver.C17.St) Driver.C17.step
