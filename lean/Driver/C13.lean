import XalanModel.C13.XsltProofs
import Driver.Util
/-
xm_c13: the C13 model behind the line protocol.

Requests (space separated tokens; `;` separates the parts):
  strip <case> <sheet> ; <doc>            -> one character per text node, document order: 1 = stripped
  eval  <case> <sheet> ; <doc> ; <expr>   -> S<hex of string(expr) at the document node> | unsupported
  xform <case> ...                        -> -     (stylesheet-level cases are decided on the implementation)

<sheet> ::= [ item* ]          item ::= s:<nt> | p:<nt> | <sheet>      (imports, document order)
<nt>    ::= * | <uri>|* | <uri>|<local>                                (<uri> may be empty)
<doc>   ::= ( # node* )        node ::= ( <uri>|<local> node* ) | T<hex> | C<hex> | P<target>|<hex>
<expr>  ::= prefix form, see `parseExpr`
-/
open XalanModel.C13

namespace Driver.C13

def strOfHex (h : String) : Option String :=
  (Driver.unitsOfHex h).map fun us => String.ofList (us.map Char.ofNat)

def hexOfStr (s : String) : String := Driver.hexOfUnits (s.toList.map Char.toNat)

def splitBar (s : String) : Option (String × String) :=
  match s.splitOn "|" with
  | [a, b] => some (a, b)
  | _ => none

def parseNameTest (strip : Bool) (s : String) : Option Tester :=
  if s = "*" then some ⟨"", "", strip⟩ else
  match splitBar s with
  | some (u, l) => if l = "*" then (if u = "" then none else some ⟨u, "", strip⟩) else some ⟨u, l, strip⟩
  | none => none

/-- parses the items of a sheet after `[`; returns the sheet and the rest after the matching `]` -/
def parseSheetBody : Nat → List String → List Tester → List Sheet → Option (Sheet × List String)
  | 0, _, _, _ => none
  | _, [], _, _ => none
  | fuel + 1, tok :: rest, decls, imps =>
    if tok = "]" then some (.mk decls.reverse imps.reverse, rest)
    else if tok = "[" then
      match parseSheetBody fuel rest [] [] with
      | some (s, rest') => parseSheetBody fuel rest' decls (s :: imps)
      | none => none
    else if tok.startsWith "s:" then
      match parseNameTest true (tok.drop 2).toString with
      | some t => parseSheetBody fuel rest (t :: decls) imps
      | none => none
    else if tok.startsWith "p:" then
      match parseNameTest false (tok.drop 2).toString with
      | some t => parseSheetBody fuel rest (t :: decls) imps
      | none => none
    else none

def parseSheet (toks : List String) : Option Sheet :=
  match toks with
  | "[" :: rest =>
    match parseSheetBody (toks.length + 1) rest [] [] with
    | some (s, []) => some s
    | _ => none
  | _ => none

/-- element name token: `#` (document) | `uri|local` | `uri|local|p` (xml:space="preserve") | `uri|local|d` (other value).
Returns the name and the element's own `xml:space` attribute. -/
def parseElemName (nm : String) : Option (Option QName × Option Bool) :=
  if nm = "#" then some (none, none) else
  match nm.splitOn "|" with
  | [u, l] => some (some ⟨u, l⟩, none)
  | [u, l, "p"] => some (some ⟨u, l⟩, some true)
  | [u, l, "d"] => some (some ⟨u, l⟩, some false)
  | _ => none

/-- parses children until `)`; `next` is the next document-order index; `eff` is the xml:space state in force
at the parent (handed down like `inheritSpace`) -/
def parseKids : Nat → Bool → List String → Nat → List Node → Option (List Node × Nat × List String)
  | 0, _, _, _, _ => none
  | _, _, [], _, _ => none
  | fuel + 1, eff, tok :: rest, next, acc =>
    if tok = ")" then some (acc.reverse, next, rest)
    else if tok = "(" then
      match rest with
      | nm :: rest1 =>
        match parseElemName nm with
        | none => none
        | some (name, own) =>
          let eff' := inheritSpace eff own
          -- attribute tokens `@uri|local=hex` directly after the name
          -- namespace declaration tokens `%prefix=hex(uri)` first, then attribute tokens
          let nsToks := rest1.takeWhile (·.startsWith "%")
          let rest1 := rest1.dropWhile (·.startsWith "%")
          let nss0 : List (String × String) := nsToks.filterMap fun t =>
            match (t.drop 1).toString.splitOn "=" with
            | [pfx, h] => (strOfHex h).map fun u => (pfx, u)
            | _ => none
          let nss : List (Nat × String × String) := nss0.zipIdx.map fun (a, k) => (next + 1 + k, a.1, a.2)
          let nextA := next + nss.length
          let attrToks := rest1.takeWhile (·.startsWith "@")
          let rest1 := rest1.dropWhile (·.startsWith "@")
          let attrs0 : List (QName × String) := attrToks.filterMap fun t =>
            match (t.drop 1).toString.splitOn "=" with
            | [nm, h] =>
              match splitBar nm, strOfHex h with
              | some (u, l), some v => some (⟨u, l⟩, v)
              | _, _ => none
            | _ => none
          -- attribute nodes take the document-order indices right after their element
          let attrs : List (Nat × QName × String) := attrs0.zipIdx.map fun (a, k) => (nextA + 1 + k, a.1, a.2)
          let tag : Option Tag := name.map fun q => ⟨q, eff', attrs, nss⟩
          match parseKids fuel eff' rest1 (nextA + 1 + attrs.length) [] with
          | some (kids, next', rest2) => parseKids fuel eff rest2 next' (.elem next tag kids :: acc)
          | none => none
      | [] => none
    else if tok.startsWith "T" then
      match strOfHex (tok.drop 1).toString with
      | some d => parseKids fuel eff rest (next + 1) (.text next d :: acc)
      | none => none
    else if tok.startsWith "C" then
      match strOfHex (tok.drop 1).toString with
      | some d => parseKids fuel eff rest (next + 1) (.comment next d :: acc)
      | none => none
    else if tok.startsWith "P" then
      match splitBar (tok.drop 1).toString with
      | some (t, h) =>
        match strOfHex h with
        | some d => parseKids fuel eff rest (next + 1) (.pi next t d :: acc)
        | none => none
      | none => none
    else none

def parseDoc (toks : List String) : Option Node :=
  match parseKids (toks.length + 1) false (toks ++ [")"]) 0 [] with
  | some ([n], _, []) => some n
  | _ => none

def parseAxis : String → Option Axis
  | "child" => some .child | "descendant" => some .descendant | "descendant-or-self" => some .descendantOrSelf
  | "following-sibling" => some .followingSibling | "preceding-sibling" => some .precedingSibling
  | "self" => some .self | "parent" => some .parent | "ancestor" => some .ancestor
  | "ancestor-or-self" => some .ancestorOrSelf
  | "following" => some .following | "preceding" => some .preceding
  | "attribute" => some .attrAxis
  | "namespace" => some .nsAxis
  | _ => none

def parseTest (s : String) : Option Test :=
  if s = "any" then some .anyElem
  else if s = "text" then some .text
  else if s = "node" then some .node
  else if s = "comment" then some .comment
  else if s = "pi" then some .pi
  else if s.startsWith "name:" then
    match splitBar (s.drop 5).toString with
    | some (u, l) => if l = "*" then some (.nsWild u) else some (.name ⟨u, l⟩)
    | none => none
  else none

/-- prefix-form expression parser -/
def parseExpr : Nat → List String → Option (Expr × List String)
  | 0, _ => none
  | _, [] => none
  | fuel + 1, tok :: rest =>
    let un (mk : Expr → Expr) : Option (Expr × List String) :=
      (parseExpr fuel rest).map fun (e, r) => (mk e, r)
    let bin (mk : Expr → Expr → Expr) : Option (Expr × List String) :=
      match parseExpr fuel rest with
      | some (a, r1) => (parseExpr fuel r1).map fun (b, r2) => (mk a b, r2)
      | none => none
    match tok with
    | "self" => some (.self, rest)
    | "root" => some (.root, rest)
    | "position" => some (.position, rest)
    | "last" => some (.last, rest)
    | "count" => un .count
    | "string" => un .string
    | "strlen" => un .stringLength
    | "local-name" => un .localName
    | "boolean" => un .boolean
    | "not" => un .not
    | "eq" => bin .eq
    | "lt" => bin .lt
    | "plus" => bin .plus
    | "minus" => bin .minus
    | "and" => bin .and
    | "or" => bin .or
    | "concat" => bin .concat
    | "contains" => bin .contains
    | "starts-with" => bin .startsWith
    | "union" => bin .union
    | "filter" => bin .filter
    | "normalize-space" => un .normalizeSpace
    | "let" => bin .letIn
    | "var" => match rest with
      | n :: r => n.toNat?.map fun k => (.var k, r)
      | [] => none
    | "num" => match rest with
      | n :: r => n.toInt?.map fun k => (.num k, r)
      | [] => none
    | "lit" => match rest with
      | h :: r => (strOfHex h).map fun s => (.lit s, r)
      | [] => none
    | "step" | "stepP" | "stepPP" =>
      match rest with
      | a :: t :: r0 =>
        match parseAxis a, parseTest t, parseExpr fuel r0 with
        | some ax, some ts, some (base, r1) =>
          if tok = "step" then some (.step base ax ts, r1)
          else match parseExpr fuel r1 with
            | some (p, r2) =>
              if tok = "stepP" then some (.stepP base ax ts p, r2)
              else (parseExpr fuel r2).map fun (q, r3) => (.stepPP base ax ts p q, r3)
            | none => none
        | _, _, _ => none
      | _ => none
    | _ => none

/-- a pattern part of a request: one token = a node test (`testPat`); several = the selecting expression of a
multi-step / predicated pattern in prefix form (`exprPat`) -/
def parsePat (toks : List String) : Option Pat :=
  match toks with
  | [t] => (parseTest t).map testPat
  | _ =>
    match parseExpr (toks.length + 1) toks with
    | some (e, []) => some (exprPat e)
    | _ => none

def splitSemi (toks : List String) : List (List String) :=
  let rec go : List String → List String → List (List String) → List (List String)
    | [], cur, acc => (cur.reverse :: acc).reverse
    | t :: ts, cur, acc => if t = ";" then go ts [] (cur.reverse :: acc) else go ts (t :: cur) acc
  go toks [] []

mutual
/-- strip decision of every text node, document order -/
def bitsNode (f : Option Tag → String → Bool) : Node → List Bool
  | .elem _ n kids => bitsKids f n kids
  | _ => []
def bitsKids (f : Option Tag → String → Bool) (pn : Option Tag) : List Node → List Bool
  | [] => []
  | k :: ks =>
    (match k with
     | .text _ d => [f pn d]
     | .elem _ n kids => bitsKids f n kids
     | _ => []) ++ bitsKids f pn ks
end

def showBits (l : List Bool) : String :=
  if l.isEmpty then "-" else String.ofList (l.map fun b => if b then '1' else '0')

def doStrip (sheet doc : List String) : String :=
  match parseSheet sheet, parseDoc doc with
  | some s, some d =>
    let model := bitsNode (stripOf s.post) d
    let spec := bitsNode (fun pn dat => specStrip s pn (isWsString dat)) d
    if model == spec then showBits model else showBits model ++ " SPEC-DIFFERS " ++ showBits spec
  | _, _ => "bad"

def doEval (sheet doc expr : List String) : String :=
  match parseSheet sheet, parseDoc doc, parseExpr (expr.length + 1) expr with
  | some s, some d, some (e, []) =>
    let sp := stripOf s.post
    let c : Ctx := ⟨.node ⟨d, []⟩, 1, 1, []⟩
    match e.eval sp c with
    | some v =>
      let out := v.toStr sp
      -- the same expression on the physically stripped document, no stripping asked (strip_simulation)
      let c' : Ctx := ⟨.node ⟨d.strip sp, []⟩, 1, 1, []⟩
      match e.eval noStrip c' with
      | some v' =>
        if v'.toStr noStrip == out then "S" ++ hexOfStr out
        else "S" ++ hexOfStr out ++ " SIM-DIFFERS " ++ hexOfStr (v'.toStr noStrip)
      | none => "S" ++ hexOfStr out ++ " SIM-DIFFERS none"
    | none => "unsupported"
  | _, _, _ => "bad"

def eventsText (es : List Event) : String :=
  String.join (es.map fun e => match e with | .characters d => d | _ => "")

/-- `xsl:copy-of select="expr"` at the document node, output method text: the character events -/
def doCopy (sheet doc expr : List String) : String :=
  match parseSheet sheet, parseDoc doc, parseExpr (expr.length + 1) expr with
  | some s, some d, some (e, []) =>
    let sp := stripOf s.post
    match copyOf sp (e.eval sp ⟨.node ⟨d, []⟩, 1, 1, []⟩), copyOf noStrip (e.eval noStrip ⟨.node ⟨d.strip sp, []⟩, 1, 1, []⟩) with
    | some ev, some ev' =>
      if ev == ev' then "S" ++ hexOfStr (eventsText ev) else "S" ++ hexOfStr (eventsText ev) ++ " SIM-DIFFERS"
    | none, none => "unsupported"
    | _, _ => "SIM-DIFFERS none"
  | _, _, _ => "bad"

/-- `concat(count(key('k', s)), '|', key('k', s))` for `<xsl:key name="k" match="m" use="u"/>` -/
def doKey (sheet doc m use lit : List String) : String :=
  match parseSheet sheet, parseDoc doc, parsePat m, parseExpr (use.length + 1) use, lit with
  | some s, some d, some mp, some (u, []), [h] =>
    match some mp, strOfHex h with
    | some t, some str =>
      let sp := stripOf s.post
      let show' (spx : StripFn) (r : Option (List XNode)) : Option String :=
        r.map fun l => toString l.length ++ "|" ++ (Value.ns l).toStr spx
      match show' sp (keyLookup sp ⟨t, u⟩ ⟨d, []⟩ str), show' noStrip (keyLookup noStrip ⟨t, u⟩ ⟨d.strip sp, []⟩ str) with
      | some a, some b => if a == b then "S" ++ hexOfStr a else "S" ++ hexOfStr a ++ " SIM-DIFFERS " ++ hexOfStr b
      | none, none => "unsupported"
      | _, _ => "SIM-DIFFERS none"
    | _, _ => "bad"
  | _, _, _, _, _ => "bad"

/-- `concat(count(key('k', ARG)), '|', key('k', ARG))` with ARG an expression evaluated at the document node -/
def doKeyArg (sheet doc m use arg : List String) : String :=
  match parseSheet sheet, parseDoc doc, parsePat m, parseExpr (use.length + 1) use, parseExpr (arg.length + 1) arg with
  | some s, some d, some t, some (u, []), some (a, []) =>
    let sp := stripOf s.post
    let show' (spx : StripFn) (r : Option (List XNode)) : Option String :=
      r.map fun l => toString l.length ++ "|" ++ (Value.ns l).toStr spx
    let r1 := keyLookupArg sp ⟨t, u⟩ ⟨d, []⟩ (a.eval sp ⟨.node ⟨d, []⟩, 1, 1, []⟩)
    let r2 := keyLookupArg noStrip ⟨t, u⟩ ⟨d.strip sp, []⟩ (a.eval noStrip ⟨.node ⟨d.strip sp, []⟩, 1, 1, []⟩)
    match show' sp r1, show' noStrip r2 with
    | some x, some y => if x == y then "S" ++ hexOfStr x else "S" ++ hexOfStr x ++ " SIM-DIFFERS " ++ hexOfStr y
    | none, none => "unsupported"
    | _, _ => "SIM-DIFFERS none"
  | _, _, _, _, _ => "bad"

mutual
def sizeNode : Node → Nat
  | .elem _ _ kids => 1 + sizeKids kids
  | _ => 1
def sizeKids : List Node → Nat
  | [] => 0
  | k :: ks => sizeNode k + sizeKids ks
end

/-- `<xsl:for-each select="//text()|//*"><xsl:number level="any" count="c" [from="f"]/>|</xsl:for-each>` -/
def doNumber (sheet doc c f : List String) : String :=
  match parseSheet sheet, parseDoc doc with
  | some s, some d =>
    let fromT : Option (Option Pat) := if f = ["none"] then some none else (parsePat f).map some
    match parsePat c, fromT with
    | some countT, some fromT =>
      let sp := stripOf s.post
      let root : Loc := ⟨d, []⟩
      let fuel := 2 * sizeNode d + 4
      let nodes := root.descendants.filter fun l => Test.accepts sp .text l || Test.accepts sp .anyElem l
      let out := String.join (nodes.map fun l =>
        let k := numberAny sp countT fromT fuel l
        -- without `from` the walk must compute the Recommendation's count (Props.C13.number_any_loop_eq_count;
        -- kept as a run-time cross-check of the two executable definitions)
        let chk := if k != numberAnySpec sp countT fromT l then "SIM-DIFFERS(loop/spec)" else ""
        -- getCountString formats the one-element list also when the count is 0 (/repo bdf51a8)
        chk ++ toString k ++ "|")
      "S" ++ hexOfStr out
    | _, _ => "bad"
  | _, _ => "bad"

/-- `<xsl:for-each select="//text()|//*"><xsl:number level="single|multiple" count="c" [from="f"]/>|</xsl:for-each>` -/
def doNumberSM (sheet doc c f lvl : List String) : String :=
  match parseSheet sheet, parseDoc doc, lvl with
  | some s, some d, [lv] =>
    let fromT : Option (Option Pat) := if f = ["none"] then some none else (parsePat f).map some
    match parsePat c, fromT with
    | some countT, some fromT =>
      let sp := stripOf s.post
      let root : Loc := ⟨d, []⟩
      let nodes := root.descendants.filter fun l => Test.accepts sp .text l || Test.accepts sp .anyElem l
      let out := String.join (nodes.map fun l =>
        let a := numberList sp countT fromT (lv == "single") l
        let b := numberList noStrip countT fromT (lv == "single") (l.strip sp)
        (if a == b then "" else "SIM-DIFFERS") ++ ".".intercalate (a.map toString) ++ "|")
      "S" ++ hexOfStr out
    | _, _ => "bad"
  | _, _, _ => "bad"

def step0 (s : Unit) : List String → Unit × String
  | "strip" :: _ :: rest =>
    match splitSemi rest with
    | [sheet, doc] => (s, doStrip sheet doc)
    | _ => (s, "bad")
  | "eval" :: _ :: rest =>
    match splitSemi rest with
    | [sheet, doc, expr] => (s, doEval sheet doc expr)
    | _ => (s, "bad")
  | "copy" :: _ :: rest =>
    match splitSemi rest with
    | [sheet, doc, expr] => (s, doCopy sheet doc expr)
    | _ => (s, "bad")
  | "key" :: _ :: rest =>
    match splitSemi rest with
    | [sheet, doc, m, use, lit] => (s, doKey sheet doc m use lit)
    | _ => (s, "bad")
  | "keyarg" :: _ :: rest =>
    match splitSemi rest with
    | [sheet, doc, m, use, arg] => (s, doKeyArg sheet doc m use arg)
    | _ => (s, "bad")
  | "number" :: _ :: rest =>
    match splitSemi rest with
    | [sheet, doc, c, f] => (s, doNumber sheet doc c f)
    | _ => (s, "bad")
  | "numbersm" :: _ :: rest =>
    match splitSemi rest with
    | [sheet, doc, c, f, lvl] => (s, doNumberSM sheet doc c f lvl)
    | _ => (s, "bad")
  | "xform" :: _ => (s, "-")
  | _ => (s, "bad")

/-- a trailing `x` on the request kind selects the Xerces-DOM representation in the harness; the model is the same -/
def step (s : Unit) : List String → Unit × String
  | k :: rest =>
    if k.length > 1 && k.endsWith "x" then step0 s ((k.dropEnd 1).toString :: rest) else step0 s (k :: rest)
  | [] => step0 s []

end Driver.C13

def main : IO Unit := Driver.run () Driver.C13.step
