import XalanModel.C03.Status
import XalanModel.C03.Buffers
import XalanModel.C03.Uri
import Driver.Util
/-
xm_c03: model side of the C03 correspondence.

  inject <entry> <Class> <msgEmpty 0|1> <listenerText 0|1>   -> `escapes` | `rc <status> msg <0|1>`
  obs <entry> <rc> <msgLen>                                  -> `ok` | `bad`      (specification predicate)
  alpha <tableIndex> <val>                                   -> hex of the UTF-16 units | `mem` | `fuel`
  dec <neg 0|1> <magnitude>                                  -> hex of the UTF-16 units | `mem` | `fuel`
  dbl <16 hex digits>                                        -> `special` | `int <len>` | `printf <bytes>` | `mem`
  guard <siteIndex> <len>                                    -> `stack <fits 0|1>` | `heap`
-/
open XalanModel.C03 XalanModel.Generated.C03_Exceptions XalanModel.Generated.C03_Buffers

namespace Driver.C03

def showRes (r : Res (List Nat)) : String :=
  match r with
  | .ok l => hexOfUnits l
  | .memErr => "mem"
  | .outOfFuel => "fuel"

def step (_ : Unit) : List String → Unit × String
  | ["inject", entry, cls, me, lt] =>
    match chainOf entry, clsOfName cls with
    | some ch, some c =>
      match outcome ch ⟨c, me == "1", false⟩ (lt == "1") with
      | .escapes => ((), "escapes")
      | .returned s m => ((), s!"rc {s} msg {if m then 1 else 0}")
    | _, _ => ((), "bad")
  | ["obs", entry, rc, ml] =>
    match chainOf entry, rc.toInt?, ml.toNat? with
    | some ch, some rc, some ml => ((), if obsOk ch rc ml then "ok" else "bad")
    | _, _, _ => ((), "bad-request")
  | ["alpha", ti, v] =>
    match ti.toNat?, v.toNat? with
    | some ti, some v =>
      match alphaTables[ti]? with
      | some (_, tbl) => ((), showRes (int2alphaCount v tbl))
      | none => ((), "bad")
    | _, _ => ((), "bad")
  | ["dec", neg, v] =>
    match v.toNat? with
    | some v => ((), showRes (scalarToDecimal (neg == "1") v))
    | none => ((), "bad")
  | ["dbl", bits] =>
    match parseHex bits with
    | some b =>
      match dblOfBits b with
      | none => ((), "special")
      | some x =>
        -- integer-valued doubles are printed exactly by glibc: first format round-trips, no carry
        match numberToString x (fun _ => x.isInt) (fun _ => false) with
        | .ok (.integer n) => ((), s!"int {n}")
        | .ok (.printf n) =>
          if x.isInt then ((), s!"printf {n}")
          else
            -- a fraction: either the "%.Nf" loop (at most n bytes) or, below 1, the expansion of "%.17e"
            let eb := b / 2 ^ 52 % 2048
            let f := b % 2 ^ 52
            let m := if eb = 0 then f else f + 2 ^ 52
            let sh := 1075 - (if eb = 0 then 1 else eb)
            let small := if x.ip = 0 then smallNumberBytes x.neg (decExpOf m sh 400 0) else 0
            ((), s!"frac {max n small}")
        | .memErr => ((), s!"mem {sprintfBytes x (printfPrecisions.headD 0) false}")
        | .outOfFuel => ((), "fuel")
    | none => ((), "bad")
  | ["uri", rel, base] =>
    -- bytes as 2 hex digits each ("-" = empty)
    let dec (h : String) : Option (List Nat) :=
      if h = "-" then some [] else
      let cs := h.toList
      if cs.length % 2 ≠ 0 then none else
      let rec go (fuel : Nat) (cs : List Char) (acc : List Nat) : Option (List Nat) :=
        match fuel, cs with
        | _, [] => some acc.reverse
        | 0, _ => none
        | f + 1, a :: b :: rest => (parseHex (String.ofList [a, b])).bind fun n => go f rest (n :: acc)
        | _, _ => none
      go (cs.length + 1) cs []
    let enc (l : List Nat) : String :=
      if l.isEmpty then "-" else String.join (l.map fun n => (hex4 n).drop 2 |>.toString)
    match dec rel, dec base with
    | some r, some b =>
      -- the index form of parse (exactly sized buffers, bounded tests) must agree with the regular-expression form
      if parseBuf true r r.length ≠ .ok (parseUri r) ∨ parseBuf true b b.length ≠ .ok (parseUri b) then ((), "parse-forms-differ") else
      match resolveStrings true true false r b with
      | .ok u => ((), enc u)
      | .memErr => ((), "mem")
      | .outOfFuel => ((), "fuel")
    | _, _ => ((), "bad")
  | ["guard", si, len] =>
    match si.toNat?, len.toNat? with
    | some si, some len =>
      match guardedBuffers[si]? with
      | some g => ((), if guardPasses g len then s!"stack {if len + g.extra ≤ g.size then 1 else 0}" else "heap")
      | none => ((), "bad")
    | _, _ => ((), "bad")
  | _ => ((), "bad")

end Driver.C03

def main : IO Unit := Driver.run () Driver.C03.step
