import XalanModel.C07.Guards
import Driver.Util
/-
xm_c07: the model side of the C07 correspondence.  It answers, from the regenerated access table and the
classification the theorems are about (`XalanModel.C07.Guards`):

  selftest                         every entry's numeric key is the encoding of its `kind|scope|name`
                                   -> `selftest ok <entries> <reachable classes>` | `selftest bad <keyText>`
  predict <mode>                   can threads sharing objects built in <mode> race?
                                   -> `predict <mode> safe` | `predict <mode> racy <n> <function>...`
                                      (the functions that touch the channels open in that mode: where a
                                       ThreadSanitizer report is expected to be)
  classify <kind> <scope> <name>   -> `<guard>` | `unlisted`
  touch <function>                 which table entries mention the function, with their effect in `as-is` mode
                                   -> `touch <n> <kind|scope|name=effect>...`
  sim <nthreads> <len> <sched...>  run the read-only demo machine: reply = per-thread outputs, for the
                                   interleaving and for the sequential schedule (must agree: `noninterference`)
-/
open XalanModel.C07 XalanModel.Generated

namespace Driver.C07

def guardName : Guard → String
  | .perExecution => "perExecution" | .constructionOnly => "constructionOnly" | .wrapperPrebuilt => "wrapperPrebuilt"
  | .pooledStringMutex => "pooledStringMutex" | .isMutex => "isMutex" | .initTerminate => "initTerminate"
  | .installOnly => "installOnly" | .neverWritten => "neverWritten" | .castNoWrite => "castNoWrite"
  | .ownerOnly => "ownerOnly" | .lazyListHead => "lazyListHead" | .headForced => "headForced"
  | .noConstLookup => "noConstLookup" | .emptyChecked => "emptyChecked" | .noConstCaller => "noConstCaller"
  | .listConstNoAlloc => "listConstNoAlloc" | .readOnlyUse => "readOnlyUse"
  | .mappingPhaseOnly => "mappingPhaseOnly"

def effectName : Effect → String
  | .none => "none" | .privateWrite => "privateWrite" | .syncWrite => "syncWrite" | .sharedWrite => "sharedWrite"

def kindOfName : String → Option Kind
  | "mutableMember" => some .mutableMember | "constCast" => some .constCast | "constPathCall" => some .constPathCall
  | "localStatic" => some .localStatic | "lazyContainer" => some .lazyContainer
  | "transformTouch" => some .transformTouch | "guardedWrite" => some .guardedWrite | "globalVar" => some .globalVar | _ => none

def demo : Machine (List Nat) Nat Nat where
  step := fun s p => (s, p + 1, [s.getD p 0 + p])
  footprint := fun _ p => [{ loc := p, write := false }]

def showThreads (c : Config (List Nat) Nat Nat) : String :=
  " ".intercalate (c.threads.map fun t => ",".intercalate (t.2.map toString))

def step (_ : Unit) : List String → Unit × String
  | ["selftest"] =>
    match C07_Share.table.find? (fun e => encodeKey e.keyText != e.key) with
    | some e => ((), "selftest bad " ++ e.keyText)
    | none =>
      let bad := C07_Share.table.filter (fun e => !guardEvidence e)
      ((), s!"selftest ok {C07_Share.table.length} {C07_Share.reachable.length} unlisted={unlisted.length + bad.length}")
  | ["predict", mode] =>
    match Mode.ofName mode with
    | none => ((), "bad")
    | some m =>
      let r := racyEntries m
      if r.isEmpty then ((), s!"predict {mode} safe")
      else ((), s!"predict {mode} racy {r.length} " ++ " ".intercalate ((r.flatMap (·.funcs)).eraseDups))
  | ["classify", k, scope, name] =>
    match kindOfName k with
    | none => ((), "bad")
    | some kd =>
      match C07_Share.table.find? (fun e => e.kind == kd && e.scope == scope && e.name == name) with
      | none => ((), "no-such-entry")
      | some e => ((), match classify e with | some g => guardName g | none => "unlisted")
  | ["touch", fn] =>
    let es := C07_Share.table.filter (fun e => e.funcs.contains fn)
    ((), s!"touch {es.length}" ++ String.join (es.map fun e => " " ++ e.keyText ++ "=" ++ effectName (effectOf Mode.documentedAsIs e)))
  | "sim" :: n :: len :: sched =>
    match n.toNat?, len.toNat?, sched.mapM String.toNat? with
    | some n, some len, some sched =>
      let c : Config (List Nat) Nat Nat := { shared := List.range len, threads := (List.range n).map fun i => (i, []) }
      let ks := (List.range n).map fun i => sched.count i
      ((), "sim " ++ showThreads (demo.exec sched c) ++ " | " ++ showThreads (demo.exec (seqSchedule ks) c))
    | _, _, _ => ((), "bad")
  | _ => ((), "bad")

end Driver.C07

def main : IO Unit := Driver.run () Driver.C07.step
