import XalanModel.C02.Tokenize
import XalanModel.C02.Compare
import Driver.Util
/-
xm_c02: the Lean side of the C02 correspondence run (same request lines as harness/c02_xpath.cpp).

  compile <hexexpr>                 -> ok <ints> | err | unsupported
  doc <hexxml> <table>              -> ok <n>           (forgets the variables)
  var <name> b|n|s <value>          -> ok
  var <name> x <hexexpr> NS:<h>,<h> -> ok NS <h> <h>…   (node-set given by the string-values of its nodes)
  cmp <op> <v1> <v2>                -> B 0|1            (same name = same object)
-/
open XalanModel.C02

namespace Driver.C02

/-- XPath `number(string)`: ws* '-'? (digits ('.' digits*)? | '.' digits+) ws*, else NaN.
Value = mantissa / 10^k with one correctly rounded division (exact for the short numerals generated). -/
def xpathNumber (s : String) : Float :=
  let nan : Float := 0.0 / 0.0
  let cs := (s.toList.dropWhile isSpaceC).reverse.dropWhile isSpaceC |>.reverse
  let (neg, cs) := match cs with | '-' :: r => (true, r) | r => (false, r)
  let ip := cs.takeWhile isDigitC
  let rest := cs.dropWhile isDigitC
  let (fp, rest, dot) := match rest with
    | '.' :: r => (r.takeWhile isDigitC, r.dropWhile isDigitC, true)
    | r => ([], r, false)
  if !rest.isEmpty ∨ (ip.isEmpty ∧ fp.isEmpty) ∨ (ip.isEmpty ∧ !dot) then nan
  else
    let digs := ip ++ fp
    let m := digs.foldl (fun a c => a * 10 + (c.toNat - 48)) 0
    let v := Float.ofNat m / Float.ofNat (10 ^ fp.length)
    if neg then -v else v

def floatOps : NumOps String Float where
  eq a b := a == b
  ne a b := !(a == b)
  lt a b := a < b
  le a b := a ≤ b
  gt a b := a > b
  ge a b := a ≥ b
  ofBool b := if b then 1.0 else 0.0
  ofStr := xpathNumber
  toBool n := !(n == 0.0) && !n.isNaN
  toStr n := toString n
  empty := ""
  strTrue := "true"
  strFalse := "false"

structure Sess where
  vars : List (String × Obj String Float) := []
  nextAddr : Nat := 1

def strOfHex (h : String) : Option (List Char) :=
  (Driver.unitsOfHex h).map fun us => us.map Char.ofNat

def toksOf (h : String) : Except String (List Tok) :=
  match strOfHex h with
  | none => .error "bad"
  | some cs =>
    match tokenize cs with
    | .error .unsupported => .error "unsupported"
    | .error _ => .error "err"
    | .ok raw =>
      match annotate raw 0 0 with
      | none => .error "unsupported"
      | some ts => .ok ts

def step (s : Sess) : List String → Sess × String
  | ["compile", h] =>
    match toksOf h with
    | .error e => (s, e)
    | .ok ts =>
      match compile ts with
      | none => (s, "err")
      | some m => (s, "ok" ++ String.join (m.map fun x => s!" {x}"))
  | "doc" :: _ :: tbl :: _ =>
    ({ s with vars := [] }, s!"ok {(tbl.splitOn ";").length}")
  | ["var", name, kind, v] =>
    let bind (x : Val String Float) : Sess × String :=
      ({ vars := (name, ⟨s.nextAddr, x⟩) :: s.vars.filter (·.1 ≠ name), nextAddr := s.nextAddr + 1 }, "ok")
    if kind = "b" then bind (.bool (v = "1"))
    else if kind = "n" then
      match Driver.parseHex v with
      | some n => bind (.num (Float.ofBits n.toUInt64))
      | none => (s, "bad")
    else if kind = "s" then
      match strOfHex v with
      | some cs => bind (.str (String.ofList cs))
      | none => (s, "bad")
    else (s, "bad")
  | ["var", name, "x", _, sv] =>
    if sv.startsWith "NS:" then
      let body := (sv.drop 3).toString
      let items := if body = "" then [] else body.splitOn ","
      match items.mapM strOfHex with
      | some ls =>
        let strs := ls.map String.ofList
        ({ vars := (name, ⟨s.nextAddr, .nodes strs⟩) :: s.vars.filter (·.1 ≠ name), nextAddr := s.nextAddr + 1 },
         "ok NS" ++ String.join (items.map fun h => " " ++ h))
      | none => (s, "bad")
    else (s, "bad")
  | ["cmp", op, a, b] =>
    let o : Option CmpOp := match op with
      | "eq" => some .eq | "ne" => some .ne | "lt" => some .lt | "le" => some .le
      | "gt" => some .gt | "ge" => some .ge | _ => none
    match o, s.vars.lookup a, s.vars.lookup b with
    | some o, some x, some y => (s, if xobjCompare floatOps o x y then "B 1" else "B 0")
    | _, _, _ => (s, "bad")
  | _ => (s, "bad")

end Driver.C02

def main : IO Unit := Driver.run ({} : Driver.C02.Sess) Driver.C02.step
