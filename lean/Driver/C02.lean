import XalanModel.C02.Tokenize
import XalanModel.C02.Compare
import XalanModel.C02.XEval
import Driver.Util
/-
xm_c02: the Lean side of the C02 correspondence run (same request lines as harness/c02_xpath.cpp).

  compile <hexexpr>                 -> ok <ints> | err | unsupported
  doc <hexxml> <table>              -> ok <n>           (forgets the variables)
  var <name> b|n|s <value>          -> ok
  var <name> x <hexexpr> NS:<h>,<h> -> ok NS <h> <h>…   (node-set given by the string-values of its nodes)
  cmp <op> <v1> <v2>                -> B 0|1            (same name = same object)
-/
open XalanModel.C02

namespace Driver.C02

def strOfHex (h : String) : Option (List Char) :=
  (Driver.unitsOfHex h).map fun us => us.map Char.ofNat

structure Sess where
  doc : Doc := []
  vars : Vars := []
  nextAddr : Nat := 1000

def parseTable (t : String) : Option Doc :=
  (t.splitOn ";").mapM fun rec =>
    match rec.splitOn "," with
    | [k, n, v, p] =>
      let kind : Option Kind := match k with
        | "r" => some .root | "e" => some .elem | "a" => some .attr | "t" => some .text
        | "c" => some .comment | "p" => some .pi | _ => none
      match kind, Driver.unitsOfHex n, Driver.unitsOfHex v, p.toInt? with
      | some kind, some n, some v, some p =>
        some { kind := kind, name := String.ofList (n.map Char.ofNat), value := String.ofList (v.map Char.ofNat),
               parent := if p < 0 then none else some p.toNat }
      | _, _, _, _ => none
    | _ => none

def hexOfStr (s : String) : String := Driver.hexOfUnits (s.toList.map Char.toNat)

def hex16 (n : UInt64) : String :=
  let v := n.toNat
  String.join ((List.range 4).map fun i => Driver.hex4 (v / 65536 ^ (3 - i) % 65536))

def showXV (v : XV) : String :=
  match v with
  | .bool b => if b then "B 1" else "B 0"
  | .num x => "N " ++ (if x.isNaN then "7ff8000000000000" else hex16 x.toBits)
  | .str s => "S " ++ hexOfStr s
  | .nodes l => "NS" ++ String.join (l.map fun i => s!" {i}")

def showRes : Except String XV → String
  | .ok v => showXV v
  | .error _ => "err"

def evalBoth (s : Sess) (ctx : Nat) (h : String) : String × String :=
  match strOfHex h with
  | none => ("bad", "bad")
  | some cs =>
    match parseX cs with
    | none => ("err", "err")
    | some e =>
      let c : Ctx := { node := ctx, pos := 1, size := 1, list := [some ctx] }
      let m : Except String XV := match (evalM s.doc s.vars 64 e c).run none with
        | .ok (v, _) => .ok v
        | .error x => .error x
      (showRes m, showRes (evalS s.doc s.vars 64 e c))

def toksOf (h : String) : Except String (List Tok) :=
  match strOfHex h with
  | none => .error "bad"
  | some cs =>
    match tokenize cs with
    | .error .unsupported => .error "unsupported"
    | .error _ => .error "err"
    | .ok raw =>
      match annotate raw 0 0 with
      | none => .error "unsupported"
      | some ts => .ok ts

partial def step (s : Sess) : List String → Sess × String
  | ["compile", h] =>
    match toksOf h with
    | .error e => (s, e)
    | .ok ts =>
      match compile ts with
      | none => (s, "err")
      | some m => (s, "ok" ++ String.join (m.map fun x => s!" {x}"))
  | "doc" :: _ :: tbl :: _ =>
    match parseTable tbl with
    | some d => ({ doc := d, vars := [], nextAddr := 1000 }, s!"ok {d.length}" ++ (if d.wfB then "" else " not-well-formed"))
    | none => (s, "bad")
  | ["eval", ctx, h] =>
    match ctx.toNat? with
    | some n => let (m, sp) := evalBoth s n h; (s, m ++ " || " ++ sp)
    | none => (s, "bad")
  | ["var", name, kind, v] =>
    let bind (x : XV) : Sess × String :=
      ({ s with vars := (name, s.nextAddr, x) :: s.vars.filter (·.1 ≠ name), nextAddr := s.nextAddr + 1 }, "ok")
    if kind = "b" then bind (.bool (v = "1"))
    else if kind = "n" then
      match Driver.parseHex v with
      | some n => bind (.num (Float.ofBits n.toUInt64))
      | none => (s, "bad")
    else if kind = "s" then
      match strOfHex v with
      | some cs => bind (.str (String.ofList cs))
      | none => (s, "bad")
    else if kind = "x" then
      match strOfHex v with
      | none => (s, "bad")
      | some cs =>
        match parseX cs with
        | none => (s, "err")
        | some e =>
          match (evalM s.doc s.vars 64 e { node := 0, pos := 1, size := 1, list := [some 0] }).run none with
          | .ok (x, _) =>
            let desc := match x with
              | .nodes l => "NS" ++ String.join (l.map fun i => " " ++ hexOfStr (s.doc.stringValue i))
              | x => showXV x
            ({ s with vars := (name, s.nextAddr, x) :: s.vars.filter (·.1 ≠ name), nextAddr := s.nextAddr + 1 }, "ok " ++ desc)
          | .error _ => (s, "err")
    else (s, "bad")
  | "var" :: name :: "x" :: v :: _ => step s ["var", name, "x", v]
  | ["cmp", op, a, b] =>
    let o : Option CmpOp := match op with
      | "eq" => some .eq | "ne" => some .ne | "lt" => some .lt | "le" => some .le
      | "gt" => some .gt | "ge" => some .ge | _ => none
    match o, s.vars.lookup a, s.vars.lookup b with
    | some o, some (ax, x), some (ay, y) =>
      (s, if xobjCompare floatOps o ⟨ax, x.toVal s.doc⟩ ⟨ay, y.toVal s.doc⟩ then "B 1" else "B 0")
    | _, _, _ => (s, "bad")
  | _ => (s, "bad")

end Driver.C02

def main : IO Unit := Driver.run ({} : Driver.C02.Sess) Driver.C02.step
