#!/bin/bash
# integrator tool: run the quick check of every claimed property on /repo and summarise
cd /verif
for id in $(python3 -c "import json;print(' '.join(c['property_id'] for c in json.load(open('MANIFEST.json'))['checks']))") "$@"; do
  s=$(date +%s); out=$(./check $id 2>&1); rc=$?; e=$(date +%s)
  echo "$id rc=$rc $((e-s))s $(echo "$out" | grep -E "^C[0-9]+ quick" | sed 's/^C[0-9]* quick: //')"
  echo "$out" | grep -E "^(VIOLATION|  failing|  no longer|  \[obl)" | cut -c1-300
done
