"""C09 — a node matches a pattern iff the pattern, as an expression, selects it (DESIGN.md §5 C09, design/C09.md).

proof:          lean/XalanModel/Props/C09.lean over the transcription of XPath::stepPattern & co. in
                lean/XalanModel/C09/Matcher.lean and the XSLT §5.2 definition in lean/XalanModel/C09/Pattern.lean
correspondence: harness/c09_patterns.cpp (real pattern compiler, XPath::getMatchScore, and XPath::execute of the same
                text as an expression from every ancestor-or-self) vs lean/Driver/C09.lean, same request file:
                step op codes, the score of every node, and the defining side of every node must agree.
property on the implementation: for every (pattern, document, node)  score != None  <=>  selected from some
                ancestor-or-self — evaluated on the implementation's own replies, independent of the model.
"""
import json
import os
import sys

from vlib import common
from vlib.common import Rng

sys.path.insert(0, os.path.join(common.ROOT, "gen"))
import c09_gen as g  # noqa: E402

CLAIMED = True
LEVEL = "proof"
TECHNIQUE = ("Lean 4 proof about a hand transcription of the pattern compiler's op-code assignment (branch by branch) and of "
             "XPath::stepPattern / doStepPredicate / handleFoundIndex / step / the union and per-alternative getMatchScore "
             "entry points, against the XSLT 1.0 5.2 definition (some ancestor-or-self selects the node); correspondence "
             "run against the real compiler, XPath::getMatchScore and XPath::execute on generated patterns x all nodes "
             "of generated documents, plus stylesheet-level use sites")
LEVEL_TEXT = ("Machine-checked for the tree as it is now (all repairs found by this check are in /repo; the variant of the "
              "tree is probed on the real library on every run): match_iff_select_repaired — XPath::getMatchScore reports "
              "a match exactly when the pattern, evaluated as an expression from some ancestor-or-self, selects the node — "
              "for EVERY pattern of the modelled grammar, every well-formed document, every node, with no bound on steps, "
              "predicates, alternatives, size or depth. Modelled grammar: unions of '/', relative, '/'- and '//'-leading "
              "paths; any number of steps separated by '/' or '//'; axes child/attribute, abbreviated or spelled out "
              "(child::, attribute::); node tests NCName, *, prefix:NCName, prefix:*, text(), comment(), "
              "processing-instruction(), processing-instruction('lit'), node(); any lists of the predicates [k], [last()], "
              "[position()=k], [position()!=last()], [position()<last()], [last()=k], [last()>k], [last()-1], the computed "
              "number-valued [a+b], [a div b], [ceiling(a div b)], [-k], [count(x)], [count(../x)], [string-length(@x)], "
              "[number(@x)] (positional whatever their form: number_valued_predicate_is_positional, with the shape of "
              "doStepPredicate regenerated from the source), and [@x], [x], [not(@x)]; and id()/key()-leading paths (idkey_match_iff_select). Further theorems: the per-alternative "
              "entry point and the union (alternative_entry_point, union_first_match), explicit axes compile like "
              "abbreviated ones in every compiler branch (explicit_axis_irrelevant), one matcher step = the forward step "
              "from the parent and handleFoundIndex is exact (step_matches_iff_selected, handleFoundIndex_spec, "
              "fwdStep_eq_spec); consumers that pre-filter candidate nodes by target data lose no match: the target "
              "classification regenerated from XPath::getTargetData and the routing regenerated from "
              "Stylesheet::addTemplate serve every node kind a last step can match, and KeyTable::KeyTable (facts "
              "regenerated from KeyTable.cpp) offers every node and attribute to every key pattern "
              "(target_data_complete, keytable_visits_complete); the attribute name tests reject raw namespace-declaration "
              "attributes (attribute_tests_reject_namespace_declarations); absolute patterns match relative to whatever root the "
              "node's tree has, document or document fragment (absolute_patterns_any_root, root node types regenerated "
              "from the source; document() loads, result tree fragments and nested fragments observed through "
              "stylesheets, Xerces-wrapped sources through the API harness). For the code as found the statement was false: five *_counterexample theorems, the "
              "classes where it held anyway (match_iff_select_partial, match_implies_select_partial), and "
              "repaired_witnesses / backtracking_witnesses. The transcription is tied to the working tree by comparing, for "
              "every generated (pattern, document): step and predicate op codes, the score of every node from both entry "
              "points, independence of the caller's context node list, and the expression engine's answer for every node.")
LEVEL_NOTE = ("Trusted: Lean kernel; axioms propext/Classical.choice/Quot.sound only; the hand transcription (checked by "
              "the correspondence run, bounded by generator coverage: ~32 000 cases quick, ~1.09 M thorough incl. small-scope "
              "exhaustive); harness/c09_patterns.cpp, checks/c09.py, gen/c09_gen.py, translate/c09_keytable.py and translate/c10_priority.py "
              "(regex translators; the consumer phase runs each consumer with a single declaration against the "
              "defining expression, so a filter the translators misread still shows). Outside the modelled grammar, hence "
              "outside the theorem: predicate bodies other than the listed shapes (general XPath inside [...]), key() as a "
              "leading step at API level (its matcher code is the id() code, covered; key()-led patterns, template match, "
              "xsl:key match, xsl:number count/from are observed through stylesheets only), unions with an id()/key() "
              "alternative, namespace nodes, whitespace stripping. Modelled, "
              "not verified: tokenizer/parser beyond the compared op-code assignment, key-table lookup, DOM navigation.")
DESIGN_REF = "DESIGN.md section 5, C09; design/C09.md"

THEOREMS = [
    "XalanModel.Props.C09.match_iff_select_partial",
    "XalanModel.Props.C09.match_iff_select_onestep_partial",
    "XalanModel.Props.C09.match_implies_select_partial",
    "XalanModel.Props.C09.step_matches_iff_selected",
    "XalanModel.Props.C09.handleFoundIndex_spec",
    "XalanModel.Props.C09.fwdStep_eq_spec",
    "XalanModel.Props.C09.union_first_match",
    "XalanModel.Props.C09.match_iff_select_counterexample",
    "XalanModel.Props.C09.root_desc_counterexample",
    "XalanModel.Props.C09.node_test_root_counterexample",
    "XalanModel.Props.C09.attr_positional_counterexample",
    "XalanModel.Props.C09.attr_kindtest_counterexample",
    "XalanModel.Props.C09.repaired_witnesses",
    "XalanModel.Props.C09.match_iff_select_backtracking_partial",
    "XalanModel.Props.C09.backtracking_witnesses",
    "XalanModel.Props.C09.backtracking_class_total",
    "XalanModel.Props.C09.match_iff_select_repaired",
    "XalanModel.Props.C09.idkey_match_iff_select",
    "XalanModel.Props.C09.explicit_axis_irrelevant",
    "XalanModel.Props.C09.alternative_entry_point",
    "XalanModel.Props.C09.target_data_complete",
    "XalanModel.Props.C09.keytable_visits_complete",
    "XalanModel.Props.C09.number_valued_predicate_is_positional",
    "XalanModel.Props.C09.absolute_patterns_any_root",
    "XalanModel.Props.C09.attribute_tests_reject_namespace_declarations",
]


# ------------------------------------------------------------------------------------------------ corpus

def _s(test, preds=(), attr=False):
    return dict(attr=attr, test=test, preds=list(preds))


def _rel(*steps):
    return [dict(abs=False, steps=list(steps))]


N = lambda s: ("n", s)  # noqa: E731

# (document, [patterns]) — design §6 item 16 and the minimised failures found while building; run first
CORPUS = [
    (g.chain_doc(["z", "a", "q", "a", "b"]), [
        _rel(("c", _s(N("z"))), ("c", _s(N("a"))), ("d", _s(N("b")))),                    # z/a//b  (missed)
        _rel(("c", _s(N("a"))), ("d", _s(N("b")))),                                        # a//b
        [dict(abs=True, steps=[("c", _s(N("z"))), ("d", _s(N("b")))])],                    # /z//b
        [dict(abs=True, steps=[("c", _s(N("a"))), ("d", _s(N("b")))])],                    # /a//b   (spurious)
        [dict(abs=True, steps=[("d", _s(N("z"))), ("c", _s(N("a"))), ("d", _s(N("b")))])],  # //z/a//b
        _rel(("c", _s(("node", None)))),                                                    # node()  (root)
        _rel(("c", _s(N("z"))), ("c", _s(("node", None)))),                                # z/node()
        _rel(("c", _s(("node", None))), ("c", _s(N("z")))),                                # node()/z
    ]),
    (dict(kind="r", name="", attrs=[], kids=[dict(kind="e", name="a", attrs=[dict(kind="a", name="x", attrs=[], kids=[]),
                                                                             dict(kind="a", name="y", attrs=[], kids=[])],
                                                  kids=[dict(kind="t", name="", attrs=[], kids=[]),
                                                        dict(kind="e", name="b", attrs=[], kids=[])])]), [
        _rel(("c", _s(N("x"), [("i", 1)], attr=True))),                                    # @x[1]   (missed)
        _rel(("c", _s(("any", None), [("last", None)], attr=True))),                       # @*[last()]
        _rel(("c", _s(("node", None), attr=True))),                                        # @node() (spurious)
        _rel(("c", _s(("text", None), attr=True))),                                        # @text() (spurious)
        _rel(("c", _s(N("a"))), ("c", _s(N("x"), attr=True))),                             # a/@x
        _rel(("c", _s(N("b"), [("i", 1)]))),                                               # b[1]
        _rel(("c", _s(("any", None), [("last", None)]))),                                  # *[last()]
    ]),
]


# ------------------------------------------------------------------------------------------------ running

NS_FIELD = __import__("re").compile(r" ns=\d+ ")


def parse_reply(line):
    """'pat <text> codes=.. m=.. s=..' -> dict or None on ERR/garbage"""
    if line is None or not line.startswith("pat "):
        return None
    f = line.split(" ")
    if (len(f) < 8 or not f[-1].startswith("s=") or not f[-2].startswith("m=") or not f[-3].startswith("ns=")
            or not f[-4].startswith("alts=") or not f[-5].startswith("amb=") or not f[-6].startswith("codes=")):
        return None
    return dict(text=" ".join(f[1:-6]), codes=f[-6][6:], amb=f[-5][4:], alts=f[-4][5:].split(","), ns=f[-3][3:],
                m=f[-2][2:], s=f[-1][2:])


def violations(rep):
    """property on the implementation's own reply: list of (node, 'missed'|'spurious')"""
    out = []
    for i, (m, s) in enumerate(zip(rep["m"], rep["s"])):
        if m == "0" and s == "1":
            out.append((i, "missed"))
        elif m != "0" and s == "0":
            out.append((i, "spurious"))
    # per-alternative entry point: the union's score is that of the first alternative with a score; no alternative
    # past the last one
    alts = rep.get("alts") or []
    if alts:
        for i, m in enumerate(rep["m"]):
            first = next((a[i] for a in alts[:-1] if i < len(a) and a[i] != "0"), "0")
            if first != m or (i < len(alts[-1]) and alts[-1][i] != "0"):
                out.append((i, "alternative"))
    # raw namespace-declaration attributes: matched iff selected (attribute name tests reject them on both sides)
    if rep.get("ns", "0") != "0":
        out.append((-1, "nsdecl"))
    # the score must not depend on the caller's context node list (all nodes vs the node alone)
    for i, a in enumerate(rep.get("amb", "")):
        if a != "0":
            out.append((i, "ambient"))
    return out


# (findAttrFix, attrGuard, rootGuard, backtrack): which proposed repairs the tree under test contains (see probe_variant)
VARIANT = (0, 0, 0, 0)


def probe_variant(harness, work):
    """Ask the real library three questions that separate the code as found from the proposed repairs
    (proposed/C09-attribute-step.diff, proposed/C09-node-test-root.diff); the answers select the variant of the Lean
    model (Matcher.lean `Variant`).  Everything else about the variant is then *checked* by the correspondence."""
    doc = dict(kind="r", name="", attrs=[], kids=[dict(kind="e", name="a", attrs=[dict(kind="a", name="x", attrs=[], kids=[])],
                                                  kids=[dict(kind="t", name="", attrs=[], kids=[])])])
    pats = [_rel(("c", _s(N("x"), [("i", 1)], attr=True))),      # @x[1]   matches the attribute  <=> findAttrFix
            _rel(("c", _s(("node", None), attr=True))),          # @node() refuses the element   <=> attrGuard
            _rel(("c", _s(("node", None))))]                     # node()  refuses the root      <=> rootGuard
    chain = g.chain_doc(["z", "a", "q", "a", "b"])
    zab = _rel(("c", _s(N("z"))), ("c", _s(N("a"))), ("d", _s(N("b"))))   # z/a//b matches the b  <=> backtrack
    lines, owner, out, rc, err = run_impl_only(harness, [(doc, pats), (chain, [zab])], os.path.join(work, "c09_probe.req"))
    reps = [parse_reply(l) for l in out[2:5]] + [parse_reply(out[6] if len(out) > 6 else None)]
    if rc != 0 or len(reps) != 4 or any(r is None for r in reps):
        return None
    return (int(reps[0]["m"][2] != "0"), int(reps[1]["m"][1] == "0"), int(reps[2]["m"][0] == "0"),
            int(reps[3]["m"][5] != "0"))


def make_request(cases, path):
    """cases: list of (doc, [patterns]); returns list of (case index, pattern index or None) per line"""
    lines, owner = ["variant %d %d %d %d" % VARIANT], [(-1, None)]
    for ci, (doc, pats) in enumerate(cases):
        lines.append(g.doc_line(doc)); owner.append((ci, None))
        for pi, P in enumerate(pats):
            lines.append(g.pat_line(P)); owner.append((ci, pi))
    with open(path, "w") as f:
        f.write("\n".join(lines) + "\n")
    return lines, owner


def run_impl_only(harness, cases, path):
    import subprocess
    lines, owner = make_request(cases, path)
    p = subprocess.run([harness], stdin=open(path, "rb"), stdout=subprocess.PIPE, stderr=subprocess.PIPE, timeout=1800)
    out = p.stdout.decode("utf-8", "replace").split("\n")
    if out and out[-1] == "":
        out.pop()
    return lines, owner, out, p.returncode, p.stderr.decode("utf-8", "replace")[-1500:]


def shrink_all(harness, work, items, want):
    """items: list of dict(doc, P, dir).  Greedy batched shrinking on the real code only: a candidate is accepted when it
    still `want`s (function of parsed reply -> bool).  Returns the shrunk items (same order)."""
    cur = [dict(it) for it in items]
    active = set(range(len(cur)))
    for _round in range(60):
        if not active:
            break
        cases, who = [], []
        for k in sorted(active):
            it = cur[k]
            cands = [(it["doc"], P) for P in g.pattern_shrinks(it["P"])] + [(d, it["P"]) for d in g.doc_shrinks(it["doc"])]
            cands = cands[:80]
            for (d, P) in cands:
                cases.append((d, [P])); who.append(k)
        if not cases:
            break
        lines, owner, out, rc, err = run_impl_only(harness, cases, os.path.join(work, "c09_shrink.req"))
        improved = set()
        for li, (ci, pi) in enumerate(owner):
            if pi is None or ci < 0:
                continue
            k = who[ci]
            if k in improved:
                continue
            rep = parse_reply(out[li] if li < len(out) else None)
            if rep is not None and want(cur[k], rep):
                cur[k] = dict(cur[k], doc=cases[ci][0], P=cases[ci][1][0], rep=rep)
                improved.add(k)
        active = improved
    return cur


def want_violation(it, rep):
    return any(dr == it["dir"] for _, dr in violations(rep))


def describe(it):
    rep = it.get("rep")
    return "pattern %s on %s: getMatchScore per node %s, selected-from-an-ancestor-or-self per node %s" % (
        g.render_pattern(it["P"]), g.xml_of(it["doc"]), rep["m"] if rep else "?", rep["s"] if rep else "?")


REPLIES = {}


def process(ctx, harness, model, cases, work, tag, ncorpus=0):
    """run one request stream on both sides; property on impl; correspondence; returns (n_disagree, violating items)"""
    req = os.path.join(work, "c09_%s.req" % tag)
    lines, owner = make_request(cases, req)
    il, ml, irc, mrc, ierr, merr = common.run_pair([harness], [model], req)
    if irc != 0 or len(il) != len(lines):
        ctx.oblige("harness ran to completion (%s)" % tag, "correspondence", False,
                   "rc=%d lines=%d/%d %s" % (irc, len(il), len(lines), ierr[-800:]))
    if mrc != 0 or len(ml) != len(lines):
        ctx.oblige("model driver ran to completion (%s)" % tag, "correspondence", False,
                   "rc=%d lines=%d/%d %s" % (mrc, len(ml), len(lines), merr[-800:]))
    bad, disagree = [], []
    docok = {}
    for li, (ci, pi) in enumerate(owner):
        iv = il[li] if li < len(il) else None
        mv = ml[li] if li < len(ml) else None
        if ci < 0:
            if iv != mv:
                disagree.append(dict(doc=cases[0][0], P=None, impl=iv, model=mv, what="variant line"))
            continue
        doc, pats = cases[ci]
        if pi is None:
            docok[ci] = iv is not None and iv == mv and iv == "doc %d %s" % (g.count_nodes(doc), " ".join(g.table_of(doc)))
            if not docok[ci]:
                disagree.append(dict(doc=doc, P=None, impl=iv, model=mv, what="document table"))
            continue
        P = pats[pi]
        rep = parse_reply(iv)
        text = g.render_pattern(P)
        nontriv = rep is not None and (set(rep["m"]) != {"0"} or set(rep["s"]) != {"0"})
        nsteps = sum(len(p["steps"]) for p in P)
        ctx.case(nontrivial_key=(text, g.xml_of(doc)) if nontriv else None,
                 sample=dict(pattern=text, doc=g.xml_of(doc), impl=iv) if (ci == ncorpus and pi < 3) else None,
                 cls="steps=%d" % min(nsteps, 5))
        for p in P:
            ctx.hist["lead:" + ("rel" if not p["abs"] else "//" if p["steps"] and p["steps"][0][0] == "d" else "/")] = \
                ctx.hist.get("lead:" + ("rel" if not p["abs"] else "//" if p["steps"] and p["steps"][0][0] == "d" else "/"), 0) + 1
            for i, (sep, s) in enumerate(p["steps"]):
                if i > 0 and sep == "d":
                    ctx.hist["sep://"] = ctx.hist.get("sep://", 0) + 1
                for pk, _ in s["preds"]:
                    ctx.hist["pred:" + pk] = ctx.hist.get("pred:" + pk, 0) + 1
                ctx.hist["test:" + ("@" if s["attr"] else "") + s["test"][0]] = ctx.hist.get("test:" + ("@" if s["attr"] else "") + s["test"][0], 0) + 1
        if rep is None:
            # the real compiler / evaluator rejected a pattern of the modelled grammar
            disagree.append(dict(doc=doc, P=P, impl=iv, model=mv, what="implementation error reply"))
            continue
        if rep["text"] != text:
            disagree.append(dict(doc=doc, P=P, impl=iv, model=mv, what="pattern text echo"))
            continue
        if nontriv:
            ctx.hist["nontrivial"] = ctx.hist.get("nontrivial", 0) + 1
        kcls = "class:proved(match_iff_select_partial)" if in_class(P) else "class:outside"
        ctx.hist[kcls] = ctx.hist.get(kcls, 0) + 1
        if in_class(P) and any(dr != "nsdecl" for _, dr in violations(rep)):
            ctx.extra.setdefault("violations_inside_proved_class", []).append(dict(pattern=text, doc=g.xml_of(doc)))
        if in_sound_class(P):
            ctx.hist["class:no-spurious-proved(match_implies_select_partial)"] = \
                ctx.hist.get("class:no-spurious-proved(match_implies_select_partial)", 0) + 1
            if any(dr == "spurious" for _, dr in violations(rep)):
                ctx.extra.setdefault("violations_inside_proved_class", []).append(
                    dict(pattern=text, doc=g.xml_of(doc), what="spurious match inside the no-spurious class"))
        REPLIES.setdefault(tag, {}).setdefault(ci, [None] * len(pats))[pi] = rep
        for dr in sorted(set(dr for _, dr in violations(rep))):
            bad.append(dict(doc=doc, P=P, dir=dr, rep=rep))
        # the model has no raw namespace-declaration attributes: a non-zero `ns` is a property violation of the
        # implementation (reported above as `nsdecl …`), not a disagreement with the model
        if NS_FIELD.sub(" ns=0 ", iv) != mv:
            disagree.append(dict(doc=doc, P=P, impl=iv, model=mv, what="reply"))
    return disagree, bad


def report(ctx, harness, work, disagree, bad):
    # property violations on the real code: shrink on the real code, key by abstract shape
    if bad:
        # identical (pattern, doc, direction) only once
        seen, uniq = set(), []
        for it in bad:
            k = (g.render_pattern(it["P"]), g.xml_of(it["doc"]), it["dir"])
            if k not in seen:
                seen.add(k); uniq.append(it)
        small = shrink_all(harness, work, uniq, want_violation)
        for it in small:
            key = "%s %s" % (it["dir"], g.shape_of(it["P"]))
            ctx.fail(key, describe(it), dict(pattern=g.render_pattern(it["P"]), doc=g.xml_of(it["doc"]),
                                             request=[g.doc_line(it["doc"]), g.pat_line(it["P"])]))
    ctx.extra["property_violations_before_shrinking"] = ctx.extra.get("property_violations_before_shrinking", 0) + len(bad)
    if disagree:
        ctx.extra.setdefault("model_disagreements", [])
        for dd in disagree[:20]:
            ctx.extra["model_disagreements"].append(dict(
                pattern=g.render_pattern(dd["P"]) if dd["P"] else None, doc=g.xml_of(dd["doc"]), impl=dd["impl"],
                model=dd["model"], what=dd["what"]))


def steps_ok(st):
    """python mirror of StepsOK v (ChainProofs.lean) for the variant under test"""
    fa, ag, rg, bt = VARIANT
    simple = lambda s: (not s["attr"]) and (rg or s["test"][0] != "node")   # noqa: E731
    if not all(simple(s) for _, s in st[:-1]):
        return False
    last = st[-1][1]
    if last["attr"]:
        return (ag or last["test"][0] in ("n", "any")) and (fa or all(k in ("a", "c", "na") for k, _ in last["preds"]))
    return simple(last)


def in_class(P):
    """python mirror of XalanModel.Props.C09.InClass (the class of match_iff_select_partial), for the evidence"""
    for p in P:
        st = p["steps"]
        if not st:
            if not p["abs"]:
                return False
            continue
        if VARIANT[3]:
            # backtracking matcher (InClassB): every step lastOK, any order of separators, any lead
            if all(steps_ok([(sep, s)]) for sep, s in st):
                continue
            return False
        if not steps_ok(st):
            return False
        seps = [sep for sep, _ in st[1:]]
        desc_prefix = "d" not in "".join(seps).lstrip("d")
        if not p["abs"]:
            ok = desc_prefix
        elif st[0][0] == "d":
            ok = desc_prefix
        else:
            ok = all(x == "c" for x in seps)
        if not ok:
            return False
    return True


def in_sound_class(P):
    """python mirror of InSoundClass (match_implies_select_partial): relative / '//'-leading, StepsOK, any separators"""
    for p in P:
        st = p["steps"]
        if not st or (p["abs"] and st[0][0] != "d"):
            return False
        if not steps_ok(st):
            return False
    return True


# ------------------------------------------------------------------------------------------------ use sites

XSL_HEAD = ('<xsl:stylesheet version="1.0" xmlns:xsl="http://www.w3.org/1999/XSL/Transform" xmlns:p="nsP" xmlns:q="nsQ">'
            '<xsl:output method="text"/>')


def xml_escape(t):
    return t.replace("&", "&amp;").replace("<", "&lt;").replace('"', "&quot;")


def gen_fn_patterns(r, k):
    """id()/key() patterns (XSLT 5.2 IdKeyPattern ('/' | '//') RelativePathPattern): text only — not modelled in Lean,
    checked against the defining expression inside the same transformation"""
    out = []
    for _ in range(k):
        head = r.choice(["key('kn','%s')" % r.choice(g.POOL["e"]), "key('kx','1')", "key('kn','%s')" % r.choice(g.ENAMES)])
        n = r.weighted([(0, 2), (1, 4), (2, 3)])
        t = head
        # separators: every '//' before every '/' (elsewhere the known no-backtracking finding applies, which is
        # reported once, at XPath::getMatchScore level)
        seps = sorted((r.choice(["/", "//"]) for _ in range(n)), reverse=True)
        for i in range(n):
            st = g.gen_step(r, i == n - 1, False)
            if st["test"][0] == "node":
                st["test"] = ("any", None)
            if i == 0 and r.chance(1, 2):
                st["explicit"] = True              # key('k','v')/child::b//c : the slash after key() is still pending
            t += seps[i] + g.render_step(st)
        out.append(t)
    return out


def use_site_stylesheet(pats, fnpats=()):
    """templates (one mode per pattern) and xsl:key declarations with match=P; for every node of the document one
    output line: kind, then per pattern four digits: did the template fire, is the node in the key, does
    xsl:number level="single" count=P find a node to count (the node or an ancestor matches P), and the same with
    from=Q (Q the next pattern of the case: the walk up stops at the nearest proper ancestor matching Q)"""
    o = [XSL_HEAD]
    for j, P in enumerate(pats):
        o.append('<xsl:key name="k%d" match="%s" use="1"/>' % (j, xml_escape(g.render_pattern(P))))
    body = ['<xsl:choose><xsl:when test="not(..)">r</xsl:when><xsl:when test="self::*">e</xsl:when>'
            '<xsl:when test="self::text()">t</xsl:when><xsl:when test="self::comment()">c</xsl:when>'
            '<xsl:when test="self::processing-instruction()">p</xsl:when><xsl:otherwise>a</xsl:otherwise></xsl:choose>']
    for j in range(len(pats)):
        body.append('<xsl:text> </xsl:text><xsl:apply-templates select="." mode="m%d"/>' % j)
        body.append('<xsl:value-of select="count(key(\'k%d\',1)[generate-id()=generate-id(current())])"/>' % j)
        # xsl:number level="single" count="P": non-empty exactly when the node or an ancestor matches P
        body.append('<xsl:variable name="c%d"><xsl:number level="single" count="%s"/></xsl:variable>'
                    '<xsl:value-of select="number(string-length($c%d) &gt; 0)"/>' % (j, xml_escape(g.render_pattern(pats[j])), j))
        # … with from="Q" (Q = the next pattern of the case): only the ancestors below the nearest ancestor matching Q
        body.append('<xsl:variable name="d%d"><xsl:number level="single" count="%s" from="%s"/></xsl:variable>'
                    '<xsl:value-of select="number(string-length($d%d) &gt; 0)"/>' % (
                        j, xml_escape(g.render_pattern(pats[j])), xml_escape(g.render_pattern(pats[(j + 1) % len(pats)])), j))
    # id()/key() patterns: template fires (f<0/1>) vs the defining expression evaluated in the same run (d<0/1>)
    if fnpats:
        body.append('<xsl:variable name="n" select="."/>')
    for j, t in enumerate(fnpats):
        body.append('<xsl:text> </xsl:text><xsl:apply-templates select="." mode="f%d"/>' % j)
        body.append('<xsl:value-of select="number(boolean(ancestor-or-self::node()[count((%s)|$n)=count(%s)]))"/>'
                    % (xml_escape(t), xml_escape(t)))
    body.append('<xsl:text>&#10;</xsl:text>')
    body = "".join(body)
    o.append('<xsl:key name="kn" match="*" use="name()"/><xsl:key name="kx" match="*[@x]" use="1"/>')
    # the root is visited separately: the union "//node() | //@* | /" delivers the root node last, and the
    # expression "/ | //node()" is rejected by the expression compiler (both outside C09)
    # the same templates applied with a *different caller node list*: one apply-templates over all nodes of the
    # document (document order), and one per parent over its child nodes; a matcher that reads position()/last() from
    # the caller's list instead of re-evaluating the step gives different answers here
    amb = []
    for j in range(len(pats)):
        amb.append('<xsl:text>A%d </xsl:text><xsl:apply-templates select="//node() | //@*" mode="m%d"/>'
                   '<xsl:text>&#10;</xsl:text>' % (j, j))
        amb.append('<xsl:text>C%d </xsl:text><xsl:apply-templates select="/node()" mode="m%d"/>'
                   '<xsl:for-each select="//*"><xsl:apply-templates select="node()" mode="m%d"/>'
                   '</xsl:for-each><xsl:text>&#10;</xsl:text>' % (j, j, j))
    o.append('<xsl:template match="/"><xsl:for-each select="/">%s</xsl:for-each>'
             '<xsl:for-each select="//node() | //@*">%s</xsl:for-each>%s</xsl:template>' % (body, body, "".join(amb)))
    for j, P in enumerate(pats):
        o.append('<xsl:template match="%s" mode="m%d" priority="5">1</xsl:template>' % (xml_escape(g.render_pattern(P)), j))
        o.append('<xsl:template match="node()|@*|/" mode="m%d" priority="-5">0</xsl:template>' % j)
    for j, t in enumerate(fnpats):
        o.append('<xsl:template match="%s" mode="f%d" priority="5">1</xsl:template>' % (xml_escape(t), j))
        o.append('<xsl:template match="node()|@*|/" mode="f%d" priority="-5">0</xsl:template>' % j)
    o.append('</xsl:stylesheet>')
    return "".join(o)


def use_sites(ctx, cases, replies, work, limit):
    """Run the Xalan CLI on (document, stylesheet with the case's patterns as template match / xsl:key match) and
    compare, per node and pattern, with XPath::getMatchScore (m) and with the defining side (s) from the harness."""
    cli = os.path.join(common.build_dir("hooks"), "src", "xalanc", "Xalan")
    n_ok = n_mask = n_same = 0
    n_fn = n_fn_match = 0
    n_amb = [0]
    bad = []
    rr = Rng(ctx.seed * 7919 + 13)
    for ci, (doc, pats) in enumerate(cases[:limit]):
        reps = replies.get(ci)
        if not reps or any(r is None for r in reps):
            continue
        g.set_pool(doc)
        fnpats = gen_fn_patterns(rr, 6)
        g.set_pool(None)
        xmlf = os.path.join(work, "c09_site.xml")
        xslf = os.path.join(work, "c09_site.xsl")
        with open(xmlf, "w") as f:
            f.write(g.xml_of(doc))
        with open(xslf, "w") as f:
            f.write(use_site_stylesheet(pats, fnpats))
        rc, out = common.sh([cli, xmlf, xslf], timeout=120)
        lines = [l for l in out.split("\n") if l]
        amb_lines = [l for l in lines if l[0] in "AC" and l[1:2].isdigit()]
        lines = [l for l in lines if not (l[0] in "AC" and l[1:2].isdigit())]
        table = g.table_of(doc)
        if rc != 0 or len(lines) != len(table) or any(l[0] != t[0] for l, t in zip(lines, table)):
            bad.append(dict(site="cli", doc=g.xml_of(doc), pattern=[g.render_pattern(P) for P in pats],
                            what="unexpected CLI output rc=%d: %s" % (rc, out[-400:])))
            continue
        # caller-node-list independence: the template decision per node must be the same whether the node was
        # reached alone (select="."), among all nodes of the document, or among its siblings
        parents = [int(t.split(":")[-1]) if t != "r" else -1 for t in table]
        order_all = list(range(1, len(table)))
        order_kids = [c for par in range(len(table)) if table[par][0] in "re"
                      for c in range(len(table)) if parents[c] == par and c != 0 and table[c][0] != "a"]
        for al in amb_lines:
            tag, _, bits = al.partition(" ")
            j = int(tag[1:])
            order = order_all if tag[0] == "A" else order_kids
            if j >= len(pats) or len(bits) != len(order) or any(ch not in "01" for ch in bits):
                bad.append(dict(site="template-ambient", doc=g.xml_of(doc), pattern=g.render_pattern(pats[j]) if j < len(pats) else "?",
                                what="malformed %s line %r (expected %d digits)" % (tag, bits[:80], len(order))))
                continue
            for k, node in enumerate(order):
                single = lines[node].split(" ")[1:][j][0] if j < len(lines[node].split(" ")) - 1 else "?"
                if bits[k] != single:
                    bad.append(dict(site="template-ambient", doc=g.xml_of(doc), pattern=g.render_pattern(pats[j]), node=node,
                                    what="template fired=%s when the node is reached by apply-templates select=%s, but %s "
                                         "when reached alone (select=\".\"): the caller's node list influences matching"
                                         % (bits[k], "//node()|//@*" if tag[0] == "A" else "node() from its parent", single)))
                    break
            n_amb[0] += len(order)
        for i, l in enumerate(lines):
            f = l.split(" ")[1:]
            for j, t in enumerate(fnpats):
                fj = f[len(pats) + j] if len(pats) + j < len(f) else ""
                if len(fj) != 2 or fj[0] not in "01" or fj[1] not in "01":
                    bad.append(dict(site="fn-template", doc=g.xml_of(doc), pattern=t, node=i,
                                    what="neither the pattern's template nor the low-priority node()|@*|/ template "
                                         "fired (a built-in rule ran): field %r" % fj))
                    continue
                n_fn += 1
                n_fn_match += fj[0] == "1"
                if fj[0] != fj[1]:
                    bad.append(dict(site="fn-template %s" % ("spurious" if fj[0] == "1" else "missed"),
                                    doc=g.xml_of(doc), pattern=t, node=i,
                                    what="template match fired=%s, defining expression selects=%s" % (fj[0], fj[1])))
            for j, P in enumerate(pats):
                if j >= len(f) or len(f[j]) != 4 or any(ch not in "01" for ch in f[j]):
                    bad.append(dict(site="template", doc=g.xml_of(doc), pattern=g.render_pattern(P), node=i,
                                    what="neither the pattern's template nor the low-priority node()|@*|/ template "
                                         "fired (a built-in rule ran): field %r" % (f[j] if j < len(f) else None)))
                    continue
                m = reps[j]["m"][i] != "0"
                sp = reps[j]["s"][i] == "1"
                # xsl:number count: expectation over the ancestor-or-self chain
                anc, x = [i], i
                while x != 0:
                    x = int(table[x].split(":")[-1])
                    anc.append(x)
                m_up = any(reps[j]["m"][a] != "0" for a in anc)
                s_up = any(reps[j]["s"][a] == "1" for a in anc)
                # count + from (ElemNumber::getMatchingAncestors): walk up from the node; a proper ancestor matching
                # `from` ends the walk, a node matching `count` is found
                jq = (j + 1) % len(pats)

                def walk(cnt, frm):
                    for a in anc:
                        if a != i and frm(a):
                            return False
                        if cnt(a):
                            return True
                    return False
                m_fr = walk(lambda a: reps[j]["m"][a] != "0", lambda a: reps[jq]["m"][a] != "0")
                s_fr = walk(lambda a: reps[j]["s"][a] == "1", lambda a: reps[jq]["s"][a] == "1")
                for site, bit, m, sp in (("template", f[j][0] == "1", m, sp), ("key", f[j][1] == "1", m, sp),
                                         ("number-count", f[j][2] == "1", m_up, s_up),
                                         ("number-count-from", f[j][3] == "1", m_fr, s_fr)):
                    ctx.evaluations += 0
                    if bit == sp:
                        n_ok += 1
                        if bit != m:
                            n_mask += 1
                    elif bit == m:
                        n_same += 1     # the getMatchScore-level deviation shows at the use site (reported there)
                    else:
                        bad.append(dict(site=site, doc=g.xml_of(doc), pattern=g.render_pattern(P), node=i,
                                        what="%s says %s, getMatchScore %s, defining expression %s" % (site, bit, m, sp)))
    for b in bad[:20]:
        # make the failing run reproducible from the replay file alone
        for ci, (doc, pats) in enumerate(cases[:limit]):
            if g.xml_of(doc) == b["doc"]:
                b.setdefault("xml", g.xml_of(doc))
                b.setdefault("note", "stylesheet = use_site_stylesheet(patterns of the case, fn patterns); see checks/c09.py")
                break
    ctx.extra["use_sites"] = dict(documents=min(limit, len(cases)), node_pattern_site_agree_with_definition=n_ok,
                                  of_which_mask_a_getMatchScore_deviation=n_mask,
                                  show_the_getMatchScore_deviation=n_same, site_specific_violations=len(bad),
                                  key_pattern_node_checks=n_fn, key_pattern_matches=n_fn_match,
                                  caller_list_independence_checks=n_amb[0])
    for b in bad[:20]:
        ctx.fail("use-site %s: %s" % (b["site"], b["pattern"]), "%s on %s node %s: %s" % (
            b["site"], b["doc"], b.get("node"), b["what"]), b)


def idkey_stream(ctx, harness, model, work, ndocs, npat):
    """id()-leading patterns (IdKeyPattern ('/'|'//') RelativePathPattern?) on documents with ID attributes: the real
    compiler/matcher/expression engine vs the Lean model (`getMatchScoreFn`, `Spec.matchesFn`), same comparison as
    for ordinary patterns; the node-set of the call is computed here from the generated document"""
    r = Rng(ctx.seed * 104729 + 7)
    lines, meta = ["variant %d %d %d %d" % VARIANT], [None]
    for _ in range(ndocs):
        doc = g.gen_doc(r, r.range(4, 22), ns=False)
        ids = g.add_ids(r, doc)
        if not ids:
            continue
        g.set_pool(doc)
        idx = g.index_of(doc)
        t = g.table_of(doc)
        lines.append("doc %s %d %s" % (g.xml_with_dtd(doc).encode().hex(), len(t), " ".join(t))); meta.append(("doc", doc))
        for _ in range(npat):
            vals = sorted(set(r.choice(sorted(ids)) for _ in range(r.range(1, 2))))
            if r.chance(1, 8):
                vals.append("nosuch")
            txt = "id('%s')" % " ".join(vals)
            S = sorted(idx[id(ids[v])] for v in vals if v in ids)
            n = r.weighted([(0, 1), (1, 4), (2, 3), (3, 1)])
            steps = [(r.choice("cd"), g.gen_step(r, i == n - 1, False)) for i in range(n)]
            if steps and r.chance(1, 2):
                steps[0][1]["explicit"] = True     # the branch reached with the slash after id() still pending
            text = txt + "".join(("/" if sep == "c" else "//") + g.render_step(st) for sep, st in steps)
            toks = " ".join("%s:%s:%s:%s" % (sep, g.tok_axis(st), g.tok_test(st["test"]),
                                             ",".join(g.tok_pred(q) for q in st["preds"]) or "-") for sep, st in steps)
            lines.append("fpat %s %s %s %s" % (text.encode().hex(), "".join("%04x" % ord(ch) for ch in txt),
                                               ",".join(map(str, S)) or "-", toks))
            meta.append(("pat", doc, text))
    g.set_pool(None)
    req = os.path.join(work, "c09_idkey.req")
    with open(req, "w") as f:
        f.write("\n".join(lines) + "\n")
    il, ml, irc, mrc, ierr, merr = common.run_pair([harness], [model], req)
    ok = irc == 0 and mrc == 0 and len(il) == len(lines) and len(ml) == len(lines)
    nmatch = 0
    dis = []
    for li, mt in enumerate(meta):
        iv = il[li] if li < len(il) else None
        mv = ml[li] if li < len(ml) else None
        if mt is None or mt[0] == "doc":
            if iv != mv:
                dis.append(dict(line=lines[li][:120], impl=iv, model=mv))
            continue
        rep = parse_reply(iv)
        ctx.case(nontrivial_key=("idkey", mt[2], g.xml_of(mt[1])) if rep and set(rep["m"]) != {"0"} else None, cls="idkey")
        if rep is None or NS_FIELD.sub(" ns=0 ", iv) != mv:
            dis.append(dict(pattern=mt[2], doc=g.xml_with_dtd(mt[1]), impl=iv, model=mv))
            continue
        nmatch += set(rep["m"]) != {"0"}
        for (node, dr) in violations(rep)[:1]:
            ctx.fail("idkey %s: %s" % (dr, mt[2]), "pattern %s on %s: getMatchScore per node %s, selected per node %s, "
                     "caller-list dependence %s" % (mt[2], g.xml_with_dtd(mt[1]), rep["m"], rep["s"], rep["amb"]),
                     dict(pattern=mt[2], doc=g.xml_with_dtd(mt[1]), request=[lines[k] for k in range(li, 0, -1) if lines[k].startswith("doc ")][:1] + [lines[li]]))
    ctx.extra["idkey_patterns"] = dict(cases=sum(1 for m in meta if m and m[0] == "pat"), with_a_match=nmatch,
                                       disagreements=len(dis))
    ctx.oblige("correspondence (id()-leading patterns): op codes F/G, getMatchScore of every node and the expression "
               "engine's answer = Lean model (getMatchScoreFn, Spec.matchesFn)", "correspondence", ok and not dis,
               json.dumps(dis[:3]) + ierr[-300:] + merr[-300:])


CONSUMER_PATTERNS = [
    # last steps whose target data is *not* the obvious one: node tests on the attribute axis, node() alone, unions
    # of different node kinds, the root
    "@node()", "attribute::node()", "node()", "text()|@*", "comment()", "processing-instruction()", "*/@node()",
    "//attribute::node()", "@*", "*", "text()", "/", "*//node()", "comment()|processing-instruction()|@node()",
    # absolute patterns: must match relative to whatever root the node's tree has (document or document fragment)
    "/*", "/*/*", "/node()", "/*//@*", "/*/text()|/comment()",
]


TREE_KINDS = [("M", "/", "main source document"),
              ("D", "document('c09_cons2.xml')", "document() load"),
              ("F", "exsl:node-set($rtf)", "result tree fragment (root = document fragment) via exsl:node-set"),
              ("N", "xalan:nodeset($rtf2)", "fragment built from a fragment, via xalan:nodeset")]


def consumer_stylesheet(pat, with_key, helper_key):
    """ONE xsl:key declaration (match=pat) and ONE template (match=pat) — nothing else that could mask a pre-filter
    built from the patterns' target data — applied to the nodes of every kind of tree the processor can hold (TREE_KINDS).
    Per tree and node one line: <tree tag> <kind> <in key('k','1')><template fired><defining expression in the same
    tree><xsl:number level=single count=pat finds a node>."""
    e = xml_escape(pat)
    o = [XSL_HEAD.replace('xmlns:p="nsP"', 'xmlns:exsl="http://exslt.org/common" xmlns:xalan="http://xml.apache.org/xalan" '
                          'exclude-result-prefixes="exsl xalan" xmlns:p="nsP"')]
    if with_key:
        o.append('<xsl:key name="k" match="%s" use="\'1\'"/>' % e)
    if helper_key:
        o.append('<xsl:key name="kn" match="*" use="name()"/><xsl:key name="kx" match="*[@x]" use="1"/>')
    o.append('<xsl:variable name="rtf"><xsl:copy-of select="/node()"/></xsl:variable>'
             '<xsl:variable name="rtf2"><xsl:copy-of select="exsl:node-set($rtf)/node()"/></xsl:variable>')
    o.append('<xsl:template name="row"><xsl:param name="tag"/><xsl:variable name="n" select="."/>'
             '<xsl:value-of select="$tag"/><xsl:text> </xsl:text>'
             '<xsl:choose><xsl:when test="not(..)">r</xsl:when><xsl:when test="self::*">e</xsl:when>'
             '<xsl:when test="self::text()">t</xsl:when><xsl:when test="self::comment()">c</xsl:when>'
             '<xsl:when test="self::processing-instruction()">p</xsl:when><xsl:otherwise>a</xsl:otherwise></xsl:choose>'
             '<xsl:text> </xsl:text>'
             + ('<xsl:value-of select="count(key(\'k\',\'1\')[generate-id()=generate-id(current())])"/>' if with_key
                else '<xsl:text>-</xsl:text>') +
             '<xsl:variable name="o"><xsl:apply-templates select="." mode="m"/></xsl:variable>'
             '<xsl:value-of select="number(contains($o, concat(\'[\', generate-id(), \']\')))"/>'
             '<xsl:value-of select="number(boolean(ancestor-or-self::node()[count((%s)|$n)=count(%s)]))"/>'
             '<xsl:variable name="c"><xsl:number level="single" count="%s"/></xsl:variable>'
             '<xsl:value-of select="number(string-length($c) &gt; 0)"/>'
             '<xsl:text>&#10;</xsl:text></xsl:template>' % (e, e, e))
    # after the nodes of a tree: how many nodes key('k','1') holds for that tree — it must hold nothing besides the
    # nodes listed (e.g. no raw namespace-declaration attributes, which no expression selects)
    total = ('<xsl:for-each select="$T"><xsl:value-of select="$tag"/><xsl:text> # </xsl:text>'
             + ('<xsl:value-of select="count(key(\'k\',\'1\'))"/>' if with_key else '<xsl:text>-</xsl:text>') +
             '<xsl:text>&#10;</xsl:text></xsl:for-each>')
    o.append('<xsl:template name="tree"><xsl:param name="T"/><xsl:param name="tag"/>'
             '<xsl:for-each select="$T"><xsl:call-template name="row"><xsl:with-param name="tag" select="$tag"/></xsl:call-template></xsl:for-each>'
             '<xsl:for-each select="$T//node() | $T//@*"><xsl:call-template name="row"><xsl:with-param name="tag" select="$tag"/>'
             '</xsl:call-template></xsl:for-each>' + total + '</xsl:template>')
    o.append('<xsl:template match="/">' + "".join(
        '<xsl:call-template name="tree"><xsl:with-param name="T" select="%s"/><xsl:with-param name="tag" select="\'%s\'"/>'
        '</xsl:call-template>' % (sel, tag) for tag, sel, _ in TREE_KINDS) + '</xsl:template>')
    # the template prints the id of the node it fired for: a built-in rule recursing into children cannot fake it
    o.append('<xsl:template match="%s" mode="m">[<xsl:value-of select="generate-id()"/>]</xsl:template>' % e)
    o.append('</xsl:stylesheet>')
    return "".join(o)


def consumer_phase(ctx, cases, work, ndocs):
    """Consumers of match patterns that may pre-filter candidate nodes by target data (XPath::getTargetData): the
    xsl:key table (KeyTable::KeyTable), template lookup (Stylesheet::addTemplate / locateMatchPatternDataList) and
    xsl:number count.  Each is run with the pattern as the ONLY declaration of its kind, on the nodes of every kind of
    tree (main source, document() load, result tree fragment, nested fragment), and compared, node by node, with the
    defining expression evaluated in the same transformation and the same tree."""
    cli = os.path.join(common.build_dir("hooks"), "src", "xalanc", "Xalan")
    rr = Rng(ctx.seed * 2654435761 % (2 ** 31) + 11)
    jobs = []
    for doc, pats in cases[:ndocs]:
        own = [g.render_pattern(P) for P in pats[:3] if not g.render_pattern(P).startswith("/|")]
        table = g.table_of(doc)
        for t in CONSUMER_PATTERNS + own:
            jobs.append((g.xml_of(doc), table, t, True, False))
        g.set_pool(doc)
        for t in gen_fn_patterns(rr, 2) + ["key('kn','%s')//@node()" % rr.choice(g.POOL["e"]),
                                           "key('kn','%s')/node()" % rr.choice(g.POOL["e"])]:
            jobs.append((g.xml_of(doc), table, t, False, True))      # key() head: template consumer only
        g.set_pool(None)
    for _ in range(max(4, ndocs // 4)):
        doc = g.gen_doc(rr, rr.range(4, 18), ns=False)
        ids = g.add_ids(rr, doc)
        if not ids:
            continue
        v = sorted(ids)
        for t in ["id('%s')" % v[0], "id('%s')//@node()" % " ".join(v[:2]), "id('%s')/node()" % v[0],
                  "id('%s')//text()" % v[-1]]:
            jobs.append((g.xml_with_dtd(doc), g.table_of(doc), t, True, False))
    nchk = nmatch = 0
    per_tree = {}
    bad = []
    for xml, table, t, with_key, helper in jobs:
        nn = len(table)
        parents = [int(x.split(":")[-1]) if x != "r" else -1 for x in table]
        xmlf = os.path.join(work, "c09_cons.xml")
        xslf = os.path.join(work, "c09_cons.xsl")
        for fn in (xmlf, os.path.join(work, "c09_cons2.xml")):
            with open(fn, "w") as f:
                f.write(xml)
        with open(xslf, "w") as f:
            f.write(consumer_stylesheet(t, with_key, helper))
        rc, out = common.sh([cli, xmlf, xslf], timeout=120)
        lines = [l for l in out.split("\n") if l]
        totals = dict((l[0], l[4:]) for l in lines if l[1:4] == " # ")
        lines = [l for l in lines if l[1:4] != " # "]
        ok = rc == 0 and len(lines) == nn * len(TREE_KINDS) and all(len(l) == 8 and l[1] == " " and l[3] == " " for l in lines)
        if not ok:
            bad.append(dict(site="consumer cli", pattern=t, doc=xml, what="unexpected CLI output rc=%d: %s" % (rc, out[-300:])))
            continue
        for ti, (tag, _sel, tname) in enumerate(TREE_KINDS):
            blk = lines[ti * nn:(ti + 1) * nn]
            if any(l[0] != tag for l in blk) or any(l[2] != x[0] for l, x in zip(blk, table)):
                bad.append(dict(site="consumer cli", pattern=t, doc=xml, what="tree %s: node kinds differ from the source: %s" % (tag, blk[:6])))
                continue
            failed = False
            if with_key and totals.get(tag, "").isdigit() and int(totals[tag]) != sum(l[4] == "1" for l in blk):
                bad.append(dict(site="consumer xsl:key extra nodes [%s]" % tname.split(" (")[0].split(",")[0], pattern=t, doc=xml,
                                what="tree kind %s: key('k','1') holds %s nodes but only %d of the tree's nodes are in it — it "
                                     "contains nodes no expression selects (namespace-declaration attributes?)"
                                     % (tname, totals[tag], sum(l[4] == "1" for l in blk))))
                failed = True
            for i, l in enumerate(blk):
                if failed:
                    break
                kbit, tbit, dbit, nbit = l[4], l[5], l[6], l[7]
                nchk += 1
                per_tree[tag] = per_tree.get(tag, 0) + 1
                nmatch += dbit == "1"
                # xsl:number level=single count=P: the node or an ancestor is selected by P
                x, up = i, False
                while True:
                    up = up or blk[x][6] == "1"
                    if x == 0:
                        break
                    x = parents[x]
                for site, bit, exp in (("xsl:key", kbit, dbit), ("template", tbit, dbit), ("xsl:number count", nbit, "1" if up else "0")):
                    if site == "xsl:key" and not with_key:
                        continue
                    if bit != exp:
                        bad.append(dict(site="consumer %s %s [%s]" % (site, "missed" if exp == "1" else "spurious", tname.split(" (")[0].split(",")[0]),
                                        pattern=t, doc=xml, node=i,
                                        what="tree kind %s, node %d (%s): %s says %s, the defining expression evaluated in the "
                                             "same tree gives %s (single declaration of the pattern)" % (tname, i, l[2], site, bit, exp)))
                        failed = True
                        break
                if failed:
                    break
    ctx.extra["consumers"] = dict(stylesheets=len(jobs), node_checks=nchk, per_tree_kind=per_tree, nodes_selected=nmatch,
                                  violations=len(bad), tree_kinds={t: n for t, _, n in TREE_KINDS})
    for b in bad[:20]:
        ctx.fail("%s: %s" % (b["site"], b["pattern"]), "%s on %s: %s" % (b["site"], b["doc"], b["what"]),
                 dict(pattern=b["pattern"], doc=b["doc"], consumer=b["site"]))


def multikey_stylesheet(pats):
    """2–3 xsl:key declarations of the SAME name with overlapping patterns and distinct `use` constants: each
    membership is compared with its own defining expression (XSLT 12.2: all declarations of a name apply)."""
    o = [XSL_HEAD]
    for j, t in enumerate(pats):
        o.append('<xsl:key name="k" match="%s" use="\'u%d\'"/>' % (xml_escape(t), j))
    body = ['<xsl:variable name="n" select="."/>'
            '<xsl:choose><xsl:when test="not(..)">r</xsl:when><xsl:when test="self::*">e</xsl:when>'
            '<xsl:when test="self::text()">t</xsl:when><xsl:when test="self::comment()">c</xsl:when>'
            '<xsl:when test="self::processing-instruction()">p</xsl:when><xsl:otherwise>a</xsl:otherwise></xsl:choose>']
    for j, t in enumerate(pats):
        e = xml_escape(t)
        body.append('<xsl:text> </xsl:text><xsl:value-of select="count(key(\'k\',\'u%d\')[generate-id()=generate-id(current())])"/>'
                    '<xsl:value-of select="number(boolean(ancestor-or-self::node()[count((%s)|$n)=count(%s)]))"/>' % (j, e, e))
    body.append('<xsl:text>&#10;</xsl:text>')
    body = "".join(body)
    o.append('<xsl:template match="/"><xsl:for-each select="/">%s</xsl:for-each>'
             '<xsl:for-each select="//node() | //@*">%s</xsl:for-each></xsl:template></xsl:stylesheet>' % (body, body))
    return "".join(o)


def multikey_phase(ctx, cases, work, ndocs):
    cli = os.path.join(common.build_dir("hooks"), "src", "xalanc", "Xalan")
    rr = Rng(ctx.seed * 48271 + 3)
    nchk = nboth = 0
    bad = []
    njobs = 0
    for doc, pats in cases[:ndocs]:
        own = [g.render_pattern(P) for P in pats if not g.render_pattern(P).startswith("/|")]
        for trio in (["*", "node()", "*[1]"], ["@*", "@x|*", "node()|@*"],
                     [rr.choice(own or ["*"]), "*|@*|text()", rr.choice(own or ["node()"])]):
            njobs += 1
            xml, table = g.xml_of(doc), g.table_of(doc)
            xmlf = os.path.join(work, "c09_mk.xml")
            xslf = os.path.join(work, "c09_mk.xsl")
            with open(xmlf, "w") as f:
                f.write(xml)
            with open(xslf, "w") as f:
                f.write(multikey_stylesheet(trio))
            rc, out = common.sh([cli, xmlf, xslf], timeout=120)
            lines = [l for l in out.split("\n") if l]
            if rc != 0 or len(lines) != len(table):
                bad.append(dict(site="consumer multi-key cli", pattern=" ; ".join(trio), doc=xml, what="rc=%d %s" % (rc, out[-300:])))
                continue
            for i, l in enumerate(lines):
                f = l.split(" ")[1:]
                if len(f) != len(trio) or any(len(x) != 2 for x in f):
                    bad.append(dict(site="consumer multi-key cli", pattern=" ; ".join(trio), doc=xml, what="malformed line %r" % l))
                    break
                nchk += len(f)
                nboth += sum(x[1] == "1" for x in f) >= 2
                wrong = [j for j, x in enumerate(f) if x[0] != x[1]]
                if wrong:
                    j = wrong[0]
                    bad.append(dict(site="consumer multi-key %s" % ("missed" if f[j][1] == "1" else "spurious"),
                                    pattern=" ; ".join(trio), doc=xml, node=i,
                                    what="node %d (%s): declaration %d of key 'k' (match=%s use='u%d'): in key = %s, defining "
                                         "expression = %s; memberships of the %d same-named declarations: %s"
                                         % (i, l[0], j, trio[j], j, f[j][0], f[j][1], len(trio), " ".join(f))))
                    break
    ctx.extra["consumers_multi_key"] = dict(stylesheets=njobs, membership_checks=nchk,
                                            nodes_matching_two_or_more_declarations=nboth, violations=len(bad))
    for b in bad[:10]:
        ctx.fail("%s: %s" % (b["site"], b["pattern"]), "%s on %s: %s" % (b["site"], b["doc"], b["what"]),
                 dict(pattern=b["pattern"], doc=b["doc"], multikey=True))


def xerces_stream(ctx, harness, cases, work, limit):
    """Tree kind "Xerces-wrapped source": the same documents parsed into a Xerces DOM behind XercesDocumentWrapper
    (harness request `xdoc`).  Implementation only: node table, op codes, scores from both entry points, caller-list
    independence and the defining side must equal those obtained on the XalanSourceTree document; the property is
    evaluated on the wrapped document too."""
    import subprocess
    sub = cases[:limit]
    req = os.path.join(work, "c09_xerces.req")
    lines, owner = make_request(sub, req)
    out1 = subprocess.run([harness], stdin=open(req, "rb"), stdout=subprocess.PIPE, stderr=subprocess.PIPE, timeout=1800
                          ).stdout.decode("utf-8", "replace").split("\n")
    with open(req, "w") as f:
        f.write("\n".join(("x" + l if l.startswith("doc ") else l) for l in lines) + "\n")
    p2 = subprocess.run([harness], stdin=open(req, "rb"), stdout=subprocess.PIPE, stderr=subprocess.PIPE, timeout=1800)
    out2 = p2.stdout.decode("utf-8", "replace").split("\n")
    def canon(docline):
        """document-order indices in a canonical order: attributes of an element sorted by expanded name (their relative
        order is implementation-dependent: XalanSourceTree keeps the source order, the Xerces DOM does not)"""
        toks = docline.split(" ")[2:]
        par = [int(t.split(":")[-1]) if t != "r" else -1 for t in toks]
        order = []

        def go(i):
            order.append(i)
            for a in sorted((j for j in range(len(toks)) if par[j] == i and toks[j][0] == "a"), key=lambda j: toks[j]):
                order.append(a)
            for c in (j for j in range(len(toks)) if par[j] == i and j != 0 and toks[j][0] != "a"):
                go(c)
        go(0)
        return order, [toks[i].rsplit(":", 1)[0] for i in order]

    def reorder(rep, order):
        pick = lambda st: "".join(st[i] for i in order)   # noqa: E731
        # (`ns` is not compared: the Xerces DOM has no implicit xmlns:xml declaration on the document element)
        return (rep["codes"], pick(rep["m"]), pick(rep["s"]), pick(rep["amb"]), [pick(a) for a in rep["alts"]])

    n = ndiff = nskip = 0
    cur = {}
    for li, (ci, pi) in enumerate(owner):
        if ci < 0:
            continue
        a = out1[li] if li < len(out1) else None
        b = out2[li] if li < len(out2) else None
        n += 1
        doc, pats = sub[ci]
        same = a == b
        if pi is None and a and b and a.startswith("doc ") and b.startswith("doc ") and "ERR" not in a + b:
            oa, ka = canon(a)
            ob, kb = canon(b)
            cur[ci] = (oa, ob)
            same = ka == kb
        elif pi is not None and ci in cur:
            if any(st["attr"] and any(k not in ("a", "c", "na") for k, _ in st["preds"]) for p in pats[pi] for _, st in p["steps"]):
                nskip += 1      # a positional predicate on an attribute step depends on the attribute order
                continue
            ra, rb = parse_reply(a), parse_reply(b)
            same = ra is not None and rb is not None and reorder(ra, cur[ci][0]) == reorder(rb, cur[ci][1])
        if not same:
            ndiff += 1
            if ndiff <= 5:
                ctx.fail("xerces-wrapper differs: %s" % (g.render_pattern(pats[pi]) if pi is not None else "document table"),
                         "Xerces-wrapped document %s: %s  vs XalanSourceTree: %s" % (g.xml_of(doc), (b or "")[:300], (a or "")[:300]),
                         dict(pattern=g.render_pattern(pats[pi]) if pi is not None else None, doc=g.xml_of(doc),
                              request=[("x" + lines[k]) for k in range(li, 0, -1) if lines[k].startswith("doc ")][:1] +
                                      ([lines[li]] if pi is not None else [])))
    ctx.extra["xerces_wrapped_sources"] = dict(lines_compared=n, differing=ndiff, harness_rc=p2.returncode,
                                               skipped_attribute_order_dependent=nskip)
    ctx.oblige("tree kind Xerces-wrapped source: same node tables (attributes of an element compared as a set), op codes, "
               "scores and defining side as on the XalanSourceTree document", "correspondence", ndiff == 0 and p2.returncode == 0, "differing=%d" % ndiff)


def spaced(text, r):
    """the same pattern with ExprWhitespace between tokens (XPath 1.0 3.7)"""
    import re
    sp = lambda: " " * r.range(0, 2)   # noqa: E731
    out = re.sub(r"//|/|\||\[|\]|=|!=|<|>|::|\(|\)", lambda m: sp() + m.group(0) + sp(), text.replace("!=", "\x00"))
    return (" " * r.range(0, 1) + out + " " * r.range(0, 1)).replace("\x00", " != ")


def whitespace_stream(ctx, harness, cases, work, limit):
    """implementation only: whitespace between the tokens of a pattern changes neither the compiled op codes nor any
    node's score or the defining side"""
    r = Rng(ctx.seed * 31337 + 5)
    lines, meta = ["variant %d %d %d %d" % VARIANT], [None]
    for doc, pats in cases[:limit]:
        lines.append(g.doc_line(doc)); meta.append(None)
        for P in pats[:6]:
            t = g.render_pattern(P)
            for txt in (t, spaced(t, r)):
                lines.append("pat %s rel" % txt.encode().hex()); meta.append((t, txt, g.xml_of(doc)))
    req = os.path.join(work, "c09_ws.req")
    with open(req, "w") as f:
        f.write("\n".join(lines) + "\n")
    import subprocess
    p = subprocess.run([harness], stdin=open(req, "rb"), stdout=subprocess.PIPE, stderr=subprocess.PIPE, timeout=1800)
    out = p.stdout.decode("utf-8", "replace").split("\n")
    bad, n = [], 0
    for li in range(len(meta) - 1):
        if meta[li] and meta[li + 1] and meta[li][0] == meta[li + 1][0] and meta[li][1] == meta[li][0] and meta[li + 1][1] != meta[li][0] or \
                (meta[li] and meta[li + 1] and meta[li][0] == meta[li + 1][0] and meta[li][1] == meta[li][0]):
            a = parse_reply(out[li] if li < len(out) else None)
            b = parse_reply(out[li + 1] if li + 1 < len(out) else None)
            n += 1
            if a is None or b is None or (a["codes"], a["m"], a["s"], a["amb"], a["alts"], a["ns"]) != (b["codes"], b["m"], b["s"], b["amb"], b["alts"], b["ns"]):
                bad.append(dict(pattern=meta[li][0], spaced=meta[li + 1][1], doc=meta[li][2],
                                plain=out[li] if li < len(out) else None, with_spaces=out[li + 1] if li + 1 < len(out) else None))
    ctx.extra["whitespace_variations"] = dict(pairs=n, differing=len(bad))
    for b in bad[:5]:
        ctx.fail("whitespace: %s" % b["spaced"], "pattern %r vs %r on %s: %s / %s" % (
            b["pattern"], b["spaced"], b["doc"], b["plain"], b["with_spaces"]), b)


def gen_cases(r, ndocs, npat, maxnodes):
    cases = []
    for _ in range(ndocs):
        doc = g.gen_doc(r, r.range(4, maxnodes))
        g.set_pool(doc)
        pats = []
        for j in range(npat):
            pats.append(g.gen_pattern(r, exotic=(j % 5 == 4)))
        cases.append((doc, pats))
    g.set_pool(None)
    return cases


def run(ctx):
    ctx.rule = ("a case is one (pattern, document) pair: every node of the document is scored by XPath::getMatchScore and "
                "decided by the expression engine; non-trivial = at least one node matches or is selected; distinct = "
                "distinct (pattern text, document XML)")
    ctx.trusted += [
        "harness/c09_patterns.cpp + checks/c09.py + gen/c09_gen.py (generator, comparison, shrinking)",
        "modelled, not verified: pattern tokenizer/parser (only the eMATCH_* op-code assignment is modelled and compared), "
        "namespaces / namespace-declaration attributes, id()/key() pattern steps, whitespace stripping, DOM navigation",
    ]
    ctx.build("hooks")
    # regenerated from the source on every run: getTargetData / addTemplate routing (shared with C10) and the
    # KeyTable constructor's walk; target_data_complete / keytable_visits_complete are re-checked against them
    ctx.translate("c10_priority")
    ctx.translate("c09_keytable")
    ctx.translate("c09_steppredicate")
    ctx.translate("c09_fromroot")
    ctx.translate("c09_nodetester")
    ctx.lean("XalanModel.Props.C09", THEOREMS, extra_targets=["xm_c09"])
    model = ctx.exe("xm_c09")
    harness = common.build_harness("c09_patterns", ["c09_patterns.cpp"], flavor="hooks")
    work = os.path.join(common.CACHE, "work")
    os.makedirs(work, exist_ok=True)
    if model is None:
        return
    global VARIANT
    pv = probe_variant(harness, work)
    ctx.oblige("variant probe: the three probe patterns compile and run on the real library", "correspondence",
               pv is not None, "probe failed")
    VARIANT = pv or (0, 0, 0, 0)
    ctx.extra["variant"] = dict(findAttrFix=VARIANT[0], attrGuard=VARIANT[1], rootGuard=VARIANT[2], backtrack=VARIANT[3],
                                meaning="which proposed repairs (proposed/C09-*.diff) the tree contains; selects the "
                                        "variant of the Lean model; (0,0,0,0) = code as found")
    common.log("  variant of the tree (findAttrFix, attrGuard, rootGuard, backtrack) = %s" % (VARIANT,))
    r = Rng(ctx.seed)
    cases = [(d, list(ps)) for d, ps in CORPUS]
    ncorpus = len(cases)
    cdir = os.path.join(common.ROOT, "gen", "corpus", "c09")
    if os.path.isdir(cdir):
        for f in sorted(os.listdir(cdir)):
            if f.endswith(".json"):
                e = json.load(open(os.path.join(cdir, f)))
                cases.append((e["doc"], [[dict(abs=p["abs"], steps=[(s[0], s[1]) for s in p["steps"]]) for p in P]
                                         for P in e["patterns"]]))
        ncorpus = len(cases)
    if not ctx.thorough:
        cases += gen_cases(r, 2500, 12, 25)
    else:
        cases += gen_cases(r, 6000, 20, 30)
    disagree, bad = process(ctx, harness, model, cases, work, "main", ncorpus)
    if ctx.thorough:
        # small-scope exhaustive: every pattern of <= 2 steps (3 for the relative/'//' core) over a fixed basis on
        # every tree of <= 4 nodes below the root
        trees = g.all_trees(4)
        pats = g.all_patterns(2)
        core = [P for P in g.all_patterns(3) if len(P[0]["steps"]) == 3
                and all(not s["preds"] or s["preds"] == [("i", 1)] for _, s in P[0]["steps"])
                and all(s["test"][0] in ("n", "any") for _, s in P[0]["steps"])]
        ex = [(t, pats) for t in trees]
        chains = [g.chain_doc(list(w)) for n in (3, 4, 5) for w in __import__("itertools").product("ab", repeat=n)]
        ex += [(t, core) for t in chains]
        d2, b2 = process(ctx, harness, model, ex, work, "exh")
        disagree += d2
        bad += b2
        ctx.extra["exhaustive_scope"] = "patterns<=2 steps x %d trees; %d 3-step core patterns x %d chains" % (
            len(trees), len(core), len(chains))
    report(ctx, harness, work, disagree, bad)
    ctx.oblige("no property violation inside the proved pattern class (a violation there would contradict "
               "match_iff_select_partial, i.e. the model would not describe the code)", "correspondence",
               not ctx.extra.get("violations_inside_proved_class"),
               json.dumps(ctx.extra.get("violations_inside_proved_class", [])[:3]))
    use_sites(ctx, cases, REPLIES.get("main", {}), work, 150 if not ctx.thorough else 1500)
    consumer_phase(ctx, cases, work, 20 if not ctx.thorough else 300)
    multikey_phase(ctx, cases, work, 40 if not ctx.thorough else 600)
    xerces_stream(ctx, harness, cases, work, 400 if not ctx.thorough else 6000)
    whitespace_stream(ctx, harness, cases, work, 120 if not ctx.thorough else 1500)
    if VARIANT[3]:
        idkey_stream(ctx, harness, model, work, 300 if not ctx.thorough else 6000, 8)
    ctx.oblige("correspondence: step op codes, XPath::getMatchScore of every node and the expression engine's answer "
               "for every node = Lean model on every generated (pattern, document)", "correspondence", not disagree,
               json.dumps(ctx.extra.get("model_disagreements", [])[:3]))
    ctx.exhaustive = False


def replay(ctx, path):
    d = json.load(open(path))
    ctx.build("hooks")
    common.lake_build(["xm_c09"])
    model = ctx.exe("xm_c09")
    harness = common.build_harness("c09_patterns", ["c09_patterns.cpp"], flavor="hooks")
    work = os.path.join(common.CACHE, "work")
    os.makedirs(work, exist_ok=True)
    inp = d.get("first", {}).get("input")
    if not inp:
        print("replay file names broken obligations only:", [o["name"] for o in d.get("broken_obligations", [])])
        return 1
    if inp.get("multikey"):
        xmlf = os.path.join(work, "c09_replay.xml")
        xslf = os.path.join(work, "c09_replay.xsl")
        with open(xmlf, "w") as f:
            f.write(inp["doc"])
        with open(xslf, "w") as f:
            f.write(multikey_stylesheet(inp["pattern"].split(" ; ")))
        cli = os.path.join(common.build_dir("hooks"), "src", "xalanc", "Xalan")
        rc, out = common.sh([cli, xmlf, xslf], timeout=120)
        print("same-named xsl:key declarations:", inp["pattern"], " document:", inp["doc"])
        print("per node: kind, then per declaration <in key('k','u<j>')><defining expression>")
        print(out)
        badl = [l for l in out.split("\n") if l and any(len(x) == 2 and x[0] != x[1] for x in l.split(" ")[1:])]
        print("every declaration indexes what it matches:", "yes" if rc == 0 and not badl else "NO at %s" % badl)
        return 0 if rc == 0 and not badl else 1
    if "consumer" in inp:
        xmlf = os.path.join(work, "c09_replay.xml")
        xslf = os.path.join(work, "c09_replay.xsl")
        with open(xmlf, "w") as f:
            f.write(inp["doc"])
        with open(xslf, "w") as f:
            f.write(consumer_stylesheet(inp["pattern"], "key(" not in inp["pattern"], "key(" in inp["pattern"]))
        cli = os.path.join(common.build_dir("hooks"), "src", "xalanc", "Xalan")
        rc, out = common.sh([cli, xmlf, xslf], timeout=120)
        print("pattern:", inp["pattern"], " document:", inp["doc"])
        print("per tree kind (M main, D document(), F fragment, N nested fragment) and node: tag kind "
              "<in key('k','1')><template fired><defining expression><xsl:number count finds a node>")
        with open(os.path.join(work, "c09_cons2.xml"), "w") as f:
            f.write(inp["doc"])
        rc, out = common.sh([cli, xmlf, xslf], timeout=120)
        print(out)
        badl = [l for l in out.split("\n") if l and l[1:4] != " # " and len(l) == 8 and not (l[4] in ("-", l[6]) and l[5] == l[6])]
        print("consumers agree with the definition:", "yes" if rc == 0 and not badl else "NO at %s" % badl)
        return 0 if rc == 0 and not badl else 1
    if "request" not in inp:
        # use-site failure: re-run the one pattern as a template match in a stylesheet, against the defining expression
        pat = inp["pattern"] if isinstance(inp["pattern"], str) else inp["pattern"][0]
        xmlf = os.path.join(work, "c09_replay.xml")
        xslf = os.path.join(work, "c09_replay.xsl")
        with open(xmlf, "w") as f:
            f.write(inp["doc"])
        with open(xslf, "w") as f:
            f.write(use_site_stylesheet([], [pat]))
        cli = os.path.join(common.build_dir("hooks"), "src", "xalanc", "Xalan")
        rc, out = common.sh([cli, xmlf, xslf], timeout=120)
        print("pattern:", pat, " document:", inp["doc"])
        print("per node: kind, <template fired><defining expression selects>")
        print(out)
        badl = [l for l in out.split("\n") if l and (len(l.split(" ")) < 2 or l.split(" ")[1][0] != l.split(" ")[1][1])]
        print("property at the use site:", "holds" if rc == 0 and not badl else "VIOLATED at %s" % badl)
        return 0 if rc == 0 and not badl else 1
    global VARIANT
    VARIANT = probe_variant(harness, work) or (0, 0, 0, 0)
    req = os.path.join(work, "c09_replay.req")
    with open(req, "w") as f:
        f.write("\n".join(["variant %d %d %d %d" % VARIANT] + inp["request"]) + "\n")
    il, ml, irc, mrc, ierr, merr = common.run_pair([harness], [model], req)
    print("pattern:", inp["pattern"], " document:", inp["doc"])
    print("implementation:", il[-1] if il else ierr)
    print("model:         ", ml[-1] if ml else merr)
    rep = parse_reply(il[-1] if il else None)
    v = violations(rep) if rep else None
    print("property (score != None <=> selected from an ancestor-or-self) on the implementation:",
          "holds" if v == [] else "VIOLATED at nodes %s" % v)
    return 0 if v == [] else 1
