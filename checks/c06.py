"""C06 — a reused XalanTransformer behaves like a fresh one (DESIGN.md §5 C06, design/C06.md).

proof:          lean/XalanModel/Props/C06.lean over lean/XalanModel/Generated/C06_Reset.lean, which
                translate/c06_reset.py regenerates from /repo's headers and reset()/EnsureReset/doTransform bodies
correspondence: harness/c06_reuse.cpp (random API histories on one real XalanTransformer, incl. aborting
                transformations) vs lean/Driver/C06.lean (the API state machine): return codes, and -- the
                specification predicate -- status+output+error of every transformation compared with a newly
                created transformer configured with the parameters/functions the *specification* says are in force.
"""
import importlib.util
import itertools
import json
import os
import re
import subprocess

from vlib import common
from vlib.common import Rng

CLAIMED = True
LEVEL = "proof"
TECHNIQUE = ("Lean 4 proof over a model regenerated from the source on every run (member tables of the transformer, its execution "
             "context and the objects it owns; fully inlined statement list of ~EnsureReset and of doTransform's set-up; scope-guard, "
             "scratch and stateful-cache site tables) -- a sound static analysis lifted by induction over statement lists, induction "
             "over API histories (simulation with a specification that uses a fresh transformer per call), induction over block "
             "programs / scope-guard programs with exceptions -- plus a correspondence run: random API histories with aborting "
             "transformations on one real XalanTransformer against a newly created one, hook values, memory probe, ASan pass")
LEVEL_TEXT = ("Machine-checked (27 theorems, axioms propext/Classical.choice/Quot.sound): for every member state in which a "
              "transformation can stop, ~EnsureReset restores every member classified transient (reset_restores_partial; hypothesis "
              "MidOk discharged by reset_after_any_abort from the C01 walker statement WalkerPairing), the next transformation starts "
              "from a fresh transformer's state (start_state_independent_partial), sticky/config/const members are never written "
              "(sticky_untouched), members restored by scope guards are restored on every exit and stay fresh over all histories "
              "(scope_guard_restores, guard_sites_all_guarded, guarded_members_stay_fresh), pooled objects are re-initialised in every data "
              "member and long-lived caches are keyed on every input (pooled_objects_reinitialised, cache_keys_complete), and by induction over all finite API "
              "histories every reply equals that of a specification using a new transformer per call (history_independent_partial); "
              "parameters are sticky and last-write-wins (params_sticky, params_follow_spec); every configuration operation has map "
              "semantics, last write wins per key, and every real setter performs a compatible container operation "
              "(config_last_write_wins, config_setters_replace). All tables are regenerated from /repo "
              "each run; a dropped reset statement, an unguarded mutation site, a conditionally set collator attribute, a pooled-object member "
              "no re-initialiser assigns, a cache-key member missing from operator=/==, a new unclassified member each break a named theorem. Random histories on the real library validate the abstraction and "
              "supply replays.")
LEVEL_NOTE = ("Trusted: Lean kernel; translate/c06_reset.py (clang-14 AST for members, regex over comment-stripped #if-resolved "
              "bodies; unrecognised statements are errors); gen/c06_members.json (role of each of the 121 members with code location). "
              "Modelled, not verified: abstraction of a container to a sequence / a pointer to null-ness; hypothesis object "
              "WalkerPairing (every startElement push has its endElement pop, properly nested -- C01 walker_eq_recursion / "
              "variables_balanced -- and indices given to pushCurrentStackFrameIndex lie within the stack); hypothesis object "
              "GuardedCode (C++ block with a CollectionClearGuard = Prog.scope; the translator checks guard-before-first-mutation "
              "syntactically); that the interpreter writes only members of volatile roles; the three `cache` members are covered by "
              "syntactic obligations (scratchSites, statefulCacheSites), not by a semantic proof. The XSLT interpreter's output is not "
              "modelled: equality with a fresh transformer is established by the correspondence run only (quick ~1000 transformations, "
              "thorough ~97000 + ASan), bounded by generator coverage; hook values and the memory probe check what status/output cannot show.")
DESIGN_REF = "DESIGN.md section 5, C06; design/C06.md"

THEOREMS = [
    "XalanModel.Props.C06.all_members_classified",
    "XalanModel.Props.C06.reset_restores_partial",
    "XalanModel.Props.C06.start_state_independent_partial",
    "XalanModel.Props.C06.sticky_untouched",
    "XalanModel.Props.C06.guard_sites_all_guarded",
    "XalanModel.Props.C06.pooled_objects_reinitialised",
    "XalanModel.Props.C06.cache_keys_complete",
    "XalanModel.Props.C06.scratch_qname_history_free",
    "XalanModel.Props.C06.scratch_qname_stale_counterexample",
    "XalanModel.Props.C06.scope_guard_restores",
    "XalanModel.Props.C06.guarded_members_stay_fresh",
    "XalanModel.Props.C06.reset_restores_objstack_counterexample",
    "XalanModel.Props.C06.varstack_index_counterexample",
    "XalanModel.Props.C06.varstack_index_restored",
    "XalanModel.Props.C06.varstack_reset_from_any_history",
    "XalanModel.Props.C06.interpreter_abort_states_midok",
    "XalanModel.Props.C06.reset_after_any_abort",
    "XalanModel.Props.C06.guarded_member_restored",
    "XalanModel.Props.C06.history_independent_partial",
    "XalanModel.Props.C06.params_sticky",
    "XalanModel.Props.C06.config_last_write_wins",
    "XalanModel.Props.C06.config_setters_replace",
    "XalanModel.Props.C06.config_steps_are_map_ops",
    "XalanModel.Props.C06.param_last_write_wins",
    "XalanModel.Props.C06.params_follow_spec",
    "XalanModel.Props.C06.param_overwrite_counterexample",
    "XalanModel.Props.C06.handles_valid_until_destroyed",
]


def _load_gen():
    p = os.path.join(common.ROOT, "gen", "c06_histories.py")
    spec = importlib.util.spec_from_file_location("c06_histories", p)
    m = importlib.util.module_from_spec(spec)
    spec.loader.exec_module(m)
    return m


G = _load_gen()


# ------------------------------------------------------------------------------------------------

def parse_T(line):
    """model reply of a transformation -> dict"""
    d = {}
    for w in line.split()[1:]:
        k, _, v = w.partition("=")
        d[k] = v
    return d


def parse_R(line):
    d = {"raw": line}
    if not line.startswith("R "):
        return d
    for w in line.split()[1:]:
        k, _, v = w.partition("=")
        d[k] = v
    return d


def canon_err(h):
    """error text: drop hex addresses"""
    if not h or h == "-":
        return ""
    try:
        t = bytes.fromhex(h).decode("utf-8", "replace")
    except ValueError:
        return h
    return re.sub(r"0x[0-9a-fA-F]+", "0x", t)


def unhex(h):
    if not h or h == "-":
        return ""
    try:
        return bytes.fromhex(h).decode("utf-8", "replace")
    except ValueError:
        return h


class Runner:
    def __init__(self, harness, model, work):
        self.harness, self.model, self.work = harness, model, work
        self.n = 0

    def run(self, histories, tag, fresh_from="S", _depth=0):
        """histories: list of op lists. Returns list of per-history dicts:
           {status: ok|differs|model|crash, at: index, detail..., transforms: [...]}"""
        self.n += 1
        mreq = os.path.join(self.work, "c06_%s.model.req" % tag)
        hreq = os.path.join(self.work, "c06_%s.req" % tag)
        mlines, owner = [], []
        for hi, ops in enumerate(histories):
            for o in ["new"] + list(ops):
                mlines.append(o)
                owner.append(hi)
        with open(mreq, "w") as f:
            f.write("\n".join(mlines) + "\n")
        p = subprocess.run([self.model], stdin=open(mreq), stdout=subprocess.PIPE, stderr=subprocess.PIPE, timeout=600)
        mout = p.stdout.decode("utf-8", "replace").split("\n")
        if mout and mout[-1] == "":
            mout.pop()
        if p.returncode != 0 or len(mout) != len(mlines):
            raise RuntimeError("model driver failed: rc=%d, %d replies for %d requests: %s" % (
                p.returncode, len(mout), len(mlines), p.stderr.decode("utf-8", "replace")[-500:]))
        # harness request: defs, then each op line (+ a fresh line after each transformation, built from the model reply)
        hlines = list(G.defs())
        ndefs = len(hlines)
        idx = []   # for each model line: (index of op reply in harness output, index of fresh reply or None)
        for i, o in enumerate(mlines):
            a = len(hlines)
            hlines.append(o)
            b = None
            if o.startswith("transform") and mout[i].startswith("T "):
                t = parse_T(mout[i])
                mode = "c" if o.startswith("transform ") else "l" if o.startswith("transformfl ") else "s"
                b = len(hlines)
                # the fresh transformer gets the parameters the SPECIFICATION says are currently set (S), not the model's P
                hlines.append("fresh %s %s %s %s %s %s" % (mode, t["sheet"], t["src"], t[fresh_from], t["F"], t["C"]))
            idx.append((a, b))
        with open(hreq, "w") as f:
            f.write("\n".join(hlines) + "\n")
        p = subprocess.run([self.harness], stdin=open(hreq), stdout=subprocess.PIPE, stderr=subprocess.PIPE, timeout=3600)
        hout = p.stdout.decode("utf-8", "replace").split("\n")
        if hout and hout[-1] == "":
            hout.pop()
        herr = p.stderr.decode("utf-8", "replace")[-2000:]
        res = [{"status": "ok", "transforms": []} for _ in histories]
        dead = set()
        ref_sizes = {}
        pos_in_hist = {}
        for i, o in enumerate(mlines):
            hi = owner[i]
            k = pos_in_hist.get(hi, 0)
            pos_in_hist[hi] = k + 1
            if hi in dead:
                continue
            a, b = idx[i]
            if a >= len(hout) or (b is not None and b >= len(hout)):
                if o == "new" and hi > 0 and res[hi - 1]["status"] == "ok":
                    # the process died on `new`, i.e. while DESTROYING the transformer of the previous history
                    res[hi - 1].update(status="crash", at=len(histories[hi - 1]) - 1, atexit=True,
                                       detail="harness stopped (rc=%s) while destroying the transformer after this history: %s" % (p.returncode, herr[-600:]))
                    res[hi].update(status="notrun")
                    dead.add(hi - 1)
                    hi_first_lost = hi
                else:
                    res[hi].update(status="crash", at=k - 1, detail="harness stopped (rc=%s): %s" % (p.returncode, herr[-600:]))
                    hi_first_lost = hi + 1
                dead.add(hi)
                # every later history is unknown as well
                for hj in range(hi_first_lost, len(histories)):
                    res[hj].update(status="notrun")
                    dead.add(hj)
                continue
            hv, mv = hout[a], mout[i]
            if o == "new":
                # with the hook: the sizes of a brand-new transformer are the reference for this history
                ref_sizes[hi] = dict(x.split("=") for x in hv.partition("sizes=")[2].split(",") if "=" in x)
                hv = hv.split()[0] if hv else hv
            if o.startswith("transform") and mv.startswith("T "):
                t = parse_T(mv)
                r1, r2 = parse_R(hv), parse_R(hout[b])
                rec = {"op": o, "sheet": t["sheet"], "src": t["src"], "rc": r1.get("rc"), "P": t["P"], "S": t["S"], "F": t["F"]}
                res[hi]["transforms"].append(rec)
                same = (r1.get("rc") == r2.get("rc") and r1.get("out") == r2.get("out")
                        and canon_err(r1.get("err")) == canon_err(r2.get("err"))
                        and r1.get("pl") == r2.get("pl") and r1.get("tl") == r2.get("tl"))
                if "rc" not in r1 or "rc" not in r2:
                    res[hi].update(status="model", at=k - 1, detail="unexpected harness reply %r / %r" % (hv[:200], hout[b][:200]))
                    dead.add(hi)
                elif not same:
                    res[hi].update(status="differs", at=k - 1, reused=r1, fresh=r2, model=t,
                                   detail="reused: rc=%s out=%r err=%r listeners=%s/%s | fresh: rc=%s out=%r err=%r listeners=%s/%s" % (
                                       r1.get("rc"), unhex(r1.get("out"))[:300], canon_err(r1.get("err"))[:200], r1.get("pl"), r1.get("tl"),
                                       r2.get("rc"), unhex(r2.get("out"))[:300], canon_err(r2.get("err"))[:200], r2.get("pl"), r2.get("tl")))
                    dead.add(hi)
                elif "sizes" in r1:
                    # guarded hook present: internal sizes right after the call vs the model's prediction
                    # specification: what a brand-new transformer reports (members the model marks `?` -- the
                    # XalanObjectStackCache depths, role `cache`, finding F2 -- are reported but not required)
                    model_post = dict(x.split("=") for x in t["post"].split(",") if "=" in x)
                    got = dict(x.split("=") for x in r1["sizes"].split(",") if "=" in x)
                    ref = ref_sizes.get(hi, {})
                    unknown = [n for n in got if n not in model_post]
                    bad = [(n, ref.get(n), got[n]) for n in sorted(got)
                           if n in model_post and model_post[n] != "?" and ref.get(n) != got[n]]
                    # XalanObjectStackCache members while reset() does not give the objects back (model says `?`)
                    left = [(n, ref.get(n), got[n]) for n in sorted(got)
                            if model_post.get(n) == "?" and ref.get(n) != got[n]]
                    rec["hook"] = True
                    rec["objdepth"] = sum(int(v) for n, v in got.items() if model_post.get(n) == "?")
                    if unknown:
                        res[hi].update(status="model", at=k - 1, detail="hook reports members the model does not know: %s" % unknown)
                        dead.add(hi)
                    elif bad:
                        res[hi].update(status="sizes", at=k - 1, detail="after the call: " + ", ".join(
                            "%s=%s (new transformer: %s)" % (n, g, w) for n, w, g in bad), bad=bad)
                        dead.add(hi)
                    elif left and not res[hi].get("objleft"):
                        # recorded once per history; the history goes on (status/output are still compared)
                        res[hi]["objleft"] = {"at": k - 1, "detail": "after the call: " + ", ".join(
                            "%s=%s (new transformer: %s)" % (n, g, w) for n, w, g in left)}
            else:
                # return codes: exact for destroy*, sign for compile/parse (several negative codes exist)
                ok = hv == mv
                if not ok and o.startswith(("compile", "parse")) and hv.startswith("rc ") and mv.startswith("rc "):
                    ok = (int(hv.split()[1]) < 0) == (int(mv.split()[1]) < 0) and int(hv.split()[1]) <= 0
                if not ok:
                    res[hi].update(status="model", at=k - 1, detail="op %r: implementation %r, model %r" % (o, hv[:200], mv[:200]))
                    dead.add(hi)
        clean_exit = p.returncode == 0
        if not clean_exit and histories and not any(x["status"] == "crash" for x in res) and len(hout) >= len(hlines):
            last = max(i for i, x in enumerate(res) if x["status"] != "notrun")
            if res[last]["status"] == "ok":
                res[last].update(status="crash", at=len(histories[last]) - 1, atexit=True,
                                 detail="every reply was produced but the harness did not exit cleanly (rc=%s): destruction of the last "
                                        "transformer / XalanTransformer::terminate: %s" % (p.returncode, herr[-600:]))
        # a crash loses everything after it: run the remaining histories in a new process (bounded number of restarts)
        crashed = [i for i, x in enumerate(res) if x["status"] == "crash"]
        if crashed and _depth < 6 and tag not in ("shrink", "classify", "objleft"):
            lost = [i for i, x in enumerate(res) if x["status"] == "notrun"]
            if lost:
                k = lost[0]
                res2, _, _, _ = self.run(histories[k:], tag + "_r", fresh_from=fresh_from, _depth=_depth + 1)
                res[k:] = res2
        return res, clean_exit, herr, hreq


def _probe(self, lines):
    req = os.path.join(self.work, "c06_probe.req")
    with open(req, "w") as f:
        f.write("\n".join(list(G.defs()) + lines) + "\n")
    p = subprocess.run([self.harness], stdin=open(req), stdout=subprocess.PIPE, stderr=subprocess.PIPE, timeout=1200)
    out = p.stdout.decode("utf-8", "replace").split("\n")
    nd = len(G.defs())
    res = out[nd:nd + len(lines)]
    return res + ["<no reply: rc=%s>" % p.returncode] * (len(lines) - len(res))


Runner.probe = _probe


def valid(ops):
    sheets, sources = set(), set()
    for o in ops:
        w = o.split()
        if w[0] == "compile" and w[3] == "ok":
            sheets.add(w[1])
        elif w[0] == "parse" and w[3] == "ok":
            sources.add(w[1])
        elif w[0] == "dsheet":
            sheets.discard(w[1])
        elif w[0] == "dsource":
            sources.discard(w[1])
        elif w[0] in ("transform", "transformfl"):
            if w[1] not in sheets or w[2] not in sources:
                return False
    return True


def shrink(runner, ops, want):
    cur = list(ops)
    # cut everything after the failing op first
    r, _, _, _ = runner.run([cur], "shrink")
    if r[0]["status"] == want and "at" in r[0]:
        cur = cur[:r[0]["at"] + 1]
    improved, rounds = True, 0
    while improved and rounds < 120:
        improved = False
        for k in range(len(cur) - (1 if want == "crash" else 2), -1, -1):
            cand = cur[:k] + cur[k + 1:]
            if not cand or not valid(cand):
                continue
            rounds += 1
            r, _, _, _ = runner.run([cand], "shrink")
            if r[0]["status"] == want:
                cur = cand
                improved = True
                break
    r, _, _, _ = runner.run([cur], "shrink")
    return cur, r[0]


def classify_failure(runner, small, last):
    """key of a (shrunk) history on which reused != fresh.  The one listed defect is recognised semantically:
    the model itself (XalanParamHolder semantics, Props.C06.param_overwrite_counterexample) predicts that the
    parameters handed to the stylesheet (P) differ from the specification's (S), some key was set both as an
    expression and as an object, and a fresh transformer given P instead of S agrees with the reused one."""
    tag = "plain"
    m = last.get("model") or {}
    keys_expr = set(o.split()[1] for o in small if o.startswith("setexpr"))
    keys_num = set(o.split()[1] for o in small if o.startswith("setnum"))
    if m and m.get("P") != m.get("S") and (keys_expr & keys_num):
        r, _, _, _ = runner.run([small], "classify", fresh_from="P")
        if r[0]["status"] == "ok":
            tag = "param-set-both-ways"
    # XalanQNameByValue::resolvePrefix keeps the namespace of the previous lookup of the shared scratch QName when a prefix is
    # not declared: recognised by what happens, not by the input -- a NEW transformer reports "prefix ... is not declared",
    # the reused one does not report that error
    fe = canon_err((last.get("fresh") or {}).get("err"))
    re_ = canon_err((last.get("reused") or {}).get("err"))
    if tag == "plain" and "InvalidQNameException" in fe and "is not declared" in fe and "InvalidQNameException" not in re_:
        tag = "undeclared-prefix-qname"
    return "reuse-differs[%s]: %s" % (tag, " ; ".join(small))


def run(ctx):
    ctx.rule = ("a case is one transformation inside an API history on one XalanTransformer (status+output+error compared "
                "with a newly created transformer given the specification's parameters/functions); non-trivial = it runs "
                "after at least one aborted transformation in the same history; distinct = distinct (preceding ops, op) text")
    ctx.trusted += [
        "translate/c06_reset.py + gen/c06_members.json (classification with code locations)",
        "harness/c06_reuse.cpp + gen/c06_histories.py + checks/c06.py (generator, comparison)",
        "modelled, not verified: the XSLT interpreter (only its frame: writes volatile members only; VariablesStack index "
        "within the stack); abstraction of containers to sequences; `cache` members unobservable (argued in gen/c06_members.json)",
    ]
    ctx.build("hooks")
    ok_tr, out_tr = ctx.translate("c06_reset")
    ctx.lean("XalanModel.Props.C06", THEOREMS, extra_targets=["xm_c06"])
    model = ctx.exe("xm_c06")
    harness = common.build_harness("c06_reuse", ["c06_reuse.cpp"], flavor="hooks")
    work = os.path.join(common.CACHE, "work")
    os.makedirs(work, exist_ok=True)
    if model is None or not os.path.exists(model):
        return
    side = {}
    sp = os.path.join(common.GEN, "C06_Reset.json")
    if ok_tr and os.path.exists(sp):
        side = json.load(open(sp))
        ctx.extra["translator"] = {"members": len(side.get("members", [])), "reset_statements": len(side.get("ensureReset", [])),
                                   "setup_statements": len(side.get("setup", [])), "notes": side.get("notes", [])[:20],
                                   "where": side.get("where", {}), "stale_classification_entries": side.get("stale_classification_entries", []),
                                   "objStackResetZeroesDepth": side.get("objStackResetZeroesDepth"),
                                   "paramSetClearsOther": side.get("paramSetClearsOther")}
    runner = Runner(harness, model, work)
    # scratch objects: every member assigned on every non-throwing path of the entry function.  While the defect in
    # XalanQNameByValue::resolvePrefix is unrepaired this is false on the tree as found; it is then reported under the key of
    # the listed finding (so it is a KNOWN-FINDING while listed, a violation otherwise) instead of as a broken theorem
    for what, okp in side.get("scratch_path_sites", []):
        if okp:
            ctx.oblige("scratch object: " + what, "translator", True)
        else:
            ctx.fail("reuse-differs[undeclared-prefix-qname]: translator: NOT(" + what + ")",
                     "the re-used scratch QName of the execution context keeps a member from the previous lookup on some path "
                     "(translate/c06_reset.py, all-paths analysis of the entry function)", ["transformsrc qn_ea_decl d1 1", "transformsrc qn_ea_undecl d1 2"])

    r = Rng(ctx.seed)
    nhist, maxops = (200, 14) if not ctx.thorough else (10000, 24)
    hists = [list(ops) for _, ops in G.CORPUS]
    names = [n for n, _ in G.CORPUS]
    ncorpus = len(hists)
    for i in range(nhist):
        # every other history is a "session": the same compiled stylesheets / parsed sources used again and again
        hists.append(G.gen_session(r, maxops) if i % 2 else G.gen_history(r, maxops))
        names.append("gen")
    if ctx.thorough:
        # small-scope exhaustive: all histories of <= 4 ops over a compact alphabet, each followed by an observer
        alpha = ["setexpr p2 'boom'", "setnum p1 5", "clearparams", "install f1 L1", "transformsrc sw_msg d1 1",
                 "transformsrc msg_deep d2 2", "transformsrc xperr_deep d1 3", "transformsrc sw_fn d1 4",
                 "transformsrc obs_strip d3 5", "transformsrc enc_unknown d1 6"]
        for n in range(1, 5):
            for combo in itertools.product(alpha, repeat=n):
                hists.append(list(combo) + ["transformsrc obs d2 9"])
                names.append("exh")
    state = {"agree": True, "hook": False, "leak": 0}

    def process(rn, hs, res, count):
        for hi, rr in enumerate(res):
            ops = hs[hi]
            aborted_before = False
            for ti, t in enumerate(rr["transforms"]):
                pos = ops.index(t["op"]) if t["op"] in ops else 0
                key = None
                if aborted_before:
                    key = " ; ".join(ops[:pos + 1])
                if count:
                    ctx.case(nontrivial_key=key, sample={"history": ops[:pos + 1], "rc": t["rc"]} if (hi in (ncorpus, ncorpus + 1) and ti == 0) else None,
                             cls="rc=" + str(t["rc"]))
                    ctx.hist["sheet:" + t["sheet"]] = ctx.hist.get("sheet:" + t["sheet"], 0) + 1
                    if t["P"] != t["S"]:
                        ctx.hist["model:P!=S"] = ctx.hist.get("model:P!=S", 0) + 1
                if t["rc"] not in ("0", None):
                    aborted_before = True
                if t.get("hook"):
                    state["hook"] = True
                    state["leak"] = max(state["leak"], t.get("objdepth", 0))
            if rr.get("objleft") and not state.get("objleft_reported"):
                state["objleft_reported"] = True
                ol = rr["objleft"]
                prefix = ops[:ol["at"] + 1]
                last = prefix[-1]
                small = [last]
                if last.startswith(("transform ", "transformfl ")):
                    a, b = last.split()[1:3]
                    cs = [o for o in prefix if o.startswith("compile %s " % a) and o.endswith(" ok")][-1:]
                    ps = [o for o in prefix if o.startswith("parse %s " % b) and o.endswith(" ok")][-1:]
                    small = cs + ps + [last]
                r1, _, _, _ = rn.run([small], "objleft")
                if not r1[0].get("objleft"):
                    small = prefix
                ctx.fail("objects-left-checked-out: " + " ; ".join(small),
                         "an aborted transformation leaves cached objects checked out of the execution context's "
                         "XalanObjectStackCache members for the rest of the transformer's life (hook verifStackSizes): " + ol["detail"], small)
            st = rr["status"]
            if st in ("ok", "notrun"):
                continue
            if st == "crash":
                small, last = shrink(rn, ops, "crash")
                if last.get("status") == "crash":
                    ctx.fail(("crash-at-destruction: " if last.get("atexit") else "crash: ") + " ; ".join(small),
                             "harness died during this history: " + str(last.get("detail"))[:900], small)
                else:
                    state.setdefault("unreproduced", []).append({"history": ops, "detail": rr.get("detail")})
            elif st == "differs":
                m = rr.get("model") or {}
                if ctx.findings:
                    # fast path for listed defects: no need to shrink each of their many occurrences
                    prefix = ops[:rr["at"] + 1]
                    key = classify_failure(rn, prefix, rr)
                    if any(f.get("match") and re.search(f["match"], key) for f in ctx.findings):
                        ctx.fail(key, "a reused transformer and a fresh one disagree on the last operation: " +
                                 str(rr.get("detail"))[:900], prefix, model_reply=m)
                        continue
                small, last = shrink(rn, ops, "differs")
                ctx.fail(classify_failure(rn, small, last), "a reused transformer and a fresh one disagree on the last operation: " +
                         str(last.get("detail"))[:900], small, model_reply=last.get("model"))
            elif st == "sizes":
                small, last = shrink(rn, ops, "sizes")
                ctx.fail("state-left-behind: " + " ; ".join(small),
                         "internal state is not restored after the last operation (hook verifStackSizes): " + str(last.get("detail"))[:900], small)
            elif st == "model":
                state["agree"] = False
                small, last = shrink(rn, ops, "model")
                ctx.extra.setdefault("model_disagreements", []).append({"ops": small, "detail": last.get("detail")})

    # the corpus (minimised past failures, one per seeded break) runs in a process of its own, first: nothing that goes wrong
    # in a generated history can keep one of its cases from running
    res_c, clean_c, herr_c, _ = runner.run(hists[:ncorpus], "corpus")
    res_g, clean_exit, herr, hreq = runner.run(hists[ncorpus:], "main")
    res = res_c + res_g
    if not clean_c:
        clean_exit, herr = False, herr_c
    process(runner, hists, res, True)
    # memory probe (needs no hook): N identical transformations on one transformer that allocates through a counting
    # MemoryManager; the live byte count must not grow per call -- "nothing else carries over" includes memory
    n = 60 if not ctx.thorough else 300
    probes = runner.probe(["leakprobe %s %s %d" % (sh, so, n) for sh, so in G.LEAK_PROBES])
    ctx.extra["leak_probe_bytes_per_call"] = {}
    for (sh, so), line in zip(G.LEAK_PROBES, probes):
        w = line.split()
        if len(w) < 4 or w[0] != "L":
            ctx.oblige("memory probe runs (%s)" % sh, "correspondence", False, line[:300])
            continue
        b1, b2, b3 = int(w[1]), int(w[2]), int(w[3])
        per = (b3 - b2) / float(n - 2 * n // 3)
        ctx.extra["leak_probe_bytes_per_call"][sh] = round(per, 1)
        ctx.case(nontrivial_key="leakprobe " + sh, cls="leakprobe")
        if per > 64 and (b2 - b1) > 0:
            ctx.fail("leak-per-call[%s]: leakprobe %s %s %d" % ("abort" if sh in G.ABORTERS else "success", sh, so, n),
                     "the transformer's memory grows by about %.0f bytes with every transformation of this kind (live bytes after "
                     "%d/%d/%d calls: %d/%d/%d): state is carried over for the transformer's lifetime" % (per, n // 3, 2 * n // 3, n, b1, b2, b3),
                     ["leakprobe %s %s %d" % (sh, so, n)])
    if ctx.thorough:
        # the same histories (corpus + the first 400 generated) against an ASan/UBSan build of the working tree:
        # a stale pointer left behind by a transformation is then a report, not a lucky read
        os.environ.setdefault("ASAN_OPTIONS", "detect_leaks=0")     # the MsgCreator build tool leaks; leaks are not C06's subject
        ctx.build("asan")
        h_asan = common.build_harness("c06_reuse", ["c06_reuse.cpp"], flavor="asan")
        r_asan = Runner(h_asan, model, work)
        sub = hists[:ncorpus + 400]
        res2, clean2, herr2, _ = r_asan.run(sub, "asan")
        process(r_asan, sub, res2, False)
        ctx.extra["asan_histories"] = len(sub)
        if not clean2 and not any(x["status"] == "crash" for x in res2):
            ctx.oblige("harness exits cleanly under ASan/UBSan", "correspondence", False, herr2[-1500:])
    if state.get("unreproduced"):
        # the crash needs more than one history (heap state): look for a short run of consecutive histories that reproduces it
        u = state["unreproduced"][0]
        idx = hists.index(u["history"]) if u["history"] in hists else -1
        found = None
        for back in (1, 2, 4, 8, 16):
            if idx < 0:
                break
            sub = hists[max(0, idx - back):idx + 1]
            r3, clean3, _, _ = Runner(harness, model, work).run(sub, "multi", _depth=99)
            if any(x["status"] == "crash" for x in r3) or not clean3:
                found = sub
                break
        if found:
            flat = " || ".join(" ; ".join(h) for h in found)
            ctx.fail("crash[multi-history]: " + flat, "the harness dies when these histories are run one after the other in one process "
                     "(each on its own transformer): " + str(u["detail"])[:600], found)
        else:
            ctx.oblige("harness survives every history", "correspondence", False,
                       "a crash was seen that neither the history alone nor with up to 16 predecessors reproduces: " + str(u)[:1200])
    agree = state["agree"]
    hook_seen = state["hook"]
    leak_depth = state["leak"]
    ctx.oblige("correspondence: return codes of compile/parse/destroy and validity of handles (real XalanTransformer = Lean API model)",
               "correspondence", agree, str(ctx.extra.get("model_disagreements", [])[:2]))
    if not clean_exit and not any(x["status"] == "crash" for x in res):
        ctx.oblige("harness exits cleanly", "correspondence", False, herr[-1500:])
    ctx.extra["hook_present"] = hook_seen
    ctx.extra["max_objects_left_checked_out"] = leak_depth
    ctx.extra["histories"] = {"corpus": ncorpus, "generated": nhist, "total": len(hists)}
    for ops in hists[ncorpus:ncorpus + 300]:
        for o in ops:
            k = o.split()[0]
            ctx.hist["op:" + k] = ctx.hist.get("op:" + k, 0) + 1
    ctx.exhaustive = False


def replay(ctx, path):
    d = json.load(open(path))
    ops = d["first"]["input"] if "first" in d else []
    ctx.build("hooks")
    ctx.translate("c06_reset")
    common.lake_build(["xm_c06"])
    model = ctx.exe("xm_c06")
    harness = common.build_harness("c06_reuse", ["c06_reuse.cpp"], flavor="hooks")
    work = os.path.join(common.CACHE, "work")
    os.makedirs(work, exist_ok=True)
    if ops and isinstance(ops[0], list):
        res, clean, herr, hreq = Runner(harness, model, work).run(ops, "replay", _depth=99)
        print("histories:", ops)
        print("result:", [x["status"] for x in res], "clean exit:", clean, herr[-300:])
        return 0 if clean and all(x["status"] == "ok" for x in res) else 1
    if ops and ops[0].startswith("leakprobe"):
        out = Runner(harness, model, work).probe(ops)
        print("probe:", ops, "->", out)
        return 0
    if not ops:
        print("replay file names broken obligations only:", [o["name"] for o in d.get("broken_obligations", [])])
        return 1
    res, clean, herr, hreq = Runner(harness, model, work).run([ops], "replay")
    print("history:", ops)
    print("result:", res[0]["status"], res[0].get("detail", ""))
    print("request file:", hreq)
    return 0 if res[0]["status"] == "ok" else 1
