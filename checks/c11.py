"""C11 — an expression has one value, whichever way the caller asks for it (design/C11.md).

translators:    translate/c11_dispatch.py (six executeMore switches + EP overloads), c11_prologue.py (guards of every public execute
                overload), c13_sites.py (C13's: DOMServices string-value funnel), c11_token.py (XToken members, static and
                virtual conversions), c11_caches.py (memo members of recycled XObjects), c11_callers.py (execute overload per
                XSLT caller) -> lean/XalanModel/Generated/C11_*.lean, regenerated from the working tree on every run
proof:          lean/XalanModel/Props/C11.lean over the regenerated tables (decide over the complete finite tables, lifted to
                all expressions by mutual structural induction)
correspondence: harness/c11_entrypoints.cpp: the six public XPath::execute overloads (+ charactersRaw) on one persistent
                execution context / object factory; lean/Driver/C11.lean runs `evalAs Generated.table` on the same expression;
                the same expressions through a stylesheet (xsl:variable, xsl:if, xsl:when, AVT, xsl:value-of, xsl:number,
                xsl:for-each, xsl:sort) with the working tree's Xalan CLI.  On every implementation reply the property itself
                is evaluated, independent of the model.
"""
import json
import os
import struct
import subprocess

from vlib import common
from vlib.common import Rng

CLAIMED = True
LEVEL = "proof"
TECHNIQUE = ("Lean 4 proof over models regenerated from the source on every run by five translators of its own and one shared with C13 (the six "
             "XPath::executeMore switches and the overloads they call; the prologue of every public execute overload; XToken "
             "members and the static/virtual conversion helpers; the memo members of recycled XObjects; the execute overload each "
             "XSLT caller uses; DOMServices' string-value funnel): coherence decided over the complete finite tables "
             "and lifted to all expressions by mutual structural induction; plus a correspondence run of the six public "
             "XPath::execute overloads on one persistent execution context and of the same expressions through a stylesheet")
LEVEL_TEXT = ("Machine-checked over tables regenerated from XPath.cpp/XPath.hpp/XToken/XObject*/XObjectFactoryDefault/XSLT callers: "
              "every op code the generic switch handles is handled by the other five (dispatch_total); every (entry point, op "
              "code) case delivers exactly the standard conversion of the generic value, strings appended (dispatch_coherent, "
              "dispatch_sound); lifted to every expression over the 41 expression op codes, errors included "
              "(eval_ep_eq_conv_eval) and to every XSLT caller of the regenerated caller table "
              "(caller_observes_standard_conversion); literal tokens answer the standard conversions of the value they denote "
              "(token_*); the conversion helpers are the specified ones (static_conversions_as_specified); a recycled XObject "
              "answers like a fresh one iff set() clears every memo member, and it does (recycled_*); event chunking is immaterial "
              "(chars_chunking_admissible); all public execute overloads of a family set up the evaluation identically, current node "
              "included (entry_points_same_prologue), and both string-value recursions of DOMServices hand the execution context on "
              "(string_value_funnel_passes_context). Each run re-evaluates the property itself on ~4 800 (thorough ~25 000) generated, boundary and focus "
              "cases through the six real entry points (current node != context node; strip-space active on a whitespace document) "
              "and through xsl:if/when, AVT, value-of, xsl:number, for-each, sort (number and text).")
LEVEL_NOTE = ("Trusted: Lean kernel; axioms propext/Quot.sound only; the translators (regex normalisation by exact match; "
              "anything unrecognised becomes `.other`, never coherent); the hand transcription of the helpers' operand entry "
              "points (XPath::Or/And/comparisons/arithmetic/function*), validated by running the table-driven Lean interpreter "
              "against the real entry points (bounded by generator coverage); harness, generators and the python predicate. "
              "Parameters of the model, not verified here: IEEE arithmetic, number<->string conversion, XObject comparison, node "
              "string-values/names, document-order insertion (hypothesis nsAdd [] l = l of the main theorem) — C18/C02/C12. Not "
              "modelled: XUnknown values, code inside functions/extension functions, the step/predicate evaluator inside location "
              "paths (opaque leaves), recycling of XResultTreeFrag, text collation in xsl:sort.")
DESIGN_REF = "DESIGN.md section 5, C11; design/C11.md"

THEOREMS = [
    "XalanModel.Props.C11.dispatch_total",
    "XalanModel.Props.C11.dispatch_coherent",
    "XalanModel.Props.C11.emitted_handled",
    "XalanModel.Props.C11.dispatch_sound",
    "XalanModel.Props.C11.eval_ep_eq_conv_eval",
    "XalanModel.Props.C11.chars_chunking_admissible",
    "XalanModel.Props.C11.entry_points_same_prologue",
    "XalanModel.Props.C11.string_value_funnel_passes_context",
    "XalanModel.Props.C11.callers_entry_points",
    "XalanModel.Props.C11.caller_observes_standard_conversion",
    "XalanModel.Props.C11.token_coherent",
    "XalanModel.Props.C11.token_conversions_standard",
    "XalanModel.Props.C11.token_boolean_number_literal",
    "XalanModel.Props.C11.token_boolean_string_literal",
    "XalanModel.Props.C11.static_conversions_as_specified",
    "XalanModel.Props.C11.recycled_objects_clear_memos",
    "XalanModel.Props.C11.recycled_objects_fresh",
    "XalanModel.Props.C11.recycled_like_fresh_iff",
]

EPS = ["obj", "bool", "num", "str", "chars", "nodes"]
TAG = {"obj": "G", "bool": "B", "num": "N", "str": "S", "chars": "C", "nodes": "L"}


def hx8(s):
    return s.encode("utf-8").hex() or "-"


def hx16(s):
    b = s.encode("utf-16-be")
    return b.hex() or "-"


def un16(h):
    return "" if h == "-" else bytes.fromhex(h).decode("utf-16-be", "replace")


def bits_of(x):
    return "%016x" % struct.unpack(">Q", struct.pack(">d", x))[0]


def float_of(b):
    return struct.unpack(">d", struct.pack(">Q", int(b, 16)))[0]


def is_nan(b):
    v = int(b, 16)
    return (v >> 52) & 0x7ff == 0x7ff and (v & ((1 << 52) - 1)) != 0


def same_num(a, b):
    return a == b or (is_nan(a) and is_nan(b))


# ------------------------------------------------------------------------------------------------
# expressions

class E:
    """kind: lit num var path pos last true false name0 lname0 number0 strlen0 | k1 | k2 | union | fn"""
    def __init__(self, kind, src, name=None, kids=(), atomic=True, op=None):
        self.kind, self.src, self.name, self.kids, self.atomic, self.op = kind, src, name, list(kids), atomic, op

    def nodes(self):
        for k in self.kids:
            yield from k.nodes()
        yield self


K0OP = {"lit": "eOP_LITERAL", "num": "eOP_NUMBERLIT", "var": "eOP_VARIABLE", "path": "eOP_LOCATIONPATH",
        "pos": "eOP_FUNCTION_POSITION", "last": "eOP_FUNCTION_LAST", "true": "eOP_FUNCTION_TRUE",
        "false": "eOP_FUNCTION_FALSE", "name0": "eOP_FUNCTION_NAME_0", "lname0": "eOP_FUNCTION_LOCALNAME_0",
        "number0": "eOP_FUNCTION_NUMBER_0", "strlen0": "eOP_FUNCTION_STRINGLENGTH_0"}
K0SRC = {"pos": "position()", "last": "last()", "true": "true()", "false": "false()", "name0": "name()",
         "lname0": "local-name()", "number0": "number()", "strlen0": "string-length()"}
K1 = {"neg": ("eOP_NEG", "-%s"), "group": ("eOP_GROUP", "(%s)"), "count": ("eOP_FUNCTION_COUNT", "count(%s)"),
      "not": ("eOP_FUNCTION_NOT", "not(%s)"), "boolean": ("eOP_FUNCTION_BOOLEAN", "boolean(%s)"),
      "name1": ("eOP_FUNCTION_NAME_1", "name(%s)"), "lname1": ("eOP_FUNCTION_LOCALNAME_1", "local-name(%s)"),
      "floor": ("eOP_FUNCTION_FLOOR", "floor(%s)"), "ceiling": ("eOP_FUNCTION_CEILING", "ceiling(%s)"),
      "round": ("eOP_FUNCTION_ROUND", "round(%s)"), "number1": ("eOP_FUNCTION_NUMBER_1", "number(%s)"),
      "strlen1": ("eOP_FUNCTION_STRINGLENGTH_1", "string-length(%s)"), "sum": ("eOP_FUNCTION_SUM", "sum(%s)")}
K2 = {"or": ("eOP_OR", "or"), "and": ("eOP_AND", "and"), "ne": ("eOP_NOTEQUALS", "!="), "eq": ("eOP_EQUALS", "="),
      "le": ("eOP_LTE", "<="), "lt": ("eOP_LT", "<"), "ge": ("eOP_GTE", ">="), "gt": ("eOP_GT", ">"),
      "plus": ("eOP_PLUS", "+"), "minus": ("eOP_MINUS", "-"), "mult": ("eOP_MULT", "*"), "div": ("eOP_DIV", "div"),
      "mod": ("eOP_MOD", "mod")}
NODESET_ARG = ("count", "name1", "lname1", "sum")
ARITH = {"plus": "add", "minus": "sub", "mult": "mul", "div": "div", "mod": "mod"}
UN = {"neg": "neg", "floor": "floor", "ceiling": "ceil", "round": "round"}

PATHS = ["current()/@a", "current()/*", "current()/..", "current()/@a | @id", "//p:*", "//@p:*", "//*[last()]", "//@*[last()]", "//a", "r/b", "@a", ".", "..", "//zzz", "//a[2]", "*", "//text()", "//@*", "$ns[2]", "(//a)[1]", "//c/..",
         "descendant::a[last()]", "//e", "following-sibling::*", "$ns[. > 1]"]
NPATHS_EMPTYISH = ["//zzz", "$ne"]
VARS = ["t", "f", "n0", "n", "nan", "s", "e", "sn", "ns", "ne", "inf", "rt", "re", "rtx"]
NS_VARS = ["ns", "ne"]
LITS = ["abc", "", "12", " 7 ", "0", "NaN", "-3.5", "x y", "true", "é中"]
NUMS = ["0", "1", "12", "2.5", "0.5", "1000000", "3", "7", "0.25", "100"]
FNS = [("current()", 0), ("concat(current(), %s)", 1), ("concat(%s, %s)", 2), ("string(%s)", 1), ("substring(%s, 2)", 1), ("normalize-space(%s)", 1),
       ("translate(%s, 'abc', 'xyz')", 1), ("starts-with(%s, 'a')", 1), ("contains(%s, '1')", 1),
       ("substring-before(%s, 'c')", 1), ("id(%s)", 1), ("lang('en')", 0), ("string()", 0), ("namespace-uri()", 0),
       ("concat(%s, %s, %s, %s)", 4), ("substring(%s, 1, 2)", 1)]


def wrap(k):
    """operand position: non-atomic operands are parenthesised, which compiles to an eOP_GROUP node"""
    if k.atomic:
        return k
    return E("k1", "(%s)" % k.src, "group", [k], True, "eOP_GROUP")


def mk_k0(kind, text=None):
    if kind == "lit":
        q = "'" if "'" not in text else '"'
        return E("lit", q + text + q, text, op=K0OP[kind])
    if kind == "num":
        return E("num", text, text, op=K0OP[kind])
    if kind == "var":
        return E("var", "$" + text, text, op=K0OP[kind])
    if kind == "path":
        return E("path", text, text, atomic=text not in ("/",) and not text.startswith("-"), op=K0OP[kind])
    return E(kind, K0SRC[kind], op=K0OP[kind])


def mk_k1(name, a):
    op, fmt = K1[name]
    if name in ("neg", "group"):
        a2 = wrap(a) if name == "neg" else a
        # `- -1` is not accepted by the compiler (DESIGN §6 #14): keep one sign
        return E("k1", fmt % a2.src, name, [a2], name == "group", op)
    return E("k1", fmt % a.src, name, [a], True, op)


def mk_k2(name, a, b):
    op, sym = K2[name]
    a, b = wrap(a), wrap(b)
    return E("k2", "%s %s %s" % (a.src, sym, b.src), name, [a, b], False, op)


def mk_union(kids):
    kids = [wrap(k) for k in kids]
    return E("union", " | ".join(k.src for k in kids), None, kids, False, "eOP_UNION")


def mk_fn(fmt, kids):
    return E("fn", fmt % tuple(k.src for k in kids), fmt, kids, True, "eOP_FUNCTION")


EXTS = ["c11:echo(%s)", "c11:str(%s)", "c11:num(%s)", "c11:bool(%s)", "c11:first(%s)"]


def mk_ext(fmt, a):
    return E("ext", fmt % a.src, fmt, [a], True, "eOP_EXTFUNCTION")


def gen_ext(r, depth):
    fmt = r.choice(EXTS)
    return mk_ext(fmt, gen_nodeset(r, depth) if "first" in fmt else gen_any(r, depth))


def gen_nodeset(r, depth):
    if r.chance(1, 25):
        return mk_k0("var", "s")      # not a node-set: every entry point must raise the same error
    c = r.below(10)
    if c < 5 or depth <= 0:
        return mk_k0("path", r.choice(PATHS))
    if c < 7:
        return mk_k0("var", r.choice(NS_VARS))
    if c < 9:
        return mk_union([gen_nodeset(r, depth - 1) for _ in range(r.range(2, 3))])
    return mk_k1("group", gen_nodeset(r, depth - 1))


def gen_any(r, depth):
    if depth <= 0:
        c = r.below(12)
        if c < 3:
            return mk_k0("lit", r.choice(LITS))
        if c < 6:
            return mk_k0("num", r.choice(NUMS))
        if c < 8:
            return mk_k0("var", r.choice(VARS))
        if c < 10:
            return mk_k0("path", r.choice(PATHS))
        return mk_k0(r.choice(["pos", "last", "true", "false", "name0", "lname0", "number0", "strlen0"]))
    c = r.below(20)
    if c < 3:
        return gen_any(r, 0)
    if c < 9:
        return mk_k2(r.choice(list(K2)), gen_any(r, depth - 1), gen_any(r, depth - 1))
    if c < 14:
        name = r.choice(list(K1))
        a = gen_nodeset(r, depth - 1) if name in NODESET_ARG else gen_any(r, depth - 1)
        return mk_k1(name, a)
    if c < 16:
        return gen_nodeset(r, depth)
    if c < 18:
        return gen_ext(r, depth - 1)
    fmt, n = r.choice(FNS)
    if fmt.startswith("id("):
        return mk_fn(fmt, [mk_k0("lit", "i1 i2")])
    return mk_fn(fmt, [gen_any(r, depth - 1) for _ in range(n)])


def gen_top(r, opkey, depth):
    """an expression with the requested construct at the root"""
    if opkey in ("lit",):
        return mk_k0("lit", r.choice(LITS))
    if opkey == "num":
        return mk_k0("num", r.choice(NUMS))
    if opkey == "var":
        return mk_k0("var", r.choice(VARS))
    if opkey == "path":
        # "/" only as a whole expression: inside a union the real addNodesInDocOrder misplaces the root node
        # (a C12 matter, see design/C11.md "observations"); the model's document-order merge would differ
        return mk_k0("path", r.choice(PATHS + ["/"]))
    if opkey in K0SRC:
        return mk_k0(opkey)
    if opkey in K1:
        a = gen_nodeset(r, depth) if opkey in NODESET_ARG else gen_any(r, depth)
        return mk_k1(opkey, a)
    if opkey in K2:
        return mk_k2(opkey, gen_any(r, depth), gen_any(r, depth))
    if opkey == "union":
        return mk_union([gen_nodeset(r, depth) for _ in range(r.range(2, 3))])
    if opkey == "ext":
        return gen_ext(r, depth)
    fmt, n = r.choice(FNS)
    if fmt.startswith("id("):
        return mk_fn(fmt, [mk_k0("lit", "i1 i2")])
    return mk_fn(fmt, [gen_any(r, depth) for _ in range(n)])


TOPS = ["lit", "num", "var", "path"] + list(K0SRC) + list(K1) + list(K2) + ["union", "fn", "ext"]

# ------------------------------------------------------------------------------------------------
# documents / contexts

NSDECL = ' xmlns:c11="urn:c11-ext" xmlns:p="urn:p"'
DOCS = [
    '<r%s a="5" id="i0"><a id="i1">1</a><b>x<c>y</c>z</b><a id="i2">2</a><e/><a>3.5</a><d xml:lang="en">  7 </d><p:q p:w="4">8</p:q></r>' % NSDECL,
    '<r%s><a>12</a><a>abc</a><b a="0">0</b><c/><p:a p:a="1">x<p:b/>y</p:a></r>' % NSDECL,
]
# whitespace-only text at depths 1..3; evaluated with strip-space active (API: `strip 1`; stylesheet: xsl:strip-space elements="*")
WS_DOC = ('<r%s a="5">\n <a id="i1" a="1">\n  <b> <c> Ada </c>\n   <c>Lovelace</c> </b>\n  <d> 42 </d>\n </a>\n <b>x<c> <e> </e>y</c> z</b>\n'
          ' <a a="2"> <b> <c> </c> </b> 7</a>\n <p:q p:w="4"> <a>3</a> </p:q>\n</r>' % NSDECL)
DOCS.append(WS_DOC)
STRIP_DOCS = {WS_DOC}
SHEET_DOCS = [DOCS[0], WS_DOC]


def prelude(doc):
    """request lines that open a session on `doc`"""
    return ["doc " + hx8(doc)] + (["strip 1"] if doc in STRIP_DOCS else []) + VAR_LINES


CTXS = [("/", 0), ("//a", 0), ("//a", 1), ("/r/*", 2), ("//@*", 0), ("//text()", 0), ("//*", 3), ("//p:*", 0), ("//@p:*", 0)]
BUFS = ["", "PRE", "x{"]
VAR_LINES = ["var t b 1", "var f b 0", "var n0 n 0", "var n n 2.5", "var nan n NaN", "var s s " + hx8("abc"), "var e s -",
             "var sn s " + hx8("12"), "var ns ns " + hx8("//a"), "var ne ns " + hx8("//zzz"), "var inf n Infinity",
             "var rt r " + hx8("12"), "var re r -", "var rtx r " + hx8("abc")]


def gen_doc(r):
    def el(d):
        name = r.choice(["a", "b", "c", "a"])
        attrs = "".join(' %s="%s"' % (n, r.choice(["1", "x", "2.5", ""])) for n in r.shuffle(["a", "id"])[:r.below(3)])
        if d <= 0 or r.chance(1, 3):
            return "<%s%s>%s</%s>" % (name, attrs, r.choice(["1", "2", "x", "", "10", " 4 ", "-1"]), name)
        return "<%s%s>%s</%s>" % (name, attrs, "".join(el(d - 1) for _ in range(r.range(1, 3))), name)
    return "<r%s>%s<p:e p:k=\"1\">5</p:e></r>" % (NSDECL, "".join(el(2) for _ in range(r.range(1, 4))))


# ------------------------------------------------------------------------------------------------
# harness / model plumbing

def parse_reply(line):
    if not line or "=" not in line:
        return None
    d = {}
    for f in line.split(" "):
        k, _, v = f.partition("=")
        d[k] = v
    return d


def gval(d):
    """generic value of a harness reply as the model's value token + conversions; None if error/unknown"""
    g = d.get("G", "E")
    p = g.split(":")
    if p[0] == "b":
        return {"tok": "b" + p[1], "num": bits_of(1.0 if p[1] == "1" else 0.0), "str": hx16("true" if p[1] == "1" else "false")}
    if p[0] == "n":
        return {"tok": "n" + p[1], "num": p[1], "str": p[2]}
    if p[0] == "s":
        return {"tok": "s" + p[1], "num": p[2], "str": p[1]}
    if p[0] == "r":
        return {"tok": "r" + p[1], "num": p[2], "str": p[1]}
    if p[0] == "l":
        return {"tok": "l" + p[1], "num": p[3], "str": p[2], "ids": [] if p[1] == "-" else p[1].split(".")}
    return None


def predicate(d, buf):
    """the property on one implementation reply. -> list of (ep, what)"""
    bad = []
    g = d.get("G", "E")
    if g in ("u", "null"):
        return None
    if g == "E":
        for ep in ("bool", "num", "str", "chars", "nodes"):
            if d.get(TAG[ep]) != "E":
                bad.append((ep, "generic evaluation raises an error, %s entry point returns %s" % (ep, d.get(TAG[ep]))))
        return bad
    # (a) "evaluate generally, then convert": the conversions the generic object answers (asked in the order the case chose)
    #     must be the standard conversions of its value, computed directly by the primitives (a recycled object that kept
    #     a memo of its previous value answers something else)
    p = g.split(":")
    if p[0] == "n" and d["GS"] != p[2]:
        bad.append(("generic-conv", "string(generic number) answers %r, NumberToDOMString of the value is %r" % (un16(d["GS"]), un16(p[2]))))
    if p[0] in ("s", "r") and (d["GS"] != p[1] or not same_num(d["GN"], p[2])):
        bad.append(("generic-conv", "generic %s object answers str=%r num=%s, its value is %r / %s" % (
            "string" if p[0] == "s" else "result-tree-fragment", un16(d["GS"]), d["GN"], un16(p[1]), p[2])))
    if p[0] == "l" and (d["GS"] != p[2] or not same_num(d["GN"], p[3]) or d["GB"] != ("0" if p[1] == "-" else "1")):
        bad.append(("generic-conv", "generic node-set object answers bool=%s num=%s str=%r; first node gives %s / %r" % (
            d["GB"], d["GN"], un16(d["GS"]), p[3], un16(p[2]))))
    if p[0] == "r" and d["GB"] != "1":
        bad.append(("generic-conv", "boolean(result tree fragment) answers false"))
    if d.get("GC", "E").split(":")[0] != d["GS"]:
        bad.append(("generic-conv", "character events of the generic object spell %r, its str() is %r" % (d.get("GC"), un16(d["GS"]))))
    # (b) each specialised entry point = standard conversion of the generic result
    if d.get("B") != d.get("GB"):
        bad.append(("bool", "bool entry point gives %s, boolean(generic) is %s" % (d.get("B"), d.get("GB"))))
    if d.get("N") == "E" or not same_num(d.get("N"), d.get("GN")):
        bad.append(("num", "number entry point gives %s, number(generic) is %s" % (d.get("N"), d.get("GN"))))
    want = (hx16(buf) if buf else "") + (d["GS"] if d["GS"] != "-" else "")
    want = want or "-"
    if d.get("S") != want:
        bad.append(("str", "string entry point leaves %r in the caller's string, expected %r (= supplied %r + string(generic))" % (
            un16(d.get("S")) if d.get("S") != "E" else "E", un16(want), buf)))
    c = d.get("C", "E").split(":")[0]
    if c != d["GS"]:
        bad.append(("chars", "character events spell %r, string(generic) is %r" % (un16(c) if c != "E" else "E", un16(d["GS"]))))
    if d.get("CR") != d.get("C"):
        bad.append(("chars", "events through charactersRaw (%s) differ from events through characters (%s)" % (d.get("CR"), d.get("C"))))
    if g.startswith("l:"):
        ids = g.split(":")[1]
        l = d.get("L", "E")
        if l == "E" or l.split(":")[1] != ids:
            bad.append(("nodes", "node-list entry point gives %s, generic node-set is %s" % (l, ids)))
    else:
        if d.get("L") != "E":
            bad.append(("nodes", "node-list entry point returns %s for a non-node-set value" % d.get("L")))
    return bad


def chunk_facts(d):
    """character-event chunking: (events of the entry point, events of the generic object, expected for a fresh node-set)"""
    c = d.get("C", "E")
    if c == "E" or ":" not in c:
        return None
    lens = c.split(":")[1]
    return [] if lens == "-" else [int(x) for x in lens.split(".")]


def minimise_history(hexe, doc, history, case_lines, buf):
    """shortest suffix of the session history after which the last line of case_lines still violates the predicate.
    -> (history lines, still_fails)"""
    def fails(hist):
        H = Harness(hexe)
        try:
            for pl in prelude(doc):
                H.ask(pl)
            reps = H.ask_many(hist + case_lines)
        finally:
            H.close()
        d = parse_reply(reps[-1]) if reps else None
        return bool(d and predicate(d, buf))
    if fails([]):
        return [], True
    n = 1
    while n < len(history):
        if fails(history[-n:]):
            cur = history[-n:]
            # drop single lines greedily
            i = 0
            while i < len(cur) and len(cur) <= 40:
                cand = cur[:i] + cur[i + 1:]
                if fails(cand):
                    cur = cand
                else:
                    i += 1
            return cur, True
        n *= 2
    return history, fails(history)


def model_tokens(e, rep):
    """model expression tokens for AST e; rep maps id(node) -> parsed harness reply"""
    k = e.kind
    if k == "lit":
        return ["lit", hx16(e.name)]
    if k in ("num", "var", "path", "fn", "ext"):
        v = gval(rep[id(e)])
        if k == "num":
            return ["num", v["tok"][1:]] if v and v["tok"][0] == "n" else None
        if k == "var":
            return ["var", v["tok"]] if v else None
        if k == "path":
            return ["path", v["tok"][1:]] if v and v["tok"][0] == "l" else None
        kids = [model_tokens(x, rep) for x in e.kids]
        if any(x is None for x in kids):
            return None
        return [k, v["tok"] if v else "none", str(len(kids))] + [t for x in kids for t in x]
    if k in K0SRC:
        return [k]
    kids = [model_tokens(x, rep) for x in e.kids]
    if any(x is None for x in kids):
        return None
    flat = [t for x in kids for t in x]
    if k == "k1":
        return ["k1", e.name] + flat
    if k == "k2":
        return ["k2", e.name] + flat
    if k == "union":
        return ["union", str(len(kids))] + flat
    return None


def facts_for(e, rep, nodeinfo, ctxnode, facts):
    """primitive facts the model needs, read off the generic evaluation of every sub-expression"""
    for n in e.nodes():
        d = rep[id(n)]
        v = gval(d)
        if v is None:
            continue
        if v["tok"][0] == "n":
            facts.add("fact n2s %s %s" % (v["num"], v["str"]))
        if v["tok"][0] in "slr":
            facts.add("fact s2n %s %s" % (v["str"], v["num"]))
        kv = [gval(rep[id(x)]) for x in n.kids]
        if n.kind == "k2" and all(kv):
            if n.name in ARITH:
                facts.add("fact ar %s %s %s %s" % (ARITH[n.name], kv[0]["num"], kv[1]["num"], v["num"]))
            elif n.name not in ("or", "and"):
                facts.add("fact cmp %s %s %s %s" % (n.name, kv[0]["tok"], kv[1]["tok"], v["tok"][1]))
        if n.kind == "k1" and all(kv):
            if n.name in UN:
                facts.add("fact un %s %s %s" % (UN[n.name], kv[0]["num"], v["num"]))
            if n.name == "sum" and "ids" in kv[0]:
                acc = 0.0
                for i in kv[0]["ids"]:
                    if i == "x":
                        continue
                    x = float_of(nodeinfo[int(i)][3])
                    s = acc + x
                    facts.add("fact ar add %s %s %s" % (bits_of(acc), nodeinfo[int(i)][3], bits_of(s)))
                    acc = s
                # NaN payloads: use the implementation's own bits for the final value
        if n.kind == "number0" and ctxnode is not None:
            facts.add("fact s2n %s %s" % (nodeinfo[ctxnode][2], v["num"]))


class Harness:
    def __init__(self, exe):
        self.p = subprocess.Popen([exe], stdin=subprocess.PIPE, stdout=subprocess.PIPE, stderr=subprocess.DEVNULL, text=True, bufsize=1)

    def ask(self, line):
        self.p.stdin.write(line + "\n")
        self.p.stdin.flush()
        return self.p.stdout.readline().rstrip("\n")

    def ask_many(self, lines):
        # write all, then read all (replies are one line each)
        if not lines:
            return []
        self.p.stdin.write("\n".join(lines) + "\n")
        self.p.stdin.flush()
        return [self.p.stdout.readline().rstrip("\n") for _ in lines]

    def nodes(self):
        self.p.stdin.write("nodes\n")
        self.p.stdin.flush()
        res = []
        while True:
            l = self.p.stdout.readline().rstrip("\n")
            if l == "end" or not l:
                break
            t = l.split(" ")
            res.append((t[2], t[3], t[4], t[5]))
        return res

    def close(self):
        try:
            self.p.stdin.close()
            self.p.wait(timeout=10)
        except Exception:
            self.p.kill()


def opcode_names(side):
    return {v: k for k, v in side["ops"].items()}


def run_cases(ctx, hexe, mexe, cases, side, tag):
    """cases: list of (docidx, doc, ctxexpr, k, buf, E). Runs harness + model, evaluates predicate + correspondence."""
    code2name = opcode_names(side) if side else {}
    stats = {"cases": 0, "skipped": 0, "shape": 0, "model_dis": [], "spec_dis": [], "viol": 0}
    H = Harness(hexe)
    M = Harness(mexe) if mexe else None
    curdoc = None
    nodeinfo = []
    history = []
    try:
        for (di, doc, cx, k, buf, e) in cases:
            if curdoc != di:
                r = H.ask("doc " + hx8(doc))
                if not r.startswith("doc "):
                    raise RuntimeError("harness could not parse document: " + r)
                if doc in STRIP_DOCS:
                    H.ask("strip 1")
                nodeinfo = H.nodes()
                for vl in VAR_LINES:
                    H.ask(vl)
                curdoc = di
                history = []
                if M:
                    M.ask("reset")
                    M.ask_many(["node %d %s %s %s" % (i, a, b, c) for i, (a, b, c, _) in enumerate(nodeinfo)])
                    M.ask_many(["fact s2n %s %s" % (c, d) for (_, _, c, d) in nodeinfo])
            ns = list(e.nodes())
            stats["n"] = stats.get("n", 0) + 1
            order = stats["n"] % 6      # order in which boolean()/num()/str()/events are asked of the generic result
            lines = ["eval %s %d %s %s %d" % (hx8(cx), k, hx8(buf), hx8(n.src), order) for n in ns]
            before = list(history)
            reps = H.ask_many(lines)
            history.extend(lines)
            if any(x in ("compile-error", "bad-context", "bad") or x.startswith("ERR") for x in reps):
                stats["skipped"] += 1
                ctx.hist["skipped:bad-context-or-compile-error"] = ctx.hist.get("skipped:bad-context-or-compile-error", 0) + 1
                continue
            rep = {id(n): parse_reply(x) for n, x in zip(ns, reps)}
            d = rep[id(e)]
            opname = code2name.get(int(d["op"]), d["op"]) if d.get("op", "").lstrip("-").isdigit() else d.get("op")
            inp = {"doc": doc, "context_list": cx, "context_index": k, "supplied_string": buf, "expr": e.src,
                   "top_op": opname, "impl": reps[-1]}
            stats["cases"] += 1
            bad = predicate(d, buf)
            g = d.get("G", "E")
            if doc in SHEET_DOCS:
                stats.setdefault("api", {}).setdefault(doc, []).append((cx, k, buf, e.src, d))
            cls = "top:%s" % opname
            nontriv = (e.src, cx, k, buf) if (g not in ("E", "u")) else None
            ctx.case(nontrivial_key=nontriv, sample=inp if stats["cases"] in (3, 40, 200) else None, cls=cls)
            ctx.hist["generic:" + g.split(":")[0]] = ctx.hist.get("generic:" + g.split(":")[0], 0) + 1
            if bad is None:
                ctx.hist["skipped:unknown-value"] = ctx.hist.get("skipped:unknown-value", 0) + 1
                continue
            if bad:
                # does it need the session history (recycled objects)?  shrink it for the replay
                if stats["viol"] < 3 * 6:
                    hist, still = minimise_history(hexe, doc, before, lines, buf)
                    inp["history"] = hist
                    inp["case_lines"] = lines
                    inp["reproduced_in_fresh_session"] = still
                else:
                    inp["history"] = before[-60:]
                    inp["case_lines"] = lines
            for ep, what in bad:
                stats["viol"] += 1
                key = "ep-disagree[%s,%s]%s%s: %s @%s[%d]" % (ep, opname, "[buf]" if buf and ep == "str" else "",
                                                          "[after %d earlier evaluations]" % len(inp["history"]) if inp.get("history") else "",
                                                          e.src, cx, k)
                ctx.fail(key, what, inp)
            ch = chunk_facts(d)
            if ch is not None:
                if any(x == 0 for x in ch):
                    stats.setdefault("empty_events", []).append(inp)
                gp = d.get("G", "E").split(":")
                total = 0 if d.get("GS", "-") in ("-", "E") else len(d["GS"]) // 4
                if sum(ch) != total or (total == 0 and ch):
                    stats.setdefault("bad_chunks", []).append(inp)
                elif gp[0] == "l" and len(gp) > 4 and total > 0:
                    fresh = [int(x) for x in gp[4].split(".")] if gp[4] != "-" else []
                    if ch != [total] and ch != fresh:
                        stats.setdefault("bad_chunks", []).append(inp)
                elif gp[0] in ("b", "n") and total > 0 and ch != [total]:
                    stats.setdefault("bad_chunks", []).append(inp)
                ctx.hist["events:%s" % ("0" if not ch else "1" if len(ch) == 1 else "many")] = ctx.hist.get(
                    "events:%s" % ("0" if not ch else "1" if len(ch) == 1 else "many"), 0) + 1
            if e.kind == "raw":
                ctx.hist["model:raw-expression"] = ctx.hist.get("model:raw-expression", 0) + 1
                continue
            if opname != e.op:
                stats["shape"] += 1
                ctx.hist["shape-mismatch"] = ctx.hist.get("shape-mismatch", 0) + 1
                continue
            if not M:
                continue
            # the model's node-set primitive is document-order insertion (C12); where the implementation's own
            # generic node-sets are not in document order / not duplicate-free the assumption does not hold
            unordered = False
            for n in ns:
                gv = gval(rep[id(n)])
                if gv and "ids" in gv:
                    ii = [int(x) if x != "x" else -1 for x in gv["ids"]]
                    if any(b <= a for a, b in zip(ii, ii[1:])) or -1 in ii:
                        unordered = True
            if unordered:
                ctx.hist["model:skipped-unordered-nodeset(C12)"] = ctx.hist.get("model:skipped-unordered-nodeset(C12)", 0) + 1
                continue
            toks = model_tokens(e, rep)
            if toks is None:
                ctx.hist["model:not-expressible"] = ctx.hist.get("model:not-expressible", 0) + 1
                continue
            # context node id
            cl_line = "eval %s 0 - %s" % (hx8("/"), hx8(cx))
            cl = parse_reply(H.ask(cl_line))
            history.append(cl_line)
            cv = gval(cl) if cl else None
            if not cv or "ids" not in cv or k >= len(cv["ids"]) or cv["ids"][k] == "x":
                continue
            cnode = int(cv["ids"][k])
            facts = set()
            facts_for(e, rep, nodeinfo, cnode, facts)
            M.ask_many(sorted(facts))
            args = "%d %d %d %s %s" % (cnode, k + 1, len(cv["ids"]), hx16(buf), " ".join(toks))
            mr = parse_reply(M.ask("eval " + args))
            sr = parse_reply(M.ask("spec " + args))
            if mr is None or sr is None:
                stats["model_dis"].append({"input": inp, "model": "bad request: " + args[:300]})
                continue
            # model (table-driven interpreter) vs implementation
            diffs = []
            gi = d["G"].split(":")
            gi = "E" if gi[0] == "E" else gi[0] + ":" + gi[1]
            if mr["O"] != gi and not (gi.startswith("n:") and mr["O"].startswith("n:") and same_num(gi[2:], mr["O"][2:])):
                diffs.append(("obj", gi, mr["O"]))
            for ep in ("bool", "num", "str", "chars", "nodes"):
                iv = d[TAG[ep]]
                if ep == "chars":
                    iv = iv.split(":")[0]
                mv = mr[TAG[ep] if ep != "obj" else "O"]
                if iv != mv and not (ep == "num" and iv != "E" and mv != "E" and same_num(iv, mv)):
                    diffs.append((ep, iv, mv))
            if diffs:
                stats["model_dis"].append({"input": inp, "diffs": diffs})
            # interpreter vs specification inside the model (what eval_ep_eq_conv_eval states)
            sd = [(t, mr[t], sr[t]) for t in ("O", "B", "N", "S", "C") if mr[t] != sr[t]]
            if mr["L"].split(":")[-1] != sr["L"].split(":")[-1]:
                sd.append(("L", mr["L"], sr["L"]))
            if sd:
                stats["spec_dis"].append({"input": inp, "diffs": sd})
    finally:
        H.close()
        if M:
            M.close()
    return stats


def build_cases(r, n_per_op, depth, docs):
    cases = []
    for di, doc in enumerate(docs):
        for opkey in TOPS:
            for _ in range(n_per_op):
                e = gen_top(r, opkey, r.below(depth + 1))
                cx, k = r.choice(CTXS)
                buf = r.choice(BUFS)
                cases.append((di, doc, cx, k, buf, e))
    return cases


# boundary literals for every conversion (deterministic, independent of the seed) -------------------------------------
NUM_BOUND = ["0", "0.0", "00", ".0", "0.", "000.000", "1", "007", ".5", "0.000001", "0.0000000001", "1.5", "2147483647",
             "2147483648", "3000000000", "4294967296", "9007199254740992", "9007199254740993", "9223372036854775807",
             "9223372036854775808", "18446744073709551616", "1000000000000000000000", "123456789012345678901234567890",
             "0.1", "99999999999999999999.5"]
STR_BOUND = ["", "0", "0.0", "00", "-0", "false", "true", " ", "  ", "12", " 12 ", "1e3", "NaN", "Infinity", "-Infinity",
             "-", ".", "+1", "abc", "0x10", "3000000000"]
NAN_EXPRS = ["0 div 0", "number('x')", "'abc' * 1", "-(0 div 0)", "1 div 0", "-1 div 0", "0 * (1 div 0)", "1500000000 * 2",
             "4611686018427387904 * 2", "1 div 3", "2 div 3", "-0.5", "0 * -1", "-(0)", "- 0", "-0.0"]
# every shape a literal can stand in: root, groups, operands of and/or/not/comparisons/arithmetic, function arguments
SHAPES = ["%s", "(%s)", "((%s))", "%s or false()", "false() or %s", "%s and true()", "true() and %s", "(%s) or (%s)",
          "(%s) and (%s)", "not(%s)", "boolean(%s)", "%s = 0", "%s = ''", "%s = false()", "%s != 0", "%s < 1", "%s >= 0", "0 < %s",
          "-%s", "- (%s)", "%s + 0", "0 - %s", "%s * 1", "%s div 1", "%s mod 2", "number(%s)", "string(%s)",
          "string-length(%s)", "floor(%s)", "ceiling(%s)", "round(%s)", "concat(%s, '')", "c11:echo(%s)", "c11:bool(%s)",
          "count(//a) > %s", "$ns = %s", "$rt = %s"]


def boundary_cases(thorough):
    """(docidx, doc, ctx, k, buf, E) for every boundary literal x shape.  The model side uses `raw` expressions only for
    shapes it cannot express; literals at the root / in groups / under and, or, not, comparisons are real ASTs."""
    res = []

    def lit_ast(kind, text):
        return mk_k0(kind, text)

    def build(shape, mk):
        a = mk()
        if shape == "%s":
            return a
        if shape == "(%s)":
            return mk_k1("group", a)
        if shape == "((%s))":
            return mk_k1("group", mk_k1("group", a))
        if shape == "%s or false()":
            return mk_k2("or", a, mk_k0("false"))
        if shape == "false() or %s":
            return mk_k2("or", mk_k0("false"), a)
        if shape == "%s and true()":
            return mk_k2("and", a, mk_k0("true"))
        if shape == "true() and %s":
            return mk_k2("and", mk_k0("true"), a)
        if shape == "(%s) or (%s)":
            return mk_k2("or", mk_k1("group", a), mk_k1("group", mk()))
        if shape == "(%s) and (%s)":
            return mk_k2("and", mk_k1("group", a), mk_k1("group", mk()))
        if shape == "not(%s)":
            return mk_k1("not", a)
        if shape == "boolean(%s)":
            return mk_k1("boolean", a)
        if shape == "%s = 0":
            return mk_k2("eq", a, mk_k0("num", "0"))
        if shape == "%s = ''":
            return mk_k2("eq", a, mk_k0("lit", ""))
        if shape == "%s = false()":
            return mk_k2("eq", a, mk_k0("false"))
        if shape == "%s != 0":
            return mk_k2("ne", a, mk_k0("num", "0"))
        if shape == "%s < 1":
            return mk_k2("lt", a, mk_k0("num", "1"))
        if shape == "%s >= 0":
            return mk_k2("ge", a, mk_k0("num", "0"))
        if shape == "0 < %s":
            return mk_k2("lt", mk_k0("num", "0"), a)
        if shape == "-%s":
            return mk_k1("neg", a)
        if shape == "- (%s)":
            return mk_k1("neg", mk_k1("group", a))
        if shape == "%s + 0":
            return mk_k2("plus", a, mk_k0("num", "0"))
        if shape == "0 - %s":
            return mk_k2("minus", mk_k0("num", "0"), a)
        if shape == "%s * 1":
            return mk_k2("mult", a, mk_k0("num", "1"))
        if shape == "%s div 1":
            return mk_k2("div", a, mk_k0("num", "1"))
        if shape == "%s mod 2":
            return mk_k2("mod", a, mk_k0("num", "2"))
        if shape in ("number(%s)", "floor(%s)", "ceiling(%s)", "round(%s)", "string-length(%s)"):
            return mk_k1({"number(%s)": "number1", "floor(%s)": "floor", "ceiling(%s)": "ceiling", "round(%s)": "round",
                          "string-length(%s)": "strlen1"}[shape], a)
        if shape == "string(%s)":
            return mk_fn("string(%s)", [a])
        if shape == "concat(%s, '')":
            return mk_fn("concat(%s, %s)", [a, mk_k0("lit", "")])
        if shape in ("c11:echo(%s)", "c11:bool(%s)"):
            return mk_ext(shape, a)
        if shape == "count(//a) > %s":
            return mk_k2("gt", mk_k1("count", mk_k0("path", "//a")), a)
        if shape == "$ns = %s":
            return mk_k2("eq", mk_k0("var", "ns"), a)
        if shape == "$rt = %s":
            return mk_k2("eq", mk_k0("var", "rt"), a)
        return None

    items = [("num", x) for x in NUM_BOUND] + [("lit", x) for x in STR_BOUND]
    i = 0
    for kind, text in items:
        for shape in SHAPES:
            e = build(shape, lambda: lit_ast(kind, text))
            if e is None:
                continue
            i += 1
            cx, k = CTXS[i % 3]
            res.append((0, DOCS[0], cx, k, BUFS[i % len(BUFS)], e))
    # computed boundary numbers (NaN, infinities, negative zero, values beyond 2^31 / 2^63, repeating fractions)
    for x in NAN_EXPRS:
        for shape in (SHAPES if thorough else SHAPES[:12] + ["string(%s)", "-%s", "%s + 0", "round(%s)"]):
            i += 1
            src = (shape.replace("%s", "(" + x + ")") if shape != "%s" else x)
            res.append((0, DOCS[0], "/", 0, BUFS[i % len(BUFS)], E("raw", src, op=None)))
    return res



# ------------------------------------------------------------------------------------------------
# the same comparison through a stylesheet (m_inStylesheet == true; the callers named in the property)

SHEET_VARS = [("t", "true()"), ("f", "false()"), ("n0", "0"), ("n", "2.5"), ("nan", "number('NaN')"), ("s", "'abc'"), ("e", "''"),
              ("sn", "'12'"), ("ns", "//a"), ("ne", "//zzz"), ("inf", "1 div 0")]
SHEET_RTFS = [("rt", "12"), ("re", None), ("rtx", "abc")]
TEXT_SORT_KEYS = ["local-name(current())", "local-name()", "translate(concat(local-name(current()), count(current()/*)), ' ', '')",
                  "substring(local-name(), 1, 1)"]
SORT_KEYS = ["current()/@a", "count(current()/*)", "string-length(current())", "current()/@p:w + 1", "string-length(.)", ".", "@a", "string-length()", "count(*)", "number()", "string-length(name())", "- .", "count(.//*) * 2", "'7'", "3",
             "$n", "$rt", "(.)", "0.0", "$nan", "@id", "$ns", "count(//a) - string-length()"]


def sheet_text(cases, sort_keys, strip=False):
    from xml.sax.saxutils import quoteattr
    L = ['<?xml version="1.0" encoding="UTF-8"?>',
         '<xsl:stylesheet version="1.0" xmlns:xsl="http://www.w3.org/1999/XSL/Transform" xmlns:p="urn:p" xmlns:c11="urn:c11-ext" '
         'exclude-result-prefixes="p c11">', '<xsl:output method="xml" encoding="UTF-8"/>']
    if strip:
        L.append('<xsl:strip-space elements="*"/>')
    for n, e in SHEET_VARS:
        L.append('<xsl:variable name="%s" select=%s/>' % (n, quoteattr(e)))
    for n, t in SHEET_RTFS:
        L.append('<xsl:variable name="%s">%s</xsl:variable>' % (n, t if t is not None else '<xsl:if test="false()">x</xsl:if>'))
    L.append('<xsl:template match="/"><out>')
    for i, (cx, k, buf, src, isns) in enumerate(cases):
        q = quoteattr(src)
        avt = quoteattr(buf.replace("{", "{{").replace("}", "}}") + "{" + src + "}")
        L.append('<xsl:for-each select=%s><xsl:if test="position()=%d"><c i="%d">' % (quoteattr(cx), k + 1, i))
        L.append('<xsl:variable name="g" select=%s/>' % q)
        L.append('<gb><xsl:value-of select="boolean($g)"/></gb><gs><xsl:value-of select="string($g)"/></gs>'
                 '<gn><xsl:value-of select="number($g)"/></gn>')
        L.append('<b><xsl:if test=%s>1</xsl:if></b>' % q)
        L.append('<w><xsl:choose><xsl:when test=%s>1</xsl:when><xsl:otherwise>0</xsl:otherwise></xsl:choose></w>' % q)
        L.append('<s v=%s/>' % avt)
        L.append('<v><xsl:value-of select=%s/></v>' % q)
        L.append('<n><xsl:number value=%s/></n><ng><xsl:number value="number($g)"/></ng>' % q)
        if isns:
            L.append('<l><xsl:for-each select=%s><i><xsl:value-of select="generate-id()"/></i></xsl:for-each></l>' % q)
            L.append('<lg><xsl:for-each select="$g"><i><xsl:value-of select="generate-id()"/></i></xsl:for-each></lg>')
        L.append('</c></xsl:if></xsl:for-each>')
    for i, key in enumerate(sort_keys):
        q = quoteattr(key)
        L.append('<sort i="%d"><xsl:for-each select="//*"><xsl:sort select=%s data-type="number"/>'
                 '<k><xsl:value-of select="number(%s)"/></k></xsl:for-each></sort>' % (i, q, key.replace("&", "&amp;").replace("<", "&lt;").replace('"', "&quot;")))
    if sort_keys:
        for i, key in enumerate(TEXT_SORT_KEYS):
            L.append('<tsort i="%d"><xsl:for-each select="//*"><xsl:sort select=%s data-type="text"/>'
                     '<k><xsl:value-of select=%s/></k></xsl:for-each></tsort>' % (i, quoteattr(key), quoteattr(key)))
    L.append('</out></xsl:template></xsl:stylesheet>')
    return "\n".join(L)


def run_sheet(cli, work, doc, cases, sort_keys, tag, strip=None):
    import xml.etree.ElementTree as ET
    dp = os.path.join(work, "c11_%s.xml" % tag)
    sp = os.path.join(work, "c11_%s.xsl" % tag)
    open(dp, "w", encoding="utf-8").write(doc)
    open(sp, "w", encoding="utf-8").write(sheet_text(cases, sort_keys, doc in STRIP_DOCS if strip is None else strip))
    p = subprocess.run([cli, dp, sp], stdout=subprocess.PIPE, stderr=subprocess.PIPE, timeout=600)
    if p.returncode != 0:
        return None, p.stderr.decode("utf-8", "replace")[-600:]
    try:
        return ET.fromstring(p.stdout), ""
    except ET.ParseError as ex:
        return None, "output does not parse: %s" % ex


def sheet_check(c, case, api):
    """-> (property failures [(caller, what)], cross differences with the API run)"""
    cx, k, buf, src, isns = case
    def tx(tag):
        el = c.find(tag)
        return "" if el is None or el.text is None else el.text
    bad, cross = [], []
    gb, gs = tx("gb"), tx("gs")
    if (tx("b") == "1") != (gb == "true"):
        bad.append(("ElemIf", "xsl:if test takes the %s branch, boolean($g) is %s" % ("true" if tx("b") == "1" else "false", gb)))
    if (tx("w") == "1") != (gb == "true"):
        bad.append(("ElemChoose", "xsl:when test is %s, boolean($g) is %s" % (tx("w"), gb)))
    sv = c.find("s").get("v") if c.find("s") is not None else None
    if sv != buf + gs:
        bad.append(("AVTPartXPath", "attribute value template gives %r, expected %r (= %r + string($g))" % (sv, buf + gs, buf)))
    if tx("v") != gs:
        bad.append(("ElemValueOf", "xsl:value-of writes %r, string($g) is %r" % (tx("v"), gs)))
    if tx("n") != tx("ng"):
        bad.append(("ElemNumber", "xsl:number value= formats %r, for number($g) it formats %r" % (tx("n"), tx("ng"))))
    if isns:
        l = [x.text for x in c.find("l")] if c.find("l") is not None else None
        lg = [x.text for x in c.find("lg")] if c.find("lg") is not None else None
        if l != lg:
            bad.append(("ElemForEach", "xsl:for-each select visits %s, over the variable it visits %s" % (l, lg)))
    if api is not None and api.get("GS") not in (None, "E"):
        if un16(api["GS"]) != gs:
            cross.append(("string", un16(api["GS"]), gs))
        if api.get("GB") in ("0", "1") and (api["GB"] == "1") != (gb == "true"):
            cross.append(("boolean", api["GB"], gb))
    return bad, cross


def stylesheet_stream(ctx, api_cases, doc, limit):
    """api_cases: [(cx, k, buf, src, reply dict)] of the raw-API run on `doc`"""
    cli = os.path.join(common.build_dir("hooks"), "src", "xalanc", "Xalan")
    work = os.path.join(common.CACHE, "work")
    os.makedirs(work, exist_ok=True)
    sel = []
    seen = set()
    # round-robin over (top op code, kind of generic value) so that every construct and every value kind gets through
    groups = {}
    for a in api_cases:
        groups.setdefault((a[4].get("op"), a[4].get("G", "E")[:1]), []).append(a)
    order = []
    while any(groups.values()):
        for key in sorted(groups, key=str):
            if groups[key]:
                order.append(groups[key].pop(0))
    for cx, k, buf, src, d in order:
        g = d.get("G", "E")
        if g in ("E", "u", "null") or "c11:" in src or (src, cx, k, buf) in seen:
            continue
        seen.add((src, cx, k, buf))
        sel.append(((cx, k, buf, src, g.startswith("l:")), d))
        if len(sel) >= limit:
            break
    st = {"cases": 0, "errors": [], "cross": [], "viol": 0, "sort": 0, "sort_bad": []}

    def process(batch, sort_keys, tag, depth=0):
        root, err = run_sheet(cli, work, doc, [c for c, _ in batch], sort_keys, tag)
        if root is None:
            if len(batch) > 1 and depth < 12:
                h = len(batch) // 2
                process(batch[:h], [], tag, depth + 1)
                process(batch[h:], [], tag, depth + 1)
            else:
                st["errors"].append({"case": batch[0][0] if batch else sort_keys, "stderr": err})
            return
        got = {int(c.get("i")): c for c in root.findall("c")}
        for i, (case, d) in enumerate(batch):
            c = got.get(i)
            if c is None:
                st["errors"].append({"case": case, "stderr": "no output for this case (context not reached)"})
                continue
            st["cases"] += 1
            bad, cross = sheet_check(c, case, d)
            ctx.case(nontrivial_key=("sheet",) + case[:4], cls="sheet:" + ("nodeset" if case[4] else "value"))
            for caller, what in bad:
                st["viol"] += 1
                inp = {"sheet": True, "doc": doc, "context_list": case[0], "context_index": case[1], "supplied_string": case[2],
                       "expr": case[3], "is_nodeset": case[4]}
                ctx.fail("sheet-disagree[%s]: %s @%s[%d]" % (caller, case[3], case[0], case[1]), what, inp)
            for x in cross:
                st["cross"].append({"case": case, "diff": x})
        for s in root.findall("tsort"):
            vals = [(kx.text or "") for kx in s.findall("k")]
            st["sort"] += 1
            # keys are lower-case ASCII letters/digits only: any collation orders them alphabetically
            if any(b.lower() < a.lower() for a, b in zip(vals, vals[1:])):
                key = TEXT_SORT_KEYS[int(s.get("i"))]
                st["sort_bad"].append({"key": key, "order": vals})
                ctx.fail("sheet-disagree[NodeSorter]: xsl:sort select=%s data-type=text" % key,
                         "nodes come out in an order that is not ascending in string(key): %s" % vals[:20],
                         {"sheet": True, "doc": doc, "sort_key": key, "text": True})
        for s in root.findall("sort"):
            vals = []
            for kx in s.findall("k"):
                t = kx.text or ""
                try:
                    vals.append(float(t.replace("Infinity", "inf")))
                except ValueError:
                    vals.append(float("nan"))
            fin = [v for v in vals if v == v]
            st["sort"] += 1
            if any(b < a for a, b in zip(fin, fin[1:])):
                key = sort_keys[int(s.get("i"))]
                st["sort_bad"].append({"key": key, "order": vals})
                ctx.fail("sheet-disagree[NodeSorter]: xsl:sort select=%s data-type=number" % key,
                         "nodes come out in an order that is not ascending in number(key): %s" % vals[:20],
                         {"sheet": True, "doc": doc, "sort_key": key})
    for b0 in range(0, len(sel), 250):
        process(sel[b0:b0 + 250], SORT_KEYS if b0 == 0 else [], "sheet%d" % (b0 // 250))
    return st


FOCUS_EXPRS = [".", "*", "//a", "//b", "/r", "/", "..", "current()", "current()/*", "current()/..", "string-length(.)",
               "string-length(//a)", "string-length(/)", "string-length(current())", "string-length(*)", "string(.)", "concat(., '')",
               ". = 'AdaLovelace42'", "normalize-space(.)", "count(current()/*)", "current()/@a", "current() = .", "name(current())",
               "sum(current()/@a)", "current()/@a + 1", "number(current()/@a)", "-current()/@a", "boolean(current()/@zz)",
               "//c[. = current()//c]", "current()/@a > 1", "(current()/@a)", "current()/@a | current()/@id", "round(current()/@a)",
               "string-length(current()/*)", "translate(., ' ', '_')", "substring(., 1, 3)", "contains(., ' ')", "starts-with(., ' ')",
               "local-name(current()/*)", "c11:echo(current())", "c11:str(.)", "$rt + current()/@a", "not(current()/@a)"]
FOCUS_CTXS = [("/", 0), ("/r/a", 0), ("/r/a", 1), ("//b", 0), ("//c", 1), ("/r/*", 1), ("/r/*", 3), ("//@a", 1)]


def focus_cases():
    """deterministic: expressions using current() and string-values of nodes with nested whitespace-only text, at contexts of
    depth 0..3, on the plain document and on the whitespace document (strip-space active); current node != context node"""
    res = []
    i = 0
    for di, doc in ((0, DOCS[0]), (len(DOCS) - 1, WS_DOC)):
        for cx, k in FOCUS_CTXS:
            for x in FOCUS_EXPRS:
                i += 1
                res.append((di, doc, cx, k, BUFS[i % len(BUFS)], E("raw", x, op=None)))
    return res


def corpus_cases():
    """minimised past failures first (gen/corpus/c11/*.json)"""
    res = []
    cdir = os.path.join(common.ROOT, "gen", "corpus", "c11")
    if os.path.isdir(cdir):
        for f in sorted(os.listdir(cdir)):
            if f.endswith(".json"):
                for c in json.load(open(os.path.join(cdir, f))):
                    res.append((1000 + len(res), c["doc"], c["context_list"], c["context_index"], c["supplied_string"],
                                E("raw", c["expr"], op=c.get("top_op"))))
    return res


def run(ctx):
    ctx.rule = ("a case = one expression (generated from VERIF_SEED, every expression op code at the root) evaluated on one "
                "document/context/supplied string through all six public XPath::execute overloads; non-trivial = the generic "
                "evaluation yields a value (not an error/unbound variable); distinct = distinct (expression, context, string)")
    ctx.trusted += [
        "translate/c11_dispatch.py (normalisation of the switch case bodies; unrecognised statements become `.other`, never coherent)",
        "harness/c11_entrypoints.cpp + checks/c11.py (generator, canonicalisation, the property predicate on implementation replies)",
        "modelled as parameters (facts taken from the generic evaluation): IEEE arithmetic, number<->string, XObject comparison, "
        "node string-values, document-order insertion; hand transcription of the helpers' operand entry points",
    ]
    ctx.build("hooks")
    ok_t, out_t = ctx.translate("c11_dispatch")
    ok_c, out_c = ctx.translate("c11_caches")
    ok_k, out_k = ctx.translate("c11_token")
    ok_l, out_l = ctx.translate("c11_callers")
    ok_p, out_p = ctx.translate("c11_prologue")
    ok_s, out_s = ctx.translate("c13_sites")       # C13's translator: its valueSitesFunnel table is reused (as C09 reuses C10's)
    ok_t = ok_t and ok_c and ok_k and ok_l and ok_p and ok_s
    side = None
    sp = os.path.join(common.CACHE, "c11_dispatch.json")
    if ok_t and os.path.exists(sp):
        side = json.load(open(sp))
    lean_ok = ctx.lean("XalanModel.Props.C11", THEOREMS, extra_targets=["xm_c11"]) if ok_t else False
    mexe = None
    if ok_t:
        if not lean_ok:
            common.lake_build(["xm_c11"])     # the driver does not depend on the Props module
        p = os.path.join(common.LEAN, ".lake", "build", "bin", "xm_c11")
        mexe = p if os.path.exists(p) and (lean_ok or common.lake_build(["xm_c11"])[0] == 0) else None
    hexe = common.build_harness("c11_entrypoints", ["c11_entrypoints.cpp"], flavor="hooks")

    incoh = []
    if mexe:
        M = Harness(mexe)
        t = M.ask("table")
        M.close()
        ctx.extra["model_table"] = t
        if "incoherent=" in t:
            inc = t.split("incoherent=")[1]
            incoh = [] if inc == "-" else [x.split(":") for x in inc.split(",")]
        ctx.oblige("regenerated tables: no incoherent (entry point, op code) pair, all switches total", "translator",
                   not incoh and "total=true" in t, t)

    r = Rng(ctx.seed)
    docs = list(DOCS)
    for _ in range(1 if not ctx.thorough else 6):
        docs.append(gen_doc(r))
    n_per_op, depth = (7, 2) if not ctx.thorough else (40, 3)
    bcases = boundary_cases(ctx.thorough)
    ctx.extra["boundary_cases"] = len(bcases)
    cases = corpus_cases() + bcases + focus_cases() + build_cases(r, n_per_op, depth, docs)
    cases.sort(key=lambda c: c[0])
    if incoh or not lean_ok:
        # model-guided search (DESIGN §3.3): more witnesses with the named op codes at the root, every supplied string
        r2 = Rng(ctx.seed + 7919)
        name2key = {}
        for k in TOPS:
            name2key.setdefault(gen_top(Rng(1), k, 0).op, k)
        wanted = sorted(set(name2key.get(op) for _, op in incoh if name2key.get(op))) or TOPS
        for opkey in wanted:
            for buf in BUFS:
                for cx, k in CTXS:
                    for _ in range(3):
                        cases.append((0, DOCS[0], cx, k, buf, gen_top(r2, opkey, r2.below(2))))
        cases.sort(key=lambda c: c[0])
    st = run_cases(ctx, hexe, mexe, cases, side, "main")
    api_cases = st.pop("api", {})
    ctx.extra["stream"] = {k: (v if not isinstance(v, list) else len(v)) for k, v in st.items()}
    # the same expressions through a stylesheet: ElemVariable (generic), ElemIf/ElemChoose (bool), AVTPartXPath (string),
    # ElemValueOf (events), ElemNumber/NodeSorter (number), ElemForEach (node list); literals are XToken-backed objects there;
    # once on the plain document and once on the whitespace document under xsl:strip-space
    sh = {"cases": 0, "errors": [], "cross": [], "viol": 0, "sort": 0, "sort_bad": []}
    for sd in SHEET_DOCS:
        one = stylesheet_stream(ctx, api_cases.get(sd, []), sd, (600 if sd is DOCS[0] else 450) if not ctx.thorough else 4000)
        for k2, v2 in one.items():
            sh[k2] = sh[k2] + v2
    ctx.extra["stylesheet_stream"] = {k: (v if not isinstance(v, list) else len(v)) for k, v in sh.items()}
    ctx.oblige("stylesheet stream: every selected expression evaluates in the stylesheet as it did through the API (no transformation error)",
               "correspondence", not sh["errors"], json.dumps(sh["errors"][:3])[:1500])
    ctx.oblige("stylesheet stream: string()/boolean() of the generic value in the stylesheet (m_inStylesheet) = through the XPath API",
               "correspondence", not sh["cross"], json.dumps(sh["cross"][:3])[:1500])
    ctx.oblige("stylesheet stream is not vacuous (>= 300 cases, >= 10 sort keys)", "coverage", sh["cases"] >= 300 and sh["sort"] >= 20,
               str({k: v for k, v in sh.items() if not isinstance(v, list)}))
    if mexe:
        ctx.oblige("correspondence: six real entry points = table-driven Lean interpreter (evalAs Generated.table) on every generated case",
                   "correspondence", not st["model_dis"], json.dumps(st["model_dis"][:3])[:1800])
        ctx.oblige("model self-check: evalAs = stdConv∘eval on every generated case (instance of eval_ep_eq_conv_eval)",
                   "correspondence", not st["spec_dis"], json.dumps(st["spec_dis"][:3])[:1800])
    ctx.oblige("character events: no entry point delivers an empty event (chunking model: zero events for the empty string)",
               "correspondence", not st.get("empty_events"), json.dumps(st.get("empty_events", [])[:2])[:1200])
    ctx.oblige("character events: every cut is one the chunking model admits (sum of event lengths = length of string(generic); "
               "node-set: per text node of the first node or memoised whole; boolean/number: one event)",
               "correspondence", not st.get("bad_chunks"), json.dumps(st.get("bad_chunks", [])[:2])[:1200])
    ctx.oblige("stream is not vacuous (>= 200 evaluated cases, every expression op code reached at the root)", "coverage",
               st["cases"] >= 200 and all(("top:" + o) in ctx.hist for o in
                                          ([v[0] for v in K1.values()] + [v[0] for v in K2.values()] + list(K0OP.values()) +
                                           ["eOP_UNION", "eOP_FUNCTION", "eOP_EXTFUNCTION"])),
               str(sorted(k for k in ctx.hist if k.startswith("top:"))))
    ctx.exhaustive = False


def replay(ctx, path):
    d = json.load(open(path))
    inp = d.get("first", {}).get("input")
    if not inp:
        print("replay file names broken obligations only:", [o["name"] for o in d.get("broken_obligations", [])])
        return 1
    ctx.build("hooks")
    if inp.get("sheet"):
        cli = os.path.join(common.build_dir("hooks"), "src", "xalanc", "Xalan")
        work = os.path.join(common.CACHE, "work")
        os.makedirs(work, exist_ok=True)
        if "sort_key" in inp:
            root, err = run_sheet(cli, work, inp["doc"], [], [inp["sort_key"]], "replay")
            print("sort key:", inp["sort_key"], "->", [k.text for k in root.iter("k")] if root is not None else err)
            return 1
        case = (inp["context_list"], inp["context_index"], inp["supplied_string"], inp["expr"], inp.get("is_nodeset", False))
        root, err = run_sheet(cli, work, inp["doc"], [case], [], "replay")
        if root is None:
            print("transformation failed:", err)
            return 1
        import xml.etree.ElementTree as ET
        c = root.find("c")
        print("stylesheet case:", case)
        print("output:", ET.tostring(c, encoding="unicode") if c is not None else None)
        bad, _ = sheet_check(c, case, None) if c is not None else ([("?", "no output")], [])
        for caller, what in bad:
            print("PROPERTY VIOLATED [%s]: %s" % (caller, what))
        if not bad:
            print("property holds on this input")
        return 1 if bad else 0
    hexe = common.build_harness("c11_entrypoints", ["c11_entrypoints.cpp"], flavor="hooks")
    H = Harness(hexe)
    for pl in prelude(inp["doc"]):
        H.ask(pl)
    if inp.get("case_lines"):
        reps = H.ask_many(list(inp.get("history", [])) + list(inp["case_lines"]))
        line = reps[-1]
        print("session history: %d earlier evaluation(s) on the same execution context / object factory" % len(inp.get("history", [])))
        for h in inp.get("history", []):
            t = h.split(" ")
            print("   ", bytes.fromhex(t[4]).decode(), " @", bytes.fromhex(t[1]).decode(), t[2])
    else:
        line = H.ask("eval %s %d %s %s" % (hx8(inp["context_list"]), inp["context_index"], hx8(inp["supplied_string"]), hx8(inp["expr"])))
    H.close()
    rep = parse_reply(line)
    print("expression:", inp["expr"], " context:", inp["context_list"], inp["context_index"], " supplied string:", repr(inp["supplied_string"]))
    print("implementation:", line)
    bad = predicate(rep, inp["supplied_string"]) if rep else [("?", "no reply")]
    for ep, what in bad or []:
        print("PROPERTY VIOLATED [%s]: %s" % (ep, what))
    if not bad:
        print("property holds on this input")
    return 1 if bad else 0
