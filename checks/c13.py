"""C13 — whitespace stripping acts as if the stripped text nodes were not in the source (DESIGN.md §5 C13).

proof:          lean/XalanModel/Props/C13.lean
                  * the ordered tester list built by addWhitespaceElement + the import merge, read first-match,
                    decides exactly what XSLT 1.0 §3.4/§2.6.2 prescribe (import precedence, priority, last one);
                  * strip_simulation: the strip-aware evaluator (node tests and string-values ask `strip`) on D
                    = the plain evaluator on the physically stripped D', for every expression of the fragment.
correspondence: harness/c13_strip.cpp (real StylesheetRoot::shouldStripSourceNode on every text node of a parsed
                source; real transformations through XalanTransformer) vs lean/Driver/C13.lean (xm_c13).
specification predicate on the implementation (independent of the model):
                transform(stylesheet with declarations, D) == transform(same stylesheet without them, D') where D'
                is computed by gen/c13_gen.py from XSLT §3.4, for stylesheets exercising every observation path.
"""
import json
import os
import re
import shutil
import sys

from vlib import common
from vlib.common import Rng

sys.path.insert(0, os.path.join(common.ROOT, "gen"))
import c13_gen as G  # noqa: E402

CLAIMED = True
LEVEL = "proof"
TECHNIQUE = ("Lean 4 proofs (tester ordering + xml:space walk = XSLT 3.4; simulation of the strip-aware evaluator, copy-of, "
             "key tables, select contexts, sort keys and all three xsl:number levels by their plain counterparts on the "
             "physically stripped tree, by induction on expressions/trees) + translator (inventory of every "
             "shouldStripSourceNode call site and of the ordering / xml:space statements, re-proved each run) + "
             "correspondence of the model with the real shouldStripSourceNode / XPath / copy-of / key() / xsl:number on "
             "XalanSourceTree and Xerces-DOM sources + differential runs (declared vs pre-stripped) through XalanTransformer")
LEVEL_TEXT = ("Machine-checked: (1) for every import tree of strip/preserve declarations, every parent element (name and "
              "xml:space state) and every text node, the first match in the list built by Stylesheet::addWhitespaceElement "
              "and merged by postConstruction, together with the xml:space ancestor walk, decides exactly what XSLT 1.0 "
              "3.4 prescribes (import precedence, priority, last one; preserved under xml:space=preserve); (2) for every "
              "document, every strip function and every expression of the modelled XPath fragment (13 axes from element, "
              "text, comment, PI, document, attribute and namespace context nodes; all node tests; up to two predicates per step; "
              "union; filter; node-set variables; position/last/count/string/string-length/local-name/normalize-space/"
              "=/</+/-/and/or/not/boolean/concat/contains/starts-with), evaluation that asks `strip` at the node tests and "
              "in string-values equals evaluation on the physically stripped document (node-sets correspond, strings/"
              "numbers/booleans equal); the same for the events of xsl:copy-of, key() tables, for-each/apply-templates "
              "contexts, xsl:sort keys, match/count/from/key patterns with predicates and several steps read as "
              "expressions, xsl:number level single/multiple and level any with or without from (including that the C++ "
              "backwards walk computes the Recommendation's count), key() with a node-set argument. Tied to the working tree by a "
              "translator (7 shouldStripSourceNode call sites, 15 ordering statements, 36 string-value sites outside "
              "DOMServices that must hand on the execution context, 46 calls of the strip-aware funnel inside it and the 34 "
              "statements by which the stylesheet context forwards to its inner never-stripping XPath context, "
              "re-proved each run), by calling the real StylesheetRoot::shouldStripSourceNode on "
              "every text node and the real XPath/copy-of/key()/xsl:number through XalanTransformer on both source "
              "representations (XalanSourceTree, Xerces DOM; with and without DTD-declared element content), and by "
              "differential transformations (with declarations on D vs without on D') over 34 stylesheet bodies (extension functions included).")
LEVEL_NOTE = ("Trusted: Lean kernel; axioms propext/Classical.choice/Quot.sound only; the hand transcription of "
              "Stylesheet.cpp/StylesheetRoot.cpp/XPath.cpp NodeTester/DOMServices/ElemNumber.cpp/KeyTable and the evaluator "
              "model (validated by the correspondence streams, bounded by generator coverage); gen/c13_gen.py (renderers, "
              "the python transcription of XSLT 3.4 that produces D'). Not modelled (named gaps, design/C13.md section 2): "
              "id(), name(), attribute/namespace nodes as key/count targets, string->number conversions, "
              "document() inside the evaluator, the XSLT instruction interpreter itself (template selection, sort "
              "comparator, RTF construction) - those are covered by the differential runs only; that the library's "
              "pattern matcher equals the expression reading of a pattern is property C09.")
DESIGN_REF = "DESIGN.md section 5, C13; design/C13.md"

THEOREMS = [
    "XalanModel.Props.C13.firstMatch_eq_spec",
    "XalanModel.Props.C13.shouldStrip_eq_spec",
    "XalanModel.Props.C13.bestIn_characterisation",
    "XalanModel.Props.C13.xml_space_walk_eq_spec",
    "XalanModel.Props.C13.xml_space_inherited",
    "XalanModel.Props.C13.strip_simulation",
    "XalanModel.Props.C13.strip_simulation_string",
    "XalanModel.Props.C13.strip_simulation_stylesheet",
    "XalanModel.Props.C13.results_never_stripped",
    "XalanModel.Props.C13.strVal_strip",
    "XalanModel.Props.C13.forgetful_nodeTest_counterexample",
    "XalanModel.Props.C13.axes_simulation",
    "XalanModel.Props.C13.axes_with_attributes_simulation",
    "XalanModel.Props.C13.node_test_simulation",
    "XalanModel.Props.C13.position_last_simulation",
    "XalanModel.Props.C13.variable_binding_simulation",
    "XalanModel.Props.C13.rtf_variable_simulation",
    "XalanModel.Props.C13.count_simulation",
    "XalanModel.Props.C13.value_of_root_simulation",
    "XalanModel.Props.C13.generate_id_stable",
    "XalanModel.Props.C13.pattern_simulation",
    "XalanModel.Props.C13.multi_step_pattern_law",
    "XalanModel.Props.C13.apply_templates_default_children",
    "XalanModel.Props.C13.select_contexts_simulation",
    "XalanModel.Props.C13.sort_keys_simulation",
    "XalanModel.Props.C13.copy_of_simulation",
    "XalanModel.Props.C13.key_simulation",
    "XalanModel.Props.C13.key_argument_simulation",
    "XalanModel.Props.C13.number_single_multiple_simulation",
    "XalanModel.Props.C13.number_any_loop_eq_count",
    "XalanModel.Props.C13.number_any_count_simulation",
    "XalanModel.Props.C13.number_any_simulation",
    "XalanModel.Props.C13.observation_sites_accounted",
    "XalanModel.Props.C13.ordering_code_as_modelled",
    "XalanModel.Props.C13.string_value_sites_strip_aware",
    "XalanModel.Props.C13.string_value_funnel_passes_context",
    "XalanModel.Props.C13.context_forwarding_as_reviewed",
]

# ------------------------------------------------------------------------------------------------------


def work_dir(ctx, tag="main"):
    d = os.path.join(common.CACHE, "work", "c13_%s_%d_%s" % (ctx.tier, ctx.seed, tag))
    shutil.rmtree(d, ignore_errors=True)
    os.makedirs(d)
    return d


def write_case(d, cid, files, doc_text):
    for fn, txt in files.items():
        with open(os.path.join(d, fn), "w", encoding="utf-8") as f:
            f.write(txt)
    with open(os.path.join(d, cid + ".xml"), "w", encoding="utf-8") as f:
        f.write(doc_text)


def make_lines(d, case, cid):
    """Writes the files of one case; returns [(line, role)]"""
    kind = case["kind"]
    sheet, doc = case["sheet"], case["doc"]
    ix = not case.get("xerces")
    st, dt = G.sheet_tokens(sheet), G.doc_tokens(doc, implicit_xml=ix)
    sfx = "x" if case.get("xerces") else ""      # source parsed into a Xerces DOM instead of the XalanSourceTree
    if kind == "strip":
        write_case(d, cid, G.render_sheet(sheet, cid, G.OUT_XML), G.render_doc(doc, dtd=case.get("dtd", False)))
        return [("strip%s %s %s ; %s" % (sfx, cid, " ".join(st), " ".join(dt)), "strip")]
    hx = case.get("xmlspace", True)
    doc2 = G.strip_doc(sheet, doc, honour_xml_space=hx)
    if kind in ("eval", "copy", "key", "keyarg", "number", "numbersm"):
        if kind == "eval":
            body = G.eval_body(case["expr"])
            et = " ".join(G.expr_tokens(case["expr"]))
        elif kind == "copy":
            body = G.copy_body(case["expr"])
            et = " ".join(G.expr_tokens(case["expr"]))
        elif kind == "key":
            body = G.key_body(case["match"], case["use"], case["lit"])
            et = "%s ; %s ; %s" % (G.pat_tokens(case["match"]), " ".join(G.expr_tokens(case["use"])), G.hex_units(case["lit"]))
        elif kind == "keyarg":
            body = G.keyarg_body(case["match"], case["use"], case["arg"])
            et = "%s ; %s ; %s" % (G.pat_tokens(case["match"]), " ".join(G.expr_tokens(case["use"])), " ".join(G.expr_tokens(case["arg"])))
        elif kind == "numbersm":
            body = G.numbersm_body(case["count"], case["from"], case["level"])
            et = "%s ; %s ; %s" % (G.pat_tokens(case["count"]), G.pat_tokens(case["from"]), case["level"])
        else:
            body = G.number_body(case["count"], case["from"])
            et = "%s ; %s" % (G.pat_tokens(case["count"]), G.pat_tokens(case["from"]))
        write_case(d, cid + "a", G.render_sheet(sheet, cid + "a", body), G.render_doc(doc, dtd=case.get("dtd", False)))
        write_case(d, cid + "b", G.render_sheet(sheet, cid + "b", body, with_decls=False), G.render_doc(doc2, dtd=case.get("dtd", False)))
        return [("%s%s %sa %s ; %s ; %s" % (kind, sfx, cid, " ".join(st), " ".join(dt), et), "A"),
                ("%s%s %sb [ ] ; %s ; %s" % (kind, sfx, cid, " ".join(G.doc_tokens(doc2, implicit_xml=ix)), et), "B")]
    body = G.BODY_BY_NAME[case["body"]]
    write_case(d, cid + "a", G.render_sheet(sheet, cid + "a", body.replace("@DOC@", cid + "a.xml")), G.render_doc(doc, dtd=case.get("dtd", False)))
    write_case(d, cid + "b", G.render_sheet(sheet, cid + "b", body.replace("@DOC@", cid + "b.xml"), with_decls=False),
               G.render_doc(doc2, dtd=case.get("dtd", False)))
    lines = [("xform%s %sa" % (sfx, cid), "A"), ("xform%s %sb" % (sfx, cid), "B")]
    if case_has_preserve_effect(case):
        # third run: pre-stripped *ignoring* xml:space — tells the known xml:space defect from anything else
        doc3 = G.strip_doc(sheet, doc, honour_xml_space=False)
        write_case(d, cid + "c", G.render_sheet(sheet, cid + "c", body.replace("@DOC@", cid + "c.xml"), with_decls=False),
                   G.render_doc(doc3, dtd=case.get("dtd", False)))
        lines.append(("xform%s %sc" % (sfx, cid), "C"))
    return lines


def run_cases(harness, model, cases, d, tag="req"):
    """returns per case a dict {role: (impl, model)}"""
    lines, owner = [], []
    for i, c in enumerate(cases):
        for ln, role in make_lines(d, c, "k%d" % i):
            lines.append(ln)
            owner.append((i, role))
    req = os.path.join(d, tag + ".req")
    with open(req, "w", encoding="utf-8") as f:
        f.write("\n".join(lines) + "\n")
    il, ml, irc, mrc, ierr, merr = common.run_pair([harness, d], [model], req)
    res = [dict() for _ in cases]
    for idx, (i, role) in enumerate(owner):
        iv = il[idx] if idx < len(il) else "CRASH " + ierr[-300:].replace("\n", " ")
        mv = ml[idx] if idx < len(ml) else "MODEL-STOPPED " + merr[-200:].replace("\n", " ")
        res[i][role] = (iv, mv)
    return res, irc, ierr, req


def bits(bl):
    return "".join("1" if b else "0" for b in bl) or "-"


def judge(case, r):
    """-> (status, key, what)   status: ok | violation | model | machinery"""
    kind = case["kind"]
    sheet, doc = case["sheet"], case["doc"]
    if kind == "strip":
        iv, mv = r["strip"]
        o = bits(G.spec_bits(sheet, doc, True))
        o0 = bits(G.spec_bits(sheet, doc, False))
        if "SPEC-DIFFERS" in mv or mv == "bad":
            return ("machinery", "strip.lean-spec", "Lean model/spec/parse: " + mv)
        if mv != o:
            return ("machinery", "strip.oracle", "python §3.4 oracle %s != Lean model %s" % (o, mv))
        if iv != o:
            if iv == o0:
                return ("violation", "strip.xml-space-preserve-ignored",
                        "shouldStripSourceNode strips whitespace under xml:space='preserve': impl=%s spec=%s" % (iv, o))
            return ("violation", "strip.selection", "shouldStripSourceNode=%s, XSLT 3.4 selects %s" % (iv, o))
        return ("ok", None, None)
    (ia, ma), (ib, mb) = r["A"], r["B"]
    if kind in ("eval", "copy", "key", "keyarg", "number", "numbersm"):
        if ia != ib:
            sub = "[from]" if kind in ("number", "numbersm") and case["from"] else ""
            return ("violation", "%s.declared-vs-prestripped%s" % (kind, sub),
                    "output on (declarations, D) = %s but on (none, D') = %s" % (ia, ib))
        if ia.startswith("ERR") or ia.startswith("CRASH"):
            return ("machinery", kind + ".error", ia)
        if ma == "unsupported" or mb == "unsupported":
            return ("ok", None, None) if ma == mb else ("machinery", kind + ".unsupported", "A=%s B=%s" % (ma, mb))
        if "SIM-DIFFERS" in ma or ma == "bad" or mb == "bad":
            return ("machinery", kind + ".lean-sim", ma + " / " + mb)
        if ia != ma or ib != mb:
            return ("model", kind + ".model", "impl A=%s model A=%s impl B=%s model B=%s" % (ia, ma, ib, mb))
        return ("ok", None, None)
    if ia != ib:
        # xsl:strip-space is (wrongly) applied to result tree fragments turned into node-sets by xalan:nodeset /
        # exsl:node-set: literal whitespace under an element the declarations strip, or source whitespace that was kept
        # because of an xml:space="preserve" ancestor the copied fragment no longer has (known finding)
        if case["body"] == "rtf-literal-ws" or (case["body"] == "ext-nodeset" and case_has_preserve_effect(case)):
            return ("violation", "xform.rtf-nodeset-strip-space[%s]" % case["body"],
                    "A=%s B=%s" % (unhex(ia)[:400], unhex(ib)[:400]))
        if "C" in r and r["C"][0] == ia:
            return ("violation", "xform.xml-space-preserve-ignored[%s]" % case["body"],
                    "result equals the result on the document stripped without regard to xml:space='preserve': A=%s B=%s"
                    % (unhex(ia)[:300], unhex(ib)[:300]))
        return ("violation", "xform.declared-vs-prestripped[%s]" % case["body"],
                "result with declarations on D differs from result without on D': A=%s B=%s" % (unhex(ia), unhex(ib)))
    if ia.startswith("ERR") or ia.startswith("CRASH"):
        return ("machinery", "xform.error", ia)
    return ("ok", None, None)


def doc_has_xml_space(n):
    return n[0] == "elem" and (any(a == "xml:space" for a, _ in n[3]) or any(doc_has_xml_space(c) for c in n[2]))


def case_has_preserve_effect(case):
    s, d = case["sheet"], case["doc"]
    return case.get("xmlspace", True) and G.spec_bits(s, d, True) != G.spec_bits(s, d, False)


def unhex(x):
    if x.startswith("X") and x != "X-":
        try:
            return bytes.fromhex(x[1:]).decode("utf-8", "replace")[:600]
        except ValueError:
            return x[:600]
    return x[:600]


# ------------------------------------------------------------------------------------------------------
# shrinking

def doc_variants(doc):
    """documents with one child (sub)tree removed; never leaves two adjacent text nodes"""
    res = []

    def rebuild(n, path, fn):
        if not path:
            return fn(n)
        kids = list(n[2])
        kids[path[0]] = rebuild(kids[path[0]], path[1:], fn)
        return ("elem", n[1], kids, n[3])

    def walk(n, path):
        for i, c in enumerate(n[2]):
            if not (n[1] is None and c[0] == "elem"):
                def rm(m, i=i):
                    kids = list(m[2])
                    del kids[i]
                    for a, b in zip(kids, kids[1:]):
                        if a[0] == "text" and b[0] == "text":
                            return None
                    return ("elem", m[1], kids, m[3])
                try:
                    v = rebuild(doc, path, rm)
                except TypeError:
                    v = None
                if v is not None and _ok(v):
                    res.append(v)
            if c[0] == "elem":
                walk(c, path + [i])
    walk(doc, [])
    return res


def _ok(n):
    if n is None:
        return False
    if isinstance(n, tuple) and n[0] == "elem":
        return all(_ok(c) for c in n[2])
    return True


def sheet_variants(sheet):
    res = []
    for i in range(len(sheet["items"])):
        it = sheet["items"][i]
        res.append({"items": sheet["items"][:i] + sheet["items"][i + 1:], "imports": sheet["imports"]})
        if it[0] == "decl" and len(it[2]) > 1:
            for j in range(len(it[2])):
                ni = ("decl", it[1], it[2][:j] + it[2][j + 1:])
                res.append({"items": sheet["items"][:i] + [ni] + sheet["items"][i + 1:], "imports": sheet["imports"]})
        if it[0] == "include":
            for v in sheet_variants(it[1]):
                res.append({"items": sheet["items"][:i] + [("include", v)] + sheet["items"][i + 1:], "imports": sheet["imports"]})
    for i in range(len(sheet["imports"])):
        res.append({"items": sheet["items"], "imports": sheet["imports"][:i] + sheet["imports"][i + 1:]})
        for v in sheet_variants(sheet["imports"][i]):
            res.append({"items": sheet["items"], "imports": sheet["imports"][:i] + [v] + sheet["imports"][i + 1:]})
    return res


def shrink(harness, model, case, d, want, budget=40):
    cur = dict(case)
    improved = True
    while improved and budget > 0:
        improved = False
        cands = [dict(cur, doc=v) for v in doc_variants(cur["doc"])] + [dict(cur, sheet=v) for v in sheet_variants(cur["sheet"])]
        # batch evaluation: one harness run for all candidates
        if not cands:
            break
        cands = cands[:60]
        budget -= 1
        res, _, _, _ = run_cases(harness, model, cands, d, "shrink")
        for c, r in zip(cands, res):
            st, key, _ = judge(c, r)
            if st == want[0] and key == want[1]:
                cur = c
                improved = True
                break
    return cur


def describe(case):
    d = {"kind": case["kind"], "sheet_tokens": " ".join(G.sheet_tokens(case["sheet"])),
         "doc_xml": G.render_doc(case["doc"], dtd=case.get("dtd", False)), "case": case}
    if case["kind"] == "xform":
        d["body"] = case["body"]
        d["stylesheet"] = G.render_sheet(case["sheet"], "main", G.BODY_BY_NAME[case["body"]])
    if case["kind"] in ("eval", "copy"):
        d["stylesheet_body"] = G.eval_body(case["expr"]) if case["kind"] == "eval" else G.copy_body(case["expr"])
    if case["kind"] == "key":
        d["stylesheet_body"] = G.key_body(case["match"], case["use"], case["lit"])
    if case["kind"] == "keyarg":
        d["stylesheet_body"] = G.keyarg_body(case["match"], case["use"], case["arg"])
    if case["kind"] == "number":
        d["stylesheet_body"] = G.number_body(case["count"], case["from"])
    if case["kind"] == "numbersm":
        d["stylesheet_body"] = G.numbersm_body(case["count"], case["from"], case["level"])
    if case["kind"] != "strip":
        d["doc_prestripped_xml"] = G.render_doc(G.strip_doc(case["sheet"], case["doc"], case.get("xmlspace", True)),
                                                dtd=case.get("dtd", False))
    return d


# ------------------------------------------------------------------------------------------------------
# corpus: hand-written / minimised cases that run first

def E(name, *kids, attrs=()):
    return ("elem", name, list(kids), list(attrs))


def T(s):
    return ("text", s)


A_, B_, C_ = ("", "a"), ("", "b"), ("", "c")
PA = (G.U1, "a")


def D(*top):
    return ("elem", None, list(top), [])


def S(items, imports=()):
    return {"items": list(items), "imports": list(imports)}


def dec(strip, *nts):
    return ("decl", strip, list(nts))


CORPUS_DOC = D(E(A_, T(" "), E(B_, T(" "), E(C_, T("\n")), T("x")), T("\t"), E(PA, T(" ")), ("comment", "c"), T(" "),
                 E(C_, T(" x "), E(B_), T(" "))))

CORPUS = [
    # strip * but preserve b; priorities: qname beats *
    {"kind": "strip", "sheet": S([dec(True, ("*",)), dec(False, ("q", "", "b"))]), "doc": CORPUS_DOC},
    # same priority, later one wins
    {"kind": "strip", "sheet": S([dec(True, ("q", "", "a")), dec(False, ("q", "", "a"))]), "doc": CORPUS_DOC},
    {"kind": "strip", "sheet": S([dec(False, ("q", "", "a")), dec(True, ("q", "", "a"))]), "doc": CORPUS_DOC},
    # import precedence beats priority: importing sheet says preserve *, import says strip a
    {"kind": "strip", "sheet": S([dec(False, ("*",))], [S([dec(True, ("q", "", "a"))])]), "doc": CORPUS_DOC},
    # two imports: the later import has higher precedence; nested import lower than its importer
    {"kind": "strip", "sheet": S([], [S([dec(True, ("q", "", "a"))], [S([dec(False, ("q", "", "a")), dec(True, ("q", "", "c"))])]),
                                      S([dec(False, ("q", "", "c")), dec(True, ("ns", G.U1))])]), "doc": CORPUS_DOC},
    # prefix:* vs unprefixed name in no namespace
    {"kind": "strip", "sheet": S([dec(True, ("ns", G.U1), ("q", "", "c")), dec(False, ("q", G.U1, "a"))]), "doc": CORPUS_DOC},
    # included module's declarations count at the include position
    {"kind": "strip", "sheet": S([dec(True, ("q", "", "a")), ("include", S([dec(False, ("q", "", "a"))]))]), "doc": CORPUS_DOC},
    {"kind": "strip", "sheet": S([("include", S([dec(False, ("q", "", "a"))])), dec(True, ("q", "", "a"))]), "doc": CORPUS_DOC},
    # xml:space="preserve" in the source (XSLT 3.4 third bullet) -- ignored by the implementation (known finding)
    {"kind": "strip", "sheet": S([dec(True, ("*",))]),
     "doc": D(E(A_, T(" "), E(B_, T(" "), E(C_, T(" "), attrs=[("xml:space", "default")]), attrs=[("xml:space", "preserve")])))},
    {"kind": "xform", "body": "counts", "sheet": S([dec(True, ("*",))]),
     "doc": D(E(A_, T(" "), E(B_, T(" "), E(C_, T(" ")), attrs=[("xml:space", "preserve")])))},
    # strip-space reaches into result tree fragments converted by exsl:node-set (known finding C13-rtf-nodeset-stripped)
    {"kind": "xform", "body": "rtf-literal-ws", "sheet": S([dec(True, ("q", "", "a"))]), "doc": D(E(C_))},
    {"kind": "xform", "body": "ext-nodeset", "sheet": S([dec(True, ("ns", G.U1))]),
     "doc": D(E((G.U2, "a"), E(A_, E((G.U1, "b"), T("  ")), attrs=[("xml:space", "preserve")])))},
]
for _b, _ in G.BODIES:
    CORPUS.append({"kind": "xform", "body": _b, "sheet": S([dec(True, ("*",)), dec(False, ("q", "", "b"))]), "doc": CORPUS_DOC})
R_, X_ = ("", "r"), ("", "x")
CORPUS += [
    # key() with a multi-node argument over elements holding stripped whitespace (FunctionKey's per-member lookup)
    {"kind": "keyarg", "sheet": S([dec(True, ("*",))]), "doc": CORPUS_DOC, "match": ("any",), "use": ("self",),
     "arg": ("step", ("root",), "descendant", ("any",))},
    {"kind": "keyarg", "sheet": S([dec(True, ("*",)), dec(False, ("q", "", "b"))]), "doc": CORPUS_DOC, "match": ("any",),
     "use": ("step", ("self",), "child", ("any",)), "arg": ("step", ("step", ("root",), "child", ("any",)), "child", ("node",))},
    {"kind": "xform", "body": "id-fn", "dtd": "ids", "sheet": S([dec(True, ("*",))]),
     "doc": D(E(A_, T(" "), E(B_, attrs=[("id", "xy")]), E(C_, E(B_, T("x")), T(" "), E(B_, T("y"))), E(C_, T("x y"), attrs=[("id", "x")]),
              E(B_, T("y"), attrs=[("id", "y")])))},
    {"kind": "eval", "sheet": S([dec(True, ("*",))]), "doc": CORPUS_DOC,
     "expr": ("let", ("step", ("step", ("root",), "child", ("any",)), "child", ("node",)),
              ("let", ("stepP", ("var", 0), "following-sibling", ("node",), ("num", 1)),
               ("concat", ("string", ("count", ("var", 1))), ("local-name", ("filter", ("var", 0), ("last",))))))},
    {"kind": "eval", "sheet": S([dec(True, ("*",))]), "doc": CORPUS_DOC,
     "expr": ("string", ("step", ("stepP", ("step", ("root",), "descendant", ("any",)), "child", ("node",), ("num", 1)),
                         "attribute", ("name", "", "n")))},
    {"kind": "eval", "sheet": S([dec(True, ("*",))]), "doc": CORPUS_DOC,
     "expr": ("local-name", ("step", ("step", ("step", ("root",), "descendant", ("text",)), "parent", ("any",)), "attribute", ("any",)))},
    {"kind": "eval", "sheet": S([dec(True, ("*",))]), "doc": CORPUS_DOC,
     "expr": ("count", ("union", ("step", ("step", ("root",), "descendant", ("any",)), "attribute", ("any",)),
                        ("step", ("root",), "descendant", ("node",))))},
    {"kind": "eval", "sheet": S([dec(True, ("*",))]), "doc": CORPUS_DOC,
     "expr": ("count", ("step", ("step", ("step", ("root",), "descendant", ("any",)), "attribute", ("any",)), "following", ("node",)))},
    {"kind": "copy", "sheet": S([dec(True, ("*",))]), "doc": CORPUS_DOC,
     "expr": ("step", ("step", ("step", ("root",), "descendant", ("any",)), "attribute", ("any",)), "parent", ("node",))},
    # namespace nodes (the library's: the declaring xmlns attribute nodes, parent = declaring element)
    {"kind": "eval", "sheet": S([dec(True, ("*",))]), "doc": CORPUS_DOC,
     "expr": ("count", ("step", ("step", ("root",), "descendant", ("any",)), "namespace", ("any",)))},
    {"kind": "eval", "sheet": S([dec(True, ("*",))]), "doc": CORPUS_DOC,
     "expr": ("concat", ("local-name", ("stepP", ("step", ("root",), "descendant", ("name", "", "b")), "namespace", ("node",), ("num", 2))),
              ("string", ("count", ("step", ("stepP", ("step", ("root",), "descendant", ("name", "", "b")), "namespace", ("any",), ("last",)),
                                    "following", ("node",)))))},
    {"kind": "eval", "sheet": S([dec(True, ("*",))]), "doc": CORPUS_DOC,
     "expr": ("count", ("union", ("step", ("step", ("root",), "child", ("any",)), "namespace", ("any",)),
                        ("union", ("step", ("step", ("root",), "child", ("any",)), "attribute", ("any",)),
                         ("step", ("step", ("root",), "child", ("any",)), "child", ("node",)))))},
    {"kind": "eval", "sheet": S([dec(True, ("*",))]), "doc": CORPUS_DOC,
     "expr": ("count", ("step", ("step", ("root",), "descendant", ("node",)), "attribute", ("node",)))},
    # the witness that separated D and D' before /repo f84b15b (former known finding C13-number-any-from)
    {"kind": "number", "sheet": S([dec(True, ("q", "", "a"))]),
     "doc": D(E(R_, E(X_, T("x")), E(B_, E(A_, T(" "))), T("y"))), "count": ("text",), "from": ("name", "", "a")},
    {"kind": "number", "sheet": S([dec(True, ("q", "", "a"))]),
     "doc": D(E(R_, E(X_, T("x")), E(B_, E(A_, T(" "))), T("y"))), "count": ("text",), "from": None},
    {"kind": "copy", "sheet": S([dec(True, ("*",)), dec(False, ("q", "", "b"))]), "doc": CORPUS_DOC,
     "expr": ("step", ("root",), "child", ("any",))},
    {"kind": "key", "sheet": S([dec(True, ("*",)), dec(False, ("q", "", "b"))]), "doc": CORPUS_DOC,
     "match": ("text",), "use": ("local-name", ("step", ("self",), "parent", ("node",))), "lit": "a"},
    {"kind": "key", "sheet": S([dec(True, ("*",))]), "doc": CORPUS_DOC,
     "match": ("any",), "use": ("count", ("step", ("self",), "child", ("node",))), "lit": "1"},
    {"kind": "eval", "sheet": S([dec(True, ("*",)), dec(False, ("q", "", "b"))]), "doc": CORPUS_DOC,
     "expr": ("count", ("step", ("step", ("root",), "descendant", ("name", "", "b")), "following", ("node",)))},
    {"kind": "eval", "sheet": S([dec(True, ("*",))]), "doc": CORPUS_DOC,
     "expr": ("string", ("stepP", ("step", ("root",), "descendant", ("comment",)), "preceding", ("node",), ("num", 1)))},
    {"kind": "eval", "sheet": S([dec(True, ("*",))]), "doc": CORPUS_DOC,
     "expr": ("count", ("union", ("step", ("root",), "descendant", ("text",)), ("step", ("root",), "descendant", ("comment",))))},
    {"kind": "eval", "sheet": S([dec(True, ("*",))]), "doc": CORPUS_DOC,
     "expr": ("local-name", ("filter", ("step", ("root",), "descendant", ("node",)), ("num", 3)))},
    {"kind": "eval", "sheet": S([dec(True, ("q", "", "c"))]), "doc": CORPUS_DOC,
     "expr": ("normalize-space", ("string", ("root",)))},
    {"kind": "eval", "sheet": S([dec(True, ("q", "", "a"))]), "doc": CORPUS_DOC,
     "expr": ("starts-with", ("string", ("root",)), ("lit", " "))},
    {"kind": "eval", "sheet": S([dec(True, ("*",)), dec(False, ("q", "", "b"))]), "doc": CORPUS_DOC,
     "expr": ("count", ("step", ("root",), "descendant", ("text",)))},
    {"kind": "eval", "sheet": S([dec(True, ("*",))]), "doc": CORPUS_DOC,
     "expr": ("local-name", ("stepP", ("step", ("root",), "child", ("any",)), "child", ("node",), ("num", 1)))},
    {"kind": "eval", "sheet": S([dec(True, ("*",))]), "doc": CORPUS_DOC,
     "expr": ("string", ("stepP", ("step", ("root",), "descendant", ("any",)), "preceding-sibling", ("node",), ("num", 1)))},
    {"kind": "eval", "sheet": S([dec(True, ("q", "", "a"))]), "doc": CORPUS_DOC,
     "expr": ("strlen", ("string", ("root",)))},
    {"kind": "eval", "sheet": S([dec(True, ("*",))]), "doc": CORPUS_DOC,
     "expr": ("count", ("stepPP", ("step", ("root",), "descendant", ("any",)), "child", ("node",), ("lt", ("position",), ("last",)),
                        ("eq", ("position",), ("last",))))},
]


def gen_cases(ctx):
    r = Rng(ctx.seed * 7919 + 13)
    n_strip, n_eval, n_xform, n_space = (1500, 3000, 2400, 200) if not ctx.thorough else (12000, 30000, 20000, 2000)
    n_copy, n_key, n_number = (500, 700, 700) if not ctx.thorough else (5000, 7000, 7000)
    n_xerces = 600 if not ctx.thorough else 6000
    cases = [dict(c) for c in CORPUS]
    for _ in range(n_strip):
        cases.append({"kind": "strip", "sheet": G.gen_sheet(r), "doc": G.gen_doc(r, r.range(2, 4), r.range(3, 6))})
    for i in range(n_eval):
        doc = G.gen_doc(r, r.range(2, 3), r.range(3, 5))
        if i % 3 == 2:
            doc = G.add_ns_decls(r, doc)      # inner namespace declarations (shadowing) for the namespace axis
        cases.append({"kind": "eval", "sheet": G.gen_sheet(r), "doc": doc, "expr": G.gen_expr(r, r.range(1, 3))})
    for i in range(n_xform):
        cases.append({"kind": "xform", "sheet": G.gen_sheet(r), "doc": G.gen_doc(r, r.range(2, 4), r.range(3, 6)),
                      "body": G.BODIES[i % len(G.BODIES)][0]})
    for _ in range(n_copy):
        # node-set variables: xsl:variable select=… then used (also inside predicates)
        cases.append({"kind": "eval", "sheet": G.gen_sheet(r), "doc": G.gen_doc(r, r.range(2, 3), r.range(3, 5)),
                      "expr": G.gen_expr_vars(r, r.range(1, 2))})
    for _ in range(n_copy):
        cases.append({"kind": "copy", "sheet": G.gen_sheet(r), "doc": G.gen_doc(r, r.range(2, 3), r.range(3, 5)),
                      "expr": G.gen_ns(r, r.range(1, 2), False) if r.chance(4, 5) else G.gen_expr(r, 2)})
    for _ in range(n_key):
        cases.append({"kind": "key", "sheet": G.gen_sheet(r), "doc": G.gen_doc(r, r.range(2, 3), r.range(3, 5)),
                      "match": G.gen_key_pattern(r), "use": G.gen_any(r, r.range(0, 2), "ctx"), "lit": r.choice(G.KEY_LITS)})
    for _ in range(n_number):
        cases.append({"kind": "number", "sheet": G.gen_sheet(r), "doc": G.gen_doc(r, r.range(2, 4), r.range(3, 5)),
                      "count": G.gen_pattern(r), "from": G.gen_pattern(r) if r.chance(1, 3) else None})
    for i in range(n_number):
        cases.append({"kind": "numbersm", "sheet": G.gen_sheet(r), "doc": G.gen_doc(r, r.range(2, 4), r.range(3, 5)),
                      "count": G.gen_pattern(r), "from": G.gen_pattern(r) if r.chance(1, 3) else None,
                      "level": "single" if i % 2 else "multiple"})
    # key() with node-set / string arguments over elements with stripped content; use = string value / child elements /
    # text children / a string built from the content
    for i in range(n_key):
        use = [("self",), ("step", ("self",), "child", ("any",)), ("step", ("self",), "child", ("text",)),
               ("concat", ("string", ("self",)), ("string", ("count", ("step", ("self",), "child", ("node",))))),
               ("normalize-space", ("string", ("self",)))][i % 5]
        arg = G.gen_ns(r, r.range(1, 2), False) if i % 4 else G.gen_str(r, 1, False)
        cases.append({"kind": "keyarg", "sheet": G.gen_sheet(r), "doc": G.gen_doc(r, r.range(2, 4), r.range(3, 5)),
                      "match": r.choice([("any",), ("any",), ("name", "", "a"), ("text",)]), "use": use, "arg": arg})
    # count / from / key patterns with several steps and predicates (exprPat in the model)
    for i in range(n_number):
        k = i % 3
        doc = G.gen_doc(r, r.range(2, 4), r.range(3, 5))
        if k == 0:
            cases.append({"kind": "key", "sheet": G.gen_sheet(r), "doc": doc, "match": G.gen_pattern2(r, allow_node_last=False),
                          "use": G.gen_any(r, r.range(0, 1), "ctx"), "lit": r.choice(G.KEY_LITS)})
        elif k == 1:
            cases.append({"kind": "number", "sheet": G.gen_sheet(r), "doc": doc, "count": G.gen_pattern2(r),
                          "from": (G.gen_pattern2(r) if r.chance(1, 2) else G.gen_pattern(r)) if r.chance(1, 3) else None})
        else:
            cases.append({"kind": "numbersm", "sheet": G.gen_sheet(r), "doc": doc, "count": G.gen_pattern2(r),
                          "from": G.gen_pattern2(r) if r.chance(1, 4) else None, "level": "single" if i % 2 else "multiple"})
    for i in range(n_xerces):
        # the same two streams with the source held in a Xerces DOM (XercesDOMWrapper nodes, own isWhitespace())
        if i % 3 == 0:
            cases.append({"kind": "strip", "xerces": True, "sheet": G.gen_sheet(r), "doc": G.gen_doc(r, r.range(2, 4), r.range(3, 6))})
        else:
            cases.append({"kind": "xform", "xerces": True, "sheet": G.gen_sheet(r), "doc": G.gen_doc(r, r.range(2, 4), r.range(3, 6)),
                          "body": G.BODIES[i % len(G.BODIES)][0]})
    for i in range(n_space):
        # documents with xml:space attributes (XSLT 3.4, third bullet)
        doc = G.gen_doc(r, 3, 4)
        doc = add_xml_space(r, doc)
        xer = i % 3 == 0           # a third of them through the Xerces DOM wrapper
        if i % 2:
            cases.append({"kind": "strip", "sheet": G.gen_sheet(r), "doc": doc, "xerces": xer})
        else:
            cases.append({"kind": "xform", "sheet": G.gen_sheet(r), "doc": doc, "body": r.choice(G.BODIES)[0], "xerces": xer})
    # a sixth of the generated cases carry an internal DTD subset with element-content declarations; a quarter of
    # ALL generated cases (every stream, every body) run on the Xerces-DOM representation of the source
    for i, c in enumerate(cases[len(CORPUS):]):
        if c.get("body") == "id-fn":
            c["doc"] = G.add_ids(r, c["doc"])
            c["dtd"] = "ids"
        elif i % 6 == 5:
            c["dtd"] = True
        if i % 4 == 1:
            c["xerces"] = True
    if ctx.thorough:
        cases += small_scope()
    return cases


def add_xml_space(r, n):
    if n[0] != "elem":
        return n
    attrs = list(n[3])
    if n[1] is not None and r.chance(1, 4):
        attrs.append(("xml:space", r.choice(["preserve", "preserve", "default"])))
    return ("elem", n[1], [add_xml_space(r, c) for c in n[2]], attrs)


def small_scope():
    """exhaustive: every list of <= 3 declarations over a 5-entry alphabet x {no import, one import with each single
    declaration}, on a fixed document having every parent kind"""
    import itertools
    alpha = [(True, ("*",)), (False, ("*",)), (True, ("q", "", "a")), (False, ("q", "", "a")), (True, ("ns", G.U1)),
             (False, ("q", G.U1, "a"))]
    doc = D(E(A_, T(" "), E(PA, T(" "), E(B_, T("\n"))), T(" "), E((G.U1, "b"), T(" "))))
    res = []
    for n in range(0, 4):
        for combo in itertools.product(alpha, repeat=n):
            items = [dec(s, nt) for s, nt in combo]
            res.append({"kind": "strip", "sheet": S(items), "doc": doc})
            if n <= 2:
                for s, nt in alpha:
                    res.append({"kind": "strip", "sheet": S(items, [S([dec(s, nt)])]), "doc": doc})
    return res


def nontrivial_key(case, r):
    """non-trivial = at least one text node is stripped AND at least one whitespace-only text node is preserved or a
    declaration is overridden; for eval/xform additionally the output must differ from what the same stylesheet
    yields with no stripping at all is not computed here; we use: some node stripped."""
    sb = G.spec_bits(case["sheet"], case["doc"], False)
    if not any(sb):
        return None
    if case["kind"] == "strip":
        return "strip " + " ".join(G.sheet_tokens(case["sheet"])) + " | " + bits(sb)
    if case["kind"] in ("eval", "copy"):
        return case["kind"] + " " + " ".join(G.expr_tokens(case["expr"])) + " | " + " ".join(G.doc_tokens(case["doc"]))[:200] + bits(sb)
    if case["kind"] == "keyarg":
        return "keyarg " + G.keyarg_body(case["match"], case["use"], case["arg"])[60:] + " | " + " ".join(G.doc_tokens(case["doc"]))[:200] + bits(sb)
    if case["kind"] == "key":
        return "key " + G.key_body(case["match"], case["use"], case["lit"])[60:] + " | " + " ".join(G.doc_tokens(case["doc"]))[:200] + bits(sb)
    if case["kind"] == "numbersm":
        return "numbersm %s %s %s | " % (case["level"], case["count"], case["from"]) + " ".join(G.doc_tokens(case["doc"]))[:200] + bits(sb)
    if case["kind"] == "number":
        return "number %s %s | " % (case["count"], case["from"]) + " ".join(G.doc_tokens(case["doc"]))[:200] + bits(sb)
    return "xform " + case["body"] + " | " + " ".join(G.sheet_tokens(case["sheet"])) + " | " + bits(sb)


def run(ctx):
    ctx.rule = ("a case is one (declaration tree, document[, expression | stylesheet body]) triple generated from VERIF_SEED; "
                "non-trivial = XSLT 3.4 strips at least one text node of the document under the case's declarations; "
                "distinct = distinct (declarations, strip bit-vector[, expression/body]) text")
    ctx.trusted += [
        "harness/c13_strip.cpp, gen/c13_gen.py (generators, XML/XSLT renderers, python transcription of XSLT 3.4 used to "
        "compute the pre-stripped document), checks/c13.py (comparison)",
        "modelled, not verified: the XSLT instruction interpreter (copy-of, apply-templates, keys, xsl:number, sort, "
        "patterns) — covered by differential runs declared-vs-pre-stripped only; Xerces parser; attribute/namespace axes",
    ]
    ctx.build("hooks")
    ctx.translate("c13_sites")
    ctx.lean("XalanModel.Props.C13", THEOREMS, extra_targets=["xm_c13"])
    model = ctx.exe("xm_c13")
    harness = common.build_harness("c13_strip", ["c13_strip.cpp"], flavor="hooks")
    if model is None:
        return
    d = work_dir(ctx)
    cases = gen_cases(ctx)
    # batches of 1500 cases, each in its own directory (removed when the batch agrees), 8 at a time
    from concurrent.futures import ThreadPoolExecutor
    B = 1500
    chunks = [cases[i:i + B] for i in range(0, len(cases), B)]

    def do_chunk(k):
        dk = os.path.join(d, "b%d" % k)
        os.makedirs(dk)
        rs, rc, err, _ = run_cases(harness, model, chunks[k], dk)
        clean = rc == 0 and all(judge(c, r)[0] == "ok" for c, r in zip(chunks[k], rs))
        if clean:
            shutil.rmtree(dk, ignore_errors=True)
        return rs, rc, err
    with ThreadPoolExecutor(max_workers=min(8, max(1, common.NPROC // 2))) as ex:
        outs = list(ex.map(do_chunk, range(len(chunks))))
    res = [r for o in outs for r in o[0]]
    irc = max([o[1] for o in outs] + [0], key=abs)
    ierr = "".join(o[2] for o in outs if o[1] != 0)
    agree = True
    machinery_ok = True
    shrunk = 0
    seen_keys = set()
    order = sorted(range(len(cases)), key=lambda i: (1 if doc_has_xml_space(cases[i]["doc"]) else 0, i))
    for i in order:
        c, r = cases[i], res[i]
        st, key, what = judge(c, r)
        cls = c["kind"] + ("(xerces-dom)" if c.get("xerces") else "") + ("(dtd)" if c.get("dtd") else "") + (":" + c["body"] if c["kind"] == "xform" else "")
        ctx.case(nontrivial_key=nontrivial_key(c, r), cls=cls,
                 sample=({"kind": c["kind"], "sheet": " ".join(G.sheet_tokens(c["sheet"])), "doc": G.render_doc(c["doc"])[:300],
                          "reply": {k: v[0][:120] for k, v in r.items()}} if i in (0, 3, 40, 60, 2000, 5000) else None))
        if c["kind"] in ("eval", "copy", "key") and r["A"][1] == "unsupported":
            ctx.hist["eval:outside-fragment"] = ctx.hist.get("eval:outside-fragment", 0) + 1
        if st == "ok":
            continue
        small = c
        known = st == "violation" and any(f.get("match") and re.search(f["match"], key + ": ") for f in ctx.findings)
        if (st, key) not in seen_keys and shrunk < 4 and not known:
            seen_keys.add((st, key))
            shrunk += 1
            small = shrink(harness, model, c, work_dir(ctx, "shrink"), (st, key))
            rr, _, _, _ = run_cases(harness, model, [small], work_dir(ctx, "shrink"), "final")
            _, _, what = judge(small, rr[0])
        if st == "violation":
            ctx.fail(key + ": " + " ".join(G.sheet_tokens(small["sheet"])) + " | " + G.render_doc(small["doc"], False).strip()[39:],
                     what, describe(small))
        elif st == "model":
            agree = False
            ctx.extra.setdefault("model_disagreements", []).append({"key": key, "what": what, "case": describe(small)})
            # does the implementation itself violate the property on this input?  (A vs B was equal, otherwise the
            # judge would have said violation) -> no failing input: correspondence obligation
        else:
            machinery_ok = False
            ctx.extra.setdefault("machinery", []).append({"key": key, "what": what, "case": describe(small)})
    ctx.oblige("correspondence: real shouldStripSourceNode / XPath value-of = Lean model on every generated case",
               "correspondence", agree, json.dumps(ctx.extra.get("model_disagreements", [])[:2], default=str)[:1800])
    ctx.oblige("oracles agree (python XSLT 3.4 oracle = Lean spec = Lean model; no transform errors)", "machinery",
               machinery_ok, json.dumps(ctx.extra.get("machinery", [])[:2], default=str)[:1800])
    ctx.oblige("harness exits cleanly", "correspondence", irc == 0, ierr[-1500:])
    ctx.exhaustive = False
    shutil.rmtree(os.path.join(common.CACHE, "work", "c13_%s_%d_shrink" % (ctx.tier, ctx.seed)), ignore_errors=True)
    if not ctx.failures and agree and machinery_ok:
        shutil.rmtree(d, ignore_errors=True)


def replay(ctx, path):
    dd = json.load(open(path))
    first = dd.get("first")
    if not first:
        print("replay file names broken obligations only:", [o["name"] for o in dd.get("broken_obligations", [])])
        return 1
    case = first["input"]["case"]
    case = json_to_case(case)
    ctx.build("hooks")
    common.lake_build(["xm_c13"])
    model = ctx.exe("xm_c13")
    harness = common.build_harness("c13_strip", ["c13_strip.cpp"], flavor="hooks")
    d = work_dir(ctx, "replay")
    res, _, _, _ = run_cases(harness, model, [case], d, "replay")
    st, key, what = judge(case, res[0])
    print("case:", json.dumps(describe(case), indent=1, default=str)[:4000])
    print("replies:", res[0])
    print("verdict:", st, key, what)
    return 0 if st == "ok" else 1


def json_to_case(c):
    def node(n):
        if n[0] == "elem":
            return ("elem", tuple(n[1]) if n[1] is not None else None, [node(k) for k in n[2]], [tuple(a) for a in n[3]])
        return tuple(n)

    def nt(x):
        return tuple(x)

    def sheet(s):
        items = []
        for it in s["items"]:
            if it[0] == "decl":
                items.append(("decl", it[1], [nt(x) for x in it[2]]))
            else:
                items.append(("include", sheet(it[1])))
        return {"items": items, "imports": [sheet(i) for i in s["imports"]]}

    def expr(e):
        if e and e[0] == "pat":
            return ("pat", [(expr(t), expr(q) if q is not None else None) for t, q in e[1]])
        return tuple(expr(x) if isinstance(x, list) else x for x in e)
    out = dict(c)
    out["doc"] = node(c["doc"])
    out["sheet"] = sheet(c["sheet"])
    for f in ("expr", "use", "match", "count", "from", "arg"):
        if c.get(f) is not None:
            out[f] = expr(c[f])
    return out
