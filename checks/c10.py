"""C10 — template conflict resolution: import precedence, then priority, then last (DESIGN.md §5 C10, design/C10.md).

proof:          lean/XalanModel/Props/C10.lean over lean/XalanModel/C10/*.lean and Generated/C10_Priority.lean
translator:     translate/c10_priority.py (score values, getTargetData switch, addTemplate routing, addToList
                comparisons, addImport) -> Generated/C10_Priority.lean; `generated_tables_agree` re-checks the hand model
correspondence: harness/c10_conflict.cpp (the real XSLT engine in-process, conflict warnings quiet and reporting)
                vs lean/Driver/C10.lean (transcribed findTemplate bodies) on generated rule sets; on every observation
                the §5.5 winner (executable specification in the model, independent of the transcribed code paths)
                is compared with what the real engine instantiated.
"""
import hashlib
import json
import os
import subprocess
import sys
import xml.etree.ElementTree as ET

from vlib import common
from vlib.common import Rng

sys.path.insert(0, os.path.join(common.ROOT, "gen"))
import c10_rules as G  # noqa: E402

CLAIMED = True
LEVEL = "proof"
TECHNIQUE = ("Lean 4 proofs about a transcription of XPath::getTargetData, Stylesheet::addTemplate/addToList/addToTable/"
             "locateMatchPatternDataList/findTemplate (both bodies)/findTemplateInImports and the rule dispatch of "
             "findTemplateToTransformChild; tables and code-shape flags regenerated from the source by a translator on every run; "
             "correspondence run of the real engine (conflict warnings quiet and reported) against the compiled model and "
             "against the executable section 5.5/5.6/5.8 specification")
LEVEL_TEXT = ("Machine-checked for the code as committed (theorem code_as_committed re-reads the source shape on every run): "
              "template_conflict_resolution - for every well-formed module tree of any import depth (xsl:include expanded, "
              "simplified stylesheets allowed), every rule set (any union patterns, explicit or default priorities, modes), "
              "every node kind/name and mode, both bodies of Stylesheet::findTemplate (conflict warnings quiet or reported) "
              "return the XSLT 1.0 section 5.5 winner: highest import precedence, then highest priority (explicit, or the "
              "default -0.5/-0.25/0/0.5 of the alternative that matches), then last; nothing exactly when no rule matches, "
              "and then the built-in rule of the node type is applied (builtin_rule_when_none, "
              "builtin_rule_after_apply_imports); applyImports_spec - xsl:apply-imports instantiates the section 5.6 winner "
              "among the modules the current rule's module imports, also from a named template reached by call-template "
              "(applyImports_call_template_scope, direct_call_template_scope) and from an xsl:with-param body "
              "(with_param_caller_context; the last two hold for the implementation only with the two proposed fixes, "
              "known findings C10-direct-call-template-current-rule and C10-with-param-callee-mode until then); supporting theorems: table_sorted, locate_mem, routing_sound, imports_order, "
              "simplified_stylesheet_is_slash_module, default_priorities_spec, generated_tables_agree, "
              "locate_and_builtin_tables_agree, "
              "conflicts_within_capacity (the conflicts array/vector of the reporting body is never overrun). The only "
              "hypothesis left is on the abstract pattern matcher (it accepts an alternative only for nodes the "
              "alternative's last step can select; '/' accepts the root). Partial theorems and counterexample theorems "
              "document the six defects the check found in the pinned code (all repaired in /repo) and remain true for "
              "both code shapes.")
LEVEL_NOTE = ("Trusted: Lean kernel (leanchecker in the thorough tier); axioms propext/Classical.choice/Quot.sound only; the hand "
              "transcription (validated by the correspondence run: rules chosen per node and mode in both bodies, warning "
              "counts, getTargetData; bounded by generator coverage) and the regex translator (exits 1 on any unknown shape). "
              "Abstract in the theorems: pattern matching (am) - the harness evaluates each alternative's defining expression "
              "with Xalan's own XPath evaluator, agreement of patterns and expressions is property C09; priorities are "
              "integers in the model (finite values only; -infinity and non-numbers are covered by fixed probes). Modelled, not verified: SAX stylesheet construction "
              "(StylesheetHandler include/import processing), the execution-context stacks behind current template / "
              "invoker, rule bodies other than marker / call-template / apply-imports.")
DESIGN_REF = "DESIGN.md section 5, C10; design/C10.md"

P = "XalanModel.Props.C10."
THEOREMS = [P + n for n in (
    "default_priorities_spec",
    "generated_tables_agree",
    "locate_and_builtin_tables_agree",
    "addToList_sorted",
    "table_sorted",
    "locate_mem",
    "imports_order",
    "find_quiet_list_spec",
    "find_quiet_sheet_spec",
    "find_quiet_spec_partial",
    "find_quiet_spec",
    "find_quiet_spec_counterexample",
    "find_reporting_eq_quiet_partial",
    "find_reporting_eq_quiet",
    "find_reporting_spec",
    "code_as_committed",
    "routing_sound",
    "simplified_stylesheet_is_slash_module",
    "template_conflict_resolution",
    "applyImports_spec",
    "conflicts_array_bound",
    "conflicts_within_capacity",
    "find_reporting_eq_quiet_stable",
    "find_reporting_spec_partial",
    "find_reporting_eq_quiet_counterexample_union",
    "find_reporting_eq_quiet_counterexample_predicate",
    "find_reporting_eq_quiet_counterexample_pattern_string",
    "key_pattern_counterexample",
    "wrapperless_counterexample",
    "applyImports_scope",
    "applyImports_call_template_scope",
    "with_param_caller_context",
    "direct_call_template_scope",
    "builtin_rule_when_none",
    "builtin_rule_after_apply_imports",
)]

# one scratch directory per process, so that two runs of this check (e.g. quick and thorough) can overlap
WORK = os.path.join(common.CACHE, "work", "c10", "p%d" % os.getpid())


def _limits():
    import resource
    # a mutated engine may recurse for ever: bound its memory so that it dies instead of exhausting the machine
    resource.setrlimit(resource.RLIMIT_AS, (3 << 30, 3 << 30))


class Proc:
    def __init__(self, cmd, env=None, timeout=20, limit=False, sentinel=None):
        e = dict(os.environ)
        if env:
            e.update(env)
        self.p = subprocess.Popen(cmd, stdin=subprocess.PIPE, stdout=subprocess.PIPE, stderr=subprocess.DEVNULL,
                                  env=e, text=True, bufsize=1, preexec_fn=_limits if limit else None)
        self.cmd = cmd
        self.timeout = timeout
        self.sentinel = sentinel

    def ask(self, line):
        import select
        import time
        deadline = time.time() + self.timeout
        try:
            self.p.stdin.write(line + "\n")
            self.p.stdin.flush()
            while True:
                left = deadline - time.time()
                if left <= 0:
                    self.p.kill()
                    return None
                ready, _, _ = select.select([self.p.stdout], [], [], left)
                if not ready:
                    self.p.kill()
                    return None
                r = self.p.stdout.readline()
                if r == "":
                    return None
                if self.sentinel is None:
                    return r.rstrip("\n")
                if r.startswith(self.sentinel):
                    return r[len(self.sentinel):].rstrip("\n")
                # anything else was printed by the library itself: not a reply
        except (BrokenPipeError, OSError):
            return None

    def close(self):
        try:
            self.p.stdin.close()
            self.p.wait(timeout=10)
        except Exception:
            self.p.kill()


class Env:
    def __init__(self, harness, model):
        self.hcmd = [harness]
        self.mcmd = [model]
        self.h = Proc(self.hcmd, limit=True, sentinel="@@ ")
        self.m = Proc(self.mcmd)
        self.runs = 0

    def harness(self, line):
        r = self.h.ask(line)
        if r is None:   # crashed: restart so that later cases still run; the caller reports the crash
            self.h.close()
            self.h = Proc(self.hcmd, limit=True, sentinel="@@ ")
        return r

    def model(self, line):
        r = self.m.ask(line)
        if r is None:
            self.m.close()
            self.m = Proc(self.mcmd)
        return r

    def close(self):
        self.h.close()
        self.m.close()


def merge_tokens(toks):
    out = []
    for t in toks:
        if t.startswith("V") and out and out[-1].startswith("V"):
            out[-1] += t[1:]
        else:
            out.append(t)
    return out


def parse_model_toks(s):
    if s == "-":
        return []
    return merge_tokens(s.split(","))


def elem_tokens(n):
    out = []
    if n.text:
        out.append("V" + n.text)
    for c in n:
        if c.tag == "t":
            out.append("T" + c.get("k"))
        else:
            out.append("?" + c.tag)
        if c.tail:
            out.append("V" + c.tail)
    return merge_tokens(out)


def parse_result(reply, nodes):
    """-> (obs {(node, mode): tokens}, matches {(k, j): [node ids]}, warnings) or raises ValueError"""
    if reply is None:
        raise ValueError("harness crashed")
    if not reply.startswith("OK "):
        raise ValueError(reply[:300])
    _, w, xml = reply.split(" ", 2)
    root = ET.fromstring(xml)
    by_tree = {}
    by_attr = {}
    for n in nodes:
        if n["attr"] is None:
            by_tree[n["tree"]] = n["id"]
        else:
            by_attr[(n["tree"], n["attr"])] = n["id"]

    def ident(e):
        i = int(e.get("i"))
        a = e.get("a")
        if a is None:
            return by_tree[i]
        return by_attr[(i - 1, a)]

    obs = {}
    matches = {}
    for e in root:
        if e.tag == "n":
            obs[(ident(e), int(e.get("m")))] = elem_tokens(e)
        elif e.tag == "a":
            matches[(int(e.get("k")), int(e.get("j")))] = sorted(ident_m(m, by_tree, by_attr) for m in e)
    return obs, matches, int(w)


def ident_m(m, by_tree, by_attr):
    i = None
    a = None
    # <m> carries the identity as attributes created with xsl:attribute
    i = int(m.get("i"))
    a = m.get("a")
    if a is None:
        return by_tree[i]
    return by_attr[(i - 1, a)]


def evaluate(env, case, tag="cur", distinct=False):
    """Runs one case on the real engine (quiet, reporting) and on the model.
    Returns dict: ok(bool), error, queries: {(node,mode): {rq, rr, mq, mr, sp}}, matches, nodes, warnings"""
    d = os.path.join(WORK, tag)
    nodes = G.number_doc(case["doc"])
    dx = G.write_case(case, d, distinct_patterns=distinct)
    res = {"error": None, "queries": {}, "nodes": nodes, "dir": d}
    out = {}
    for q in (1, 0):
        env.runs += 1
        reply = env.harness("run %d %s %s" % (q, dx, os.path.join(d, "drv.xml")))
        try:
            out[q] = parse_result(reply, nodes)
        except (ValueError, ET.ParseError, KeyError) as e:
            res["error"] = "engine(quiet=%d): %s" % (q, e)
            res["crash"] = reply is None
            return res
    if out[1][1] != out[0][1]:
        res["error"] = "match sets differ between the quiet and the reporting run"
        return res
    matches = out[1][1]
    res["matches"] = matches
    res["warnings"] = (out[1][2], out[0][2])
    lines = G.model_lines(case, nodes, matches)
    res["lines"] = lines
    for ln in lines:
        r = env.model(ln)
        if r != "ok":
            res["error"] = "model rejected %r: %r" % (ln, r)
            return res
    for (n, mode) in sorted(out[1][0]):
        r = env.model("query %d %d" % (n, mode))
        if r is None or not r.startswith("q="):
            res["error"] = "model query failed: %r" % r
            return res
        parts = dict(x.split("=", 1) for x in r.split(" "))
        res["warn_model"] = res.get("warn_model", 0) + int(parts.get("w", "0"))
        res["queries"][(n, mode)] = {
            "rq": out[1][0][(n, mode)], "rr": out[0][0].get((n, mode)),
            "mq": parse_model_toks(parts["q"]), "mr": parse_model_toks(parts["r"]), "sp": parse_model_toks(parts["s"]),
        }
    return res


def inherited(res, key, fa, fb):
    """both sides instantiated the same rules for this node (possibly a chain of apply-imports) and then applied the
    built-in element/root rule: the difference comes from a child, which has its own query"""
    node, mode = key
    n = res["nodes"][node]
    if n["kind"] not in ("el", "rt"):
        return False
    cat = {}
    for f in (fa, fb):
        c = []
        for k in n["kids"]:
            q = res["queries"].get((k, mode))
            if q is None:
                return False
            c.extend(q[f])
        cat[f] = merge_tokens(c)
    a, b = res["queries"][key][fa], res["queries"][key][fb]
    for p in range(0, min(len(a), len(b)) + 1):
        if a[:p] != b[:p] or not all(t.startswith("T") for t in a[:p]):
            break
        if a[p:] == cat[fa] and b[p:] == cat[fb]:
            return True
    return False


def issues(res):
    corr, prop = [], []
    for key, q in sorted(res["queries"].items()):
        for path, rf, mf in (("q", "rq", "mq"), ("r", "rr", "mr")):
            if q[rf] != q[mf] and not inherited(res, key, rf, mf):
                corr.append((key, path, q))
            if q[rf] != q["sp"] and not inherited(res, key, rf, "sp"):
                prop.append((key, path, q))
    return corr, prop


# ---------------------------------------------------------------------------------------------- attribution

def has_wrapperless(case):
    return any(m.get("wrapperless") for _, m in G.all_modules(case["main"]))


def dewrap(case):
    import copy
    c = copy.deepcopy(case)

    def walk(m):
        if m.get("wrapperless"):
            m["wrapperless"] = False
        for i in m["imports"]:
            walk(i)
        for it in m["items"]:
            if "inc" in it:
                for i in it["inc"]["imports"]:
                    walk(i)
    walk(c["main"])
    return c


def attribute(env, case, res, key, path, q):
    """Explain a property violation by experiments on the real engine. Returns a list of defect names, or None."""
    names = []
    experiments = []
    if has_wrapperless(case):
        experiments.append(("imported-simplified-stylesheet", lambda c: dewrap(c), False))
    if any("key" in t["alts"] for _, t, _ in G.all_templates(case["main"])):
        experiments.append(("key-pattern-nonelement", G.dekey, False))
    if any(G.is_mixed(t) for _, t, _ in G.all_templates(case["main"])):
        experiments.append(("union-mixed-default-priority." + ("quiet" if path == "q" else "reporting"), G.split_unions, False))
    if path == "r":
        experiments.append(("duplicate-pattern-string", lambda c: c, True))
        if any(t["prio"] is None and any(G.ALTS[a][3] == 2 for a in t["alts"]) for _, t, _ in G.all_templates(case["main"])):
            experiments.append(("boolean-predicate-default-priority.reporting", G.explicit_defaults, False))

    if any(t.get("call") for _, t, _ in G.all_templates(case["main"])):
        experiments.append(("call-template-current-rule", G.inline_calls, False))
    if any(t.get("bare") or (t.get("wp") or {}).get("call") for _, t, _ in G.all_templates(case["main"])):
        experiments.append(("direct-call-template-current-rule", G.undirect, False))
    if any(t.get("wp") for _, t, _ in G.all_templates(case["main"])):
        experiments.append(("with-param-callee-mode", G.wp_via_variable, False))
    if res["nodes"][key[0]]["kind"] == "rt" and any(
            len(t["alts"]) > 1 and any(G.ALTS[a][1] == "node" for a in t["alts"]) for _, t, _ in G.all_templates(case["main"])):
        # XPath::stepPattern accepts the root for a final node() step; only a union can bring such an alternative to the
        # root's list.  (Pattern matching: property C09.)  Kept last so that it is preferred by the minimisation below.
        experiments.append(("node-test-matches-root", G.split_unions, False))

    def run(subset):
        c = case
        distinct = False
        for name, f, d in subset:
            c = f(c)
            distinct = distinct or d
        r2 = evaluate(env, c, tag="attr", distinct=distinct)
        if r2["error"]:
            return False
        q2 = r2["queries"].get(key)
        if q2 is None:
            return False
        return (q2["rq"] if path == "q" else q2["rr"]) == q["sp"]

    if not experiments:
        return None
    # smallest explaining set of rewrites first (a rewrite that is not needed may change the order of the output, e.g.
    # inlining a call in front of an apply-templates, so the full set is only the last resort)
    import itertools
    for size in (1, 2, 3):
        for subset in itertools.combinations(experiments, size):
            if run(list(subset)):
                return [n for n, _, _ in subset]
    if len(experiments) > 3 and run(experiments):
        cur = list(experiments)
        for e in list(cur):
            trial = [x for x in cur if x is not e]
            if trial and run(trial):
                cur = trial
        return [n for n, _, _ in cur]
    return None


# ---------------------------------------------------------------------------------------------- shrinking

def shrink(env, case, pred, budget=120):
    """greedy deletion of rules / alternatives / document nodes while pred(case) holds"""
    import copy
    cur = copy.deepcopy(case)
    used = [0]

    def ok(c):
        if used[0] >= budget:
            return False
        used[0] += 1
        try:
            return pred(c)
        except Exception:
            return False

    def rule_sites(c):
        sites = []

        def walk(m):
            for i, it in enumerate(m["items"]):
                if "t" in it:
                    sites.append((m["items"], i))
                else:
                    for j, jt in enumerate(it["inc"]["items"]):
                        sites.append((it["inc"]["items"], j))
                    for im in it["inc"]["imports"]:
                        walk(im)
            for im in m["imports"]:
                walk(im)
        walk(c["main"])
        return sites

    progress = True
    while progress and used[0] < budget:
        progress = False
        n = len(rule_sites(cur))
        for idx in range(n - 1, -1, -1):
            c2 = copy.deepcopy(cur)
            sites = rule_sites(c2)
            if idx >= len(sites):
                continue
            lst, i = sites[idx]
            if lst[i]["t"].get("keep"):
                continue
            del lst[i]
            if ok(c2):
                cur = c2
                progress = True
        # alternatives
        for idx in range(len(rule_sites(cur))):
            c2 = copy.deepcopy(cur)
            lst, i = rule_sites(c2)[idx]
            t = lst[i]["t"]
            if len(t["alts"]) > 1:
                for j in range(len(t["alts"]) - 1, -1, -1):
                    c3 = copy.deepcopy(c2)
                    l3, i3 = rule_sites(c3)[idx]
                    del l3[i3]["t"]["alts"][j]
                    if l3[i3]["t"]["alts"] and ok(c3):
                        cur = c3
                        c2 = c3
                        progress = True
        # document: delete subtrees
        def subtrees(node, acc):
            for i, k in enumerate(node.get("kids", [])):
                acc.append((node["kids"], i))
                subtrees(k, acc)
            return acc
        m = len(subtrees(cur["doc"], []))
        for idx in range(m - 1, -1, -1):
            c2 = copy.deepcopy(cur)
            st = subtrees(c2["doc"], [])
            if idx >= len(st):
                continue
            lst, i = st[idx]
            if lst is c2["doc"]["kids"] and lst[i]["k"] == "el":
                continue
            del lst[i]
            if ok(c2):
                cur = c2
                progress = True
    return cur


def describe(case):
    parts = []
    for path, t, rb in G.all_templates(case["main"]):
        if t.get("named"):
            parts.append("N%d@%s[name=n%d%s]" % (t["id"], ".".join(map(str, path)), t["id"], " apply-imports" if t["ai"] else ""))
            continue
        parts.append("T%d@%s[%s%s%s%s%s]" % (t["id"], ".".join(map(str, path)), G.pattern_text(t) + (" BARE" if t.get("bare") else ""),
                                          (" call=n%d" % t["call"] if t.get("call") else "") +
                                          (" with-param(mode=m%d,%s)" % (t["wp"]["mode"], "call n%d" % t["wp"]["call"]
                                                                        if t["wp"].get("call") else "apply-imports")
                                           if t.get("wp") else ""),
                                          " mode=%s%s" % (G.MODE_TEXT[t["mode"]], "{p=u2}" if (rb and t["mode"] == 2) else "") if t["mode"] else "",
                                          " prio=%s" % G.fmt_prio(t["prio"]) if t["prio"] is not None else "",
                                          " apply-imports" if t["ai"] else ""))
    return " ; ".join(parts) + " ;; doc=" + G.doc_xml(case["doc"])


def case_hash(case):
    return hashlib.sha1(json.dumps(case, sort_keys=True).encode()).hexdigest()[:16]


def nontrivial(res):
    """a query for which at least two rules of the right mode match (a real conflict)"""
    by_node = {}
    for (k, j), ns in res.get("matches", {}).items():
        for n in ns:
            by_node.setdefault(n, set()).add(k)
    return any(len(v) >= 2 for v in by_node.values())


def load_corpus():
    d = os.path.join(common.ROOT, "gen", "corpus", "c10")
    out = []
    if os.path.isdir(d):
        for f in sorted(os.listdir(d)):
            if f.endswith(".json"):
                out.append((f, json.load(open(os.path.join(d, f)))))
    return out


def check_targets(env, ctx, r):
    """XPath::getTargetData on the real pattern compiler vs `targetData` of the model"""
    pats = [[a] for a in G.ALTS]
    for _ in range(60 if not ctx.thorough else 600):
        pats.append(G.gen_alts(r, True, True))
    bad = []
    for alts in pats:
        text = " | ".join(G.ALTS[a][0] for a in alts)
        real = env.harness("targets p=u1,q=u2 " + text.encode().hex())
        mod = env.model("targets %d %s" % (len(alts), " ".join("%s %s %d" % G.ALTS[a][1:4] for a in alts)))
        ctx.case(nontrivial_key="targets:" + text if len(alts) > 1 else None, cls="targets")
        if real != mod:
            bad.append({"pattern": text, "real": real, "model": mod})
    ctx.oblige("correspondence: XPath::getTargetData (real pattern compiler) = model targetData on %d patterns" % len(pats),
               "correspondence", not bad, json.dumps(bad[:3]))
    return bad


PROBE_XSL = """<xsl:stylesheet version="1.0" xmlns:xsl="http://www.w3.org/1999/XSL/Transform">
<xsl:template match="/"><o><xsl:for-each select="//*"><n name="{name()}"><xsl:apply-templates select="." mode="m"/></n></xsl:for-each></o></xsl:template>
<xsl:template match="a" mode="m" priority="PRIO">T1</xsl:template>
<xsl:template match="*" mode="m">T2</xsl:template>
</xsl:stylesheet>
"""
MODE_MAIN = """<xsl:stylesheet version="1.0" xmlns:xsl="http://www.w3.org/1999/XSL/Transform" xmlns:p="u1" exclude-result-prefixes="p">
<xsl:import href="mi.xsl"/>
<xsl:include href="mn.xsl"/>
<xsl:template match="/"><o><xsl:for-each select="//*"><n name="{name()}"><xsl:apply-templates select="." mode="p:m"/>|<xsl:apply-templates select="." mode="m"/></n></xsl:for-each></o></xsl:template>
<xsl:template match="r" mode="p:m">T1</xsl:template>
</xsl:stylesheet>
"""
MODE_INC = """<xsl:stylesheet version="1.0" xmlns:xsl="http://www.w3.org/1999/XSL/Transform" xmlns:q="u1" xmlns:p="u2">
<xsl:template match="a" mode="q:m">T2</xsl:template>
<xsl:template match="a" mode="p:m">T3</xsl:template>
</xsl:stylesheet>
"""
MODE_IMP = """<xsl:stylesheet version="1.0" xmlns:xsl="http://www.w3.org/1999/XSL/Transform" xmlns:z="u1" xmlns:p="u3">
<xsl:template match="*" mode="z:m">T4</xsl:template>
<xsl:template match="*" mode="p:m">T5</xsl:template>
<xsl:template match="*" mode="m">T6</xsl:template>
</xsl:stylesheet>
"""


def check_probes(env, ctx):
    """fixed stylesheets for what the generator's vocabulary does not reach: the lexical forms of the priority
    attribute (large, '.5', '5.', blanks; a value that overflows to -infinity; values that are not numbers) and mode
    QNames whose prefixes are bound differently in each module (modes are compared as expanded names)."""
    import re as _re
    d = os.path.join(WORK, "probe")
    os.makedirs(d, exist_ok=True)

    warns = []

    def runboth(xsl, xml):
        outs = []
        del warns[:]
        for q in (1, 0):
            r = env.harness("run %d %s %s" % (q, xsl, xml))
            if r is None or not r.startswith("OK "):
                outs.append("ERR %r" % (r or "")[:200])
                warns.append(-1)
            else:
                warns.append(int(r.split(" ", 2)[1]))
                outs.append(";".join("%s=%s" % m for m in _re.findall(r'<n name="([^"]*)">([^<]*)</n>', r)))
        return outs

    with open(os.path.join(d, "d.xml"), "w") as h:
        h.write("<r><a/><b/></r>")
    big = "1" + "0" * 400

    def prio(p):
        f = os.path.join(d, "p.xsl")
        with open(f, "w") as h:
            h.write(PROBE_XSL.replace("PRIO", p))
        return runboth(f, os.path.join(d, "d.xml"))

    bad = []
    for p, want in (("100000", "T1"), (".5", "T1"), ("5.", "T1"), (" 1 ", "T1"), (big, "T1"), ("0.25", "T1"),
                    ("-100000", "T2"), ("-.5", "T2"), ("-0.75", "T2")):
        q, r = prio(p)
        ctx.case(nontrivial_key="probe:prio:" + p[:12], cls="probe")
        exp = "r=T2;a=%s;b=T2" % want
        if q != exp or r != exp:
            ctx.fail("c10.violation: priority=%r: quiet %s reporting %s, section 5.5 %s" % (p[:20], q, r, exp),
                     "priority attribute %r: quiet %s, reporting %s, expected %s" % (p[:20], q, r, exp),
                     {"probe": "priority", "value": p})
    q, r = prio("-" + big)
    ctx.case(nontrivial_key="probe:prio:-inf", cls="probe")
    exp = "r=T2;a=T2;b=T2"
    if q != exp or r != exp:
        ctx.fail("c10.defect[priority-negative-overflow]: priority=-1e400 written in digits: quiet %s reporting %s, section 5.5 %s" % (q, r, exp),
                 "a priority that overflows to -infinity is taken for 'no priority attribute'", {"probe": "priority", "value": "-1" + "0" * 400})
    for p in ("abc", "+1", "1e5", ""):
        q, r = prio(p)
        ctx.case(nontrivial_key="probe:prio:nan:" + p, cls="probe")
        if q != r:
            ctx.fail("c10.defect[invalid-priority-nan]: priority=%r: quiet %s, reporting %s" % (p, q, r),
                     "a priority attribute that is not a number is accepted silently and the two findTemplate bodies then choose different rules",
                     {"probe": "priority", "value": p})
    # more conflicting rules than the 100-entry stack array of the reporting body holds (conflicts_within_capacity)
    for n in (99, 100, 101, 150):
        rules = "".join('<xsl:template match="%s" mode="m">T%d</xsl:template>\n' % ("a" if i % 2 else "*", i) for i in range(1, n + 1))
        f = os.path.join(d, "many.xsl")
        with open(f, "w") as h:
            h.write(PROBE_XSL.split("<xsl:template match=\"a\"")[0] + rules + "</xsl:stylesheet>\n")
        q, r = runboth(f, os.path.join(d, "d.xml"))
        ctx.case(nontrivial_key="probe:many:%d" % n, cls="probe")
        last_star = n if n % 2 == 0 else n - 1
        last_a = n if n % 2 else n - 1
        exp = "r=T%d;a=T%d;b=T%d" % (last_star, last_a, last_star)
        if q != exp or r != exp or warns != [0, 3]:
            ctx.fail("c10.violation: %d conflicting rules: quiet %s reporting %s warnings %s, expected %s and 3 warnings" % (n, q, r, warns, exp),
                     "%d rules of equal priority in one mode: the last one must win in both bodies, one warning per node" % n,
                     {"probe": "many", "n": n})
    # xsl:include: the included rules take the includer's import precedence and their document position
    with open(os.path.join(d, "inc_main.xsl"), "w") as h:
        h.write(PROBE_XSL.split("<xsl:template match=\"a\"")[0].replace(
            "<xsl:template match=\"/\">", "<xsl:import href=\"inc_imp.xsl\"/>\n<xsl:template match=\"/\">", 1) +
            '<xsl:template match="a" mode="m">T1</xsl:template>\n<xsl:include href="inc_inc.xsl"/>\n'
            '<xsl:template match="b" mode="m">T4</xsl:template>\n</xsl:stylesheet>\n')
    with open(os.path.join(d, "inc_inc.xsl"), "w") as h:
        h.write('<xsl:stylesheet version="1.0" xmlns:xsl="http://www.w3.org/1999/XSL/Transform">\n'
                '<xsl:template match="a" mode="m">T2</xsl:template>\n<xsl:template match="b" mode="m">T3</xsl:template>\n</xsl:stylesheet>\n')
    with open(os.path.join(d, "inc_imp.xsl"), "w") as h:
        h.write('<xsl:stylesheet version="1.0" xmlns:xsl="http://www.w3.org/1999/XSL/Transform">\n'
                '<xsl:template match="*" mode="m" priority="10">T5</xsl:template>\n</xsl:stylesheet>\n')
    q, r = runboth(os.path.join(d, "inc_main.xsl"), os.path.join(d, "d.xml"))
    ctx.case(nontrivial_key="probe:include", cls="probe")
    exp = "r=T5;a=T2;b=T4"
    if q != exp or r != exp:
        ctx.fail("c10.violation: xsl:include precedence: quiet %s reporting %s expected %s" % (q, r, exp),
                 "included rules have the includer's import precedence and compete by document position", {"probe": "include"})
    for name, txt in (("mm.xsl", MODE_MAIN), ("mn.xsl", MODE_INC), ("mi.xsl", MODE_IMP)):
        with open(os.path.join(d, name), "w") as h:
            h.write(txt)
    q, r = runboth(os.path.join(d, "mm.xsl"), os.path.join(d, "d.xml"))
    ctx.case(nontrivial_key="probe:modes", cls="probe")
    exp = "r=T1|T6;a=T2|T6;b=T4|T6"
    if q != exp or r != exp:
        ctx.fail("c10.violation: prefixed modes: quiet %s reporting %s expected %s" % (q, r, exp),
                 "mode QNames must be compared as expanded names, the prefix being resolved in the module that uses it",
                 {"probe": "modes"})


def run(ctx):
    ctx.rule = ("a case is one rule set (modules with xsl:import/xsl:include, modes, explicit/default priorities, unions) "
                "with one document; for every node and each of three modes the rule instantiated by the real engine "
                "(quiet and reporting) is compared with the model and with the section 5.5 winner; non-trivial = some node "
                "is matched by at least two rules; distinct = distinct case text")
    ctx.trusted += [
        "translate/c10_priority.py (regex extraction) ; harness/c10_conflict.cpp ; gen/c10_rules.py ; checks/c10.py",
        "pattern matching is abstract in the theorems; the harness obtains `matches` by evaluating each alternative's "
        "defining expression with Xalan's XPath evaluator in the same stylesheet (agreement of the two is property C09)",
        "modelled, not verified: dynamic match score = default score of the first matching alternative; SAX stylesheet "
        "construction (StylesheetHandler) is reached only through the correspondence run",
    ]
    ctx.build("hooks")
    ctx.translate("c10_priority")
    ctx.lean("XalanModel.Props.C10", THEOREMS, extra_targets=["xm_c10"])
    model = ctx.exe("xm_c10")
    if model is None:
        return
    harness = common.build_harness("c10_conflict", ["c10_conflict.cpp"], flavor="hooks")
    os.makedirs(WORK, exist_ok=True)
    env = Env(harness, model)
    r = Rng(ctx.seed)
    try:
        check_targets(env, ctx, r)
        check_probes(env, ctx)
        ncases = 2500 if not ctx.thorough else 40000
        corpus = load_corpus()
        cases = [("corpus:" + f, c) for f, c in corpus]
        for i in range(ncases):
            cases.append(("gen:%d" % i, G.gen_case(r, "quick" if (not ctx.thorough or i % 3) else "thorough")))
        if ctx.thorough:
            cases.extend(exhaustive_cases())
        corr_bad = []
        warn_bad = []
        engine_errors = []
        nq = 0
        seen_defects = {}
        ncrash = 0
        for name, case in cases:
            res = evaluate(env, case)
            cls = name.split(":")[0]
            if res["error"]:
                engine_errors.append({"case": name, "error": res["error"], "desc": describe(case)[:600]})
                ctx.case(cls=cls + ":error")
                if "The error code is '12'" in res["error"]:
                    res["crash"] = True     # the engine hit its memory limit
                if res.get("crash") and any(t.get("call") for _, t, _ in G.all_templates(case["main"])):
                    r2 = evaluate(env, G.inline_calls(case), tag="attr")
                    if not r2["error"]:
                        ctx.fail("c10.defect[call-template-current-rule]: the engine does not terminate :: " + describe(case)[:300],
                                 "apply-imports in a called named template re-enters the calling rule for ever", case)
                        continue
                if not res.get("crash") and res["error"].startswith("engine(") and len(engine_errors) <= 3:
                    # a valid rule set on which the engine reports an error instead of instantiating the prescribed rules
                    ctx.fail("c10.violation: the engine fails on a valid rule set: %s :: %s" % (res["error"][:160], describe(case)[:300]),
                             "the engine reports an error instead of instantiating the rules section 5.5 prescribes: " + res["error"][:300],
                             case)
                if res.get("crash"):
                    ncrash += 1
                    ctx.fail("c10.crash: " + describe(case)[:300],
                             "the engine crashed, ran out of its 3 GB memory limit or did not answer within 20 s on this rule set: "
                             + res["error"], case)
                    if ncrash >= 3:
                        log_stop = "stopped after %d engine crashes/hangs (%d of %d cases run)" % (ncrash, len(engine_errors), len(cases))
                        ctx.oblige("all generated cases were run", "correspondence", False, log_stop)
                        break
                continue
            nq += len(res["queries"])
            for (qn, qm), qq in res["queries"].items():
                if not qq["rq"] or not qq["rq"][0].startswith("T"):
                    hk = "builtin:%s:%s" % (res["nodes"][qn]["kind"], "default-mode" if qm == 0 else "mode")
                    ctx.hist[hk] = ctx.hist.get(hk, 0) + 1
                elif len(qq["rq"]) > 1 and not all(x.startswith("T") for x in qq["rq"][1:]) or (
                        qq["rq"] != qq["sp"][:len(qq["rq"])] and False):
                    ctx.hist["rule-then-builtin(apply-imports fallback)"] = ctx.hist.get("rule-then-builtin(apply-imports fallback)", 0) + 1
            ctx.case(nontrivial_key=case_hash(case) if nontrivial(res) else None,
                     sample={"case": describe(case)[:400]} if name in ("gen:0", "gen:1") else None, cls=cls)
            nmod = len(G.all_modules(case["main"]))
            ctx.hist["modules:%d" % min(nmod, 5)] = ctx.hist.get("modules:%d" % min(nmod, 5), 0) + 1
            corr, prop = issues(res)
            if not corr and (res["warnings"][0] != 0 or res["warnings"][1] != res.get("warn_model", 0)):
                warn_bad.append({"case": name, "engine_quiet": res["warnings"][0], "engine_reporting": res["warnings"][1],
                                 "model_reporting": res.get("warn_model", 0), "desc": describe(case)[:600]})
            if corr:
                key, path, q = corr[0]
                corr_bad.append({"case": name, "node": key[0], "mode": key[1], "path": path, "real": q["rq" if path == "q" else "rr"],
                                 "model": q["mq" if path == "q" else "mr"], "spec": q["sp"], "desc": describe(case)[:800],
                                 "input": case})
            done = set()
            for key, path, q in prop:
                names = attribute(env, case, res, key, path, q)
                real = q["rq"] if path == "q" else q["rr"]
                if names:
                    tagk = "+".join(names)
                    if tagk in done:
                        continue
                    done.add(tagk)
                    seen_defects[tagk] = seen_defects.get(tagk, 0) + 1
                    ctx.fail("c10.defect[%s]: node %d mode %d %s: engine %s, section 5.5 %s :: %s" % (
                        tagk, key[0], key[1], "quiet" if path == "q" else "reporting", ",".join(real) or "-", ",".join(q["sp"]) or "-",
                        describe(case)[:300]),
                        "real engine instantiates %s, section 5.5 prescribes %s" % (real, q["sp"]), case)
                else:
                    if "unexplained" in done:
                        continue
                    done.add("unexplained")

                    def pred(c, key=key, path=path):
                        r2 = evaluate(env, c, tag="shrink")
                        if r2["error"]:
                            return False
                        _, p2 = issues(r2)
                        return any(attribute(env, c, r2, k2, p2_, q2) is None for k2, p2_, q2 in p2[:4])
                    small = shrink(env, case, pred)
                    r3 = evaluate(env, small, tag="shrink")
                    _, p3 = issues(r3) if not r3["error"] else ([], [])
                    what = "real engine instantiates %s, section 5.5 prescribes %s" % (real, q["sp"])
                    if p3:
                        k3, pa3, q3 = p3[0]
                        what = "node %d mode %d (%s): real engine instantiates %s, section 5.5 prescribes %s" % (
                            k3[0], k3[1], "quiet" if pa3 == "q" else "reporting", q3["rq" if pa3 == "q" else "rr"], q3["sp"])
                    ctx.fail("c10.violation: " + describe(small)[:500], what, small)
        ctx.oblige("correspondence: rule instantiated by the real engine (quiet and reporting) = transcribed findTemplate on every "
                   "generated query (%d queries)" % nq, "correspondence", not corr_bad,
                   json.dumps([{k: v for k, v in b.items() if k != "input"} for b in corr_bad[:2]]))
        ctx.oblige("correspondence: number of 'conflicts found' warnings issued by the engine (0 when quiet) = model, per case",
                   "correspondence", not warn_bad, json.dumps(warn_bad[:3]))
        if corr_bad:
            ctx.extra["model_disagreements"] = corr_bad[:5]
        ctx.oblige("every generated stylesheet was accepted by the engine", "correspondence", not engine_errors,
                   json.dumps(engine_errors[:3]))
        ctx.extra["queries"] = nq
        ctx.extra["engine_runs"] = env.runs
        ctx.extra["defect_classes_seen"] = seen_defects
        ctx.exhaustive = False
    finally:
        env.close()
        import shutil
        shutil.rmtree(WORK, ignore_errors=True)


def exhaustive_cases():
    """thorough tier: every rule set of <= 3 rules over a 6-pattern alphabet (single module, mode-less, no explicit
    priority or priority 0), on one fixed document"""
    import itertools
    doc = {"k": "rt", "kids": [{"k": "el", "name": "a", "attrs": [["x", "w1"]], "kids": [
        {"k": "el", "name": "b", "attrs": [], "kids": [{"k": "tx", "text": "v1"}]},
        {"k": "el", "name": "a", "attrs": [], "kids": []},
        {"k": "co", "text": "c1"}]}]}
    alphabet = [(["a"], None), (["*"], None), (["a[1]"], None), (["node()"], None), (["a", "b"], None), (["*"], 0),
                (["a/b", "text()"], None), (["@x"], None)]
    out = []
    for n in (1, 2, 3):
        for combo in itertools.product(range(len(alphabet)), repeat=n):
            items = []
            for i, ci in enumerate(combo):
                alts, pr = alphabet[ci]
                items.append({"t": {"id": i + 1, "mode": 0, "prio": pr, "alts": list(alts), "ai": False}})
            out.append(("exh:%s" % "".join(map(str, combo)),
                        {"doc": doc, "keymatch": "b", "main": {"wrapperless": False, "rebind": False, "imports": [], "items": items}}))
    return out


def replay(ctx, path):
    d = json.load(open(path))
    ctx.build("hooks")
    common.lake_build(["xm_c10"])
    model = ctx.exe("xm_c10")
    harness = common.build_harness("c10_conflict", ["c10_conflict.cpp"], flavor="hooks")
    os.makedirs(WORK, exist_ok=True)
    env = Env(harness, model)
    rc = 0
    try:
        first = d.get("first") or {}
        case = first.get("input")
        if not isinstance(case, dict) or "main" not in case:
            print("replay file names broken obligations only:", json.dumps(d.get("broken_obligations"), indent=1)[:3000])
            return 1
        print("case:", describe(case))
        res = evaluate(env, case, tag="replay")
        if res["error"]:
            print("engine/model error:", res["error"])
            return 1
        print("files:", res["dir"])
        corr, prop = issues(res)
        for key, p, q in prop:
            print("node %d mode %d %s: engine=%s model=%s section5.5=%s" % (
                key[0], key[1], "quiet" if p == "q" else "reporting", q["rq" if p == "q" else "rr"], q["mq" if p == "q" else "mr"], q["sp"]))
            rc = 1
        for key, p, q in corr:
            print("model disagreement at node %d mode %d %s: engine=%s model=%s" % (
                key[0], key[1], p, q["rq" if p == "q" else "rr"], q["mq" if p == "q" else "mr"]))
            rc = 1
        if rc == 0:
            print("no violation on this input")
    finally:
        env.close()
    return rc
