"""C19 — pluggable memory manager: balanced use, allocation failure is survivable (DESIGN.md §5 C19, design/C19.md).

proof:          lean/XalanModel/Props/C19.lean — allocation-explicit models of XalanVector (copy-construct-then-swap
                growth), XalanList (lazy sentinel, constructNode with a throwing element copy, free list),
                XalanAllocationGuard/XalanConstruct and the reserve-before-create idiom over a ledger of live blocks
                with a one-shot refusal at an arbitrary request index.
correspondence: (1) harness/c19_containers.cpp: the real templates under a counting/failing manager (ASan+UBSan) vs
                lean/Driver/C19.lean on the same op logs, for EVERY refusal index of every log;
                (2) harness/c19_memmgr.cpp: fault enumeration of the real API — for each scenario and each phase
                (ctor/compile/parse/transform/destroy) every allocation index k is refused once, each in a child
                process; the C19 specification predicate is evaluated on each outcome, and recorded alloc/free
                traces are replayed on the Lean ledger (`Ledger.replayAll`, `Ledger.Balanced`).
"""
import os
import re

from vlib import common
from vlib.common import Rng

CLAIMED = True
LEVEL = "proof"
TECHNIQUE = ("Lean 4 invariant proofs (every history, every refusal index, every frame of foreign blocks) over allocation-explicit "
             "models of the library's allocation building blocks -- XalanVector with and without allocating elements, XalanList, "
             "XalanDeque (push/pop/clear, allocating values), XalanMap (buckets, rehash, entry recycling, allocating values), "
             "ReusableArenaBlock and the allocate/construct/commit protocol, the arena block list as an owner state machine, "
             "XalanMemMgrAutoPtr, XalanArrayAllocator, the transcoder slot of XalanOutputStream, the busy/available partition of "
             "XalanDOMStringCache with its bound, the evicting most-recently-used caches (shape and bound read by a translator), "
             "XalanConstruct/XalanAllocationGuard, reserve-before-create -- each tied to the working "
             "tree by lock-step replay of the real templates / classes under a counting/failing MemoryManager (for every refusal index "
             "where the object allocates); a translator regenerates the table of all XalanConstruct overloads and placement-new sites "
             "and the guard-shape theorems are re-proved over it; the library as a whole is covered by exhaustive fault-index "
             "ENUMERATION (not proof): every allocation index of every phase of a fixed scenario set of the XalanTransformer API, of "
             "XalanTransformer::initialize(manager) followed by a retry, and of an XPathEvaluator under a second manager is refused "
             "once in its own process and evaluated against the specification predicate, with one ledger per manager")
LEVEL_TEXT = ("PROVED (Props/C19.lean, kernel-checked, unbounded): with a ledger of outstanding blocks in which request number k is "
              "refused for an arbitrary k, the modelled vectors (also with elements whose copy allocates, including every index inside "
              "the element-copy loops), lists, deques, maps, arena blocks, arena block lists, array allocators and auto pointers keep "
              "live = owned + frame (+ the blocks a refused create-then-push is known to lose), never free a block they do not own, "
              "stay destructible after any refusal and return every block in their destructors; destroyObject of the arena block list "
              "and the destructors/clear of lists make no allocation request; XalanConstruct and reserve-before-create are "
              "exception-neutral; every XalanConstruct/XalanCopyConstruct overload and every placement-new site of the current tree has "
              "an owner for its storage (regenerated table, decide); the output stream's transcoder slot is never destroyed twice over "
              "all setOutputEncoding histories; over all get/release/reset/clear histories of XalanDOMStringCache with any bound the "
              "strings alive in its allocator are exactly the strings its two lists name and none is destroyed twice "
              "(cache_release_destroys_once); every cache bound of the tree is crossed by bound + 2 in a scenario and every evicting cache "
              "destroys exactly the entry it removes (regenerated table; eviction_destroys_the_evicted_entry). The defects of the original code, and the seeded mutations met so far, are proved as "
              "counterexamples. Names ending _partial say what is missing (one arena block, lists only). ENUMERATED, NOT PROVED: the "
              "~1000-14000 allocation sites of a transformation -- for the fixed scenarios of gen/corpus/c19 (16 stylesheets incl. "
              "bounded-cache crossings and duplicate map keys at compile time, two-transformer/two-manager, Xerces-DOM and "
              "document-builder sources, 26 stylesheets failing for non-memory reasons, 2 reused-output-stream scenarios) every "
              "allocation index of ctor/compile/parse/transform/destroy is refused once on the real library (exhaustive in the index, "
              "not in scenarios; the largest transform phases in the thorough tier only) and process survival, double/foreign frees per "
              "manager, surfacing of the failure, balance at destruction (also of the compiled stylesheet alone) and a fresh transformer "
              "are checked; likewise every request of the global initialisation (then: retry with the same manager / discard it and "
              "initialise with a fresh one, transform, terminate), every request of terminate(), and of an "
              "XPathEvaluator over a document of another manager; XercesParserLiaison::destroyDocument by balance only; recorded traces "
              "are judged by the Lean ledger.")
LEVEL_NOTE = ("Trusted: Lean kernel; axioms propext/Classical.choice/Quot.sound only; the hand transcriptions of XalanVector.hpp, "
              "XalanList.hpp, XalanDeque.hpp, XalanMap.hpp, ReusableArenaBlock.hpp, ReusableArenaAllocator.hpp, XalanMemMgrAutoPtr.hpp, "
              "XalanArrayAllocator.hpp, XalanMemoryManagement.hpp, XalanOutputStream::setOutputEncoding and XalanDOMStringCache.cpp "
              "(each checked by lock-step correspondence with the real code, bounded by generator coverage; element construction "
              "abstracted to 'one allocation that may be refused'; the string cache is modelled over the ledger of its string allocator "
              "and without refusals); the fault-injecting managers, the per-index child processes and the stack symbolisation of "
              "harness/c19_memmgr.cpp; the behaviour probes that select the model configuration. Not modelled at all: global "
              "initialisation, XercesParserLiaison, the XObject factory / node-list / formatter caches and every XSLT/XPath class -- "
              "these are reached only by the fault enumeration over the scenario set, whose verdict is a complete finite enumeration "
              "per scenario, not a theorem.")
THEOREMS = [
    "XalanModel.Props.C19.ledger_replay_agrees_with_primitives",
    "XalanModel.Props.C19.vector_step_contained",
    "XalanModel.Props.C19.vector_balanced_and_failure_contained",
    "XalanModel.Props.C19.vector_alloc_elems_balanced_and_failure_contained",
    "XalanModel.Props.C19.vector_size_before_loop_counterexample",
    "XalanModel.Props.C19.vector_strong_guarantee",
    "XalanModel.Props.C19.list_step_contained",
    "XalanModel.Props.C19.list_balanced_and_failure_contained_partial",
    "XalanModel.Props.C19.list_destructor_does_not_allocate",
    "XalanModel.Props.C19.list_clear_guarded_does_not_allocate",
    "XalanModel.Props.C19.list_clear_allocates_counterexample",
    "XalanModel.Props.C19.list_throwing_copy_counterexample",
    "XalanModel.Props.C19.arena_balanced_and_failure_contained_partial",
    "XalanModel.Props.C19.arena_uncommitted_slot_counterexample",
    "XalanModel.Props.C19.deque_null_block_counterexample",
    "XalanModel.Props.C19.arena_destroyObject_makes_no_request",
    "XalanModel.Props.C19.arena_free_list_not_exhausted",
    "XalanModel.Props.C19.arena_blocklist_balanced_and_failure_contained",
    "XalanModel.Props.C19.arena_push_then_erase_allocates_counterexample",
    "XalanModel.Props.C19.autoptr_balanced_and_failure_contained",
    "XalanModel.Props.C19.map_balanced_and_failure_contained",
    "XalanModel.Props.C19.map_insert_contained",
    "XalanModel.Props.C19.map_stale_bucket_counterexample",
    "XalanModel.Props.C19.deque_balanced_and_failure_contained",
    "XalanModel.Props.C19.deque_repaired_steps_defined",
    "XalanModel.Props.C19.deque_empty_trailing_block_counterexample",
    "XalanModel.Props.C19.all_construct_overloads_guarded",
    "XalanModel.Props.C19.all_placement_sites_owned",
    "XalanModel.Props.C19.ostream_transcoder_no_double_destroy",
    "XalanModel.Props.C19.ostream_stale_pointer_counterexample",
    "XalanModel.Props.C19.guard_idiom_sound",
    "XalanModel.Props.C19.reserve_before_create_sound",
    "XalanModel.Props.C19.create_then_push_leaks_counterexample",
    "XalanModel.Props.C19.cache_release_destroys_once",
    "XalanModel.Props.C19.cache_early_return_release_counterexample",
    "XalanModel.Props.C19.cache_reset_ignores_bound_example",
    "XalanModel.Props.C19.array_allocator_balanced_and_failure_contained",
    "XalanModel.Props.C19.array_allocator_clear_leaks_counterexample",
    "XalanModel.Props.C19.all_bounded_caches_crossed",
    "XalanModel.Props.C19.all_evicting_caches_consistent",
    "XalanModel.Props.C19.eviction_destroys_the_evicted_entry",
    "XalanModel.Props.C19.lru_destroy_front_pop_back_counterexample",
]

CORPUS_DIR = os.path.join(common.ROOT, "gen", "corpus", "c19")

# (name, api) — fixed scenario set: known findings are keyed by call site, so the inputs are not randomised
QUICK_SCENARIOS = [("s1", "split"), ("s2", "direct"), ("s3", "split"), ("s4", "direct"), ("s7", "split"), ("s8", "split"),
                   ("s9", "split"),   # nested include/import chain, keys, decimal-formats, attribute-sets, document(), EXSLT
                   ("s10", "split"),  # every Elem* type, extension elements with xsl:fallback after heap-allocated elements
                   ("s11", "split"),  # > blockSize simultaneously live objects of the arena-allocated types, out-of-order release
                   # bounded caches crossed: recursion of depth 130 whose parameters are a concat() string, a number, a growing
                   # node-set and a result tree fragment: > 100 cached strings / XObjects / node lists borrowed at once
                   ("s12", "split"),
                   # compile-time map inserts with duplicates: extension-element-prefixes / exclude-result-prefixes naming one
                   # URI through several prefixes, duplicate keys / decimal-formats / attribute-sets across an import
                   ("s13", "split"),
                   # two transformers with DIFFERENT managers: stylesheet compiled and source parsed by A (manager MA),
                   # transformed by B (manager MB); per-manager ledgers, a release to the other manager is a foreign release
                   ("s2", "cross"), ("s11", "cross"),
                   # the source is a XalanDocumentBuilder (made by the transformer, fed by a SAX2 reader); crossb: built by A, used by B
                   ("s2", "builder"), ("s2", "crossb"),
                   # the other bounded caches / pools: > 50 run-time match patterns, 60 dyn:evaluate strings, result tree
                   # fragments nested 45 deep, xsl:sort inside a recursion 45 deep
                   ("s14", "split"),
                   # the evicting caches: 12 distinct decimal-format symbol sets through format-number() (ICU DecimalFormat cache,
                   # 10 entries), 12 distinct xsl:sort lang values (ICU collator cache, 10 entries); bound + 2 keys, then recently
                   # used, evicted and surviving keys again
                   ("s15", "split"), ("s16", "split"),
                   # Xerces-DOM parsed source (parseSource(.., true) / destroyParsedSource)
                   ("s2", "xdom")]
THOROUGH_SCENARIOS = QUICK_SCENARIOS + [("s5", "split"), ("s6", "split"), ("s2", "split"), ("s5", "direct"), ("s9", "direct")]
PHASES = ["ctor", "compile", "parse", "transform", "destroy"]

# Stylesheets that FAIL for reasons other than memory: each hits the constructor / checks of one instruction class (built with the
# XalanConstruct overloads or an arena create()), or fails at run time.  Balance (no refusal) is evaluated for all of them in
# every run; their refusal sweeps rotate with the seed in the quick tier and are complete in the thorough tier.
BAD_FAMILY = ["b%02d" % i for i in range(1, 28) if i != 17]
# application-owned XalanStdOutputStream + XalanOutputStreamPrintWriter reused for several results with different encodings
WRITER_SCENARIOS = [("w2", "writer"), ("w1", "writer")]     # w2: ISO-8859-1, US-ASCII;  w1: nine results incl. UTF-16/UTF-8/unsupported
# quick tier: phases swept per scenario (default: all); the rest of a large scenario is swept in the thorough tier
# quick tier: a phase of these scenarios is SAMPLED -- every stride-th allocation index, the offset rotating with the seed (the
# thorough tier sweeps every index)
QUICK_STRIDE = {"s12": 16, "s14": 64}
QUICK_PHASES = {"s11": ("ctor", "parse", "transform", "destroy"), "w1": (),
                # counting runs (balance per manager, no refusal) in quick; refusal sweeps in the thorough tier
                "s12": ("transform",), "s13": (), "s2-cross": (), "s11-cross": (), "s2-xdom": ("parse", "destroy"),
                "s2-builder": ("parse",), "s2-crossb": (), "s14": ("transform",),
                "s15": ("transform", "destroy"), "s16": ("transform", "destroy"),
                # the two largest compile phases are swept in the thorough tier only (their counting runs, i.e. balance with and
                # without the compiled stylesheet alone, stay in quick)
                "s9": ("ctor", "parse", "transform", "destroy"), "s10": ("ctor", "parse", "transform", "destroy")}


def fields(line):
    d = {}
    for tok in line.split():
        if "=" in tok:
            k, v = tok.split("=", 1)
            d[k] = v
    return d


def site_of(f):
    """call-site part of the key of a child that did not end normally"""
    def two(frames, after):
        if after in frames:
            i = frames.index(after)
            return "|".join(frames[i + 1:i + 3])
        return None
    if "terminate" in f:
        t = f["terminate"].split("|")
        s = two(t, "FaultManager::allocate")
        if s:
            return "api.terminate[%s]" % s
        s = two(t, "_Unwind_Resume")
        if s:
            return "api.terminate[resume:%s]" % s
        return "api.terminate[?%s]" % "|".join(t[:4])
    fs = "|".join(f.get("failsite", "?").split("|")[:2])
    if f.get("asan"):
        return "api.asan[%s] after[%s]" % (f["asan"], fs)
    if "signal" in f:
        return "api.signal%s[%s] after[%s]" % (f["signal"], "|".join(f.get("sigstack", "?").split("|")[:2]), fs)
    return "api.died[%s] after[%s]" % (f.get("end", "?"), fs)


def run_harness(exe, args, timeout=1200):
    rc, out = common.sh([exe] + args, cwd=CORPUS_DIR, timeout=timeout)
    return rc, [l for l in out.split("\n") if l.strip()]


def lean_trace_verdict(model, path):
    """feed a recorded alloc/free trace to the Lean ledger; returns the `end` reply as dict"""
    rc, out = common.sh("%s < %s" % (model, path))
    lines = [l for l in out.split("\n") if l.strip()]
    if not lines:
        return None
    last = lines[-1]
    d = fields(last)
    d["verdict"] = last.split()[0]
    return d


# ---------------------------------------------------------------------------------------------------------------------
# container correspondence

def gen_list_ops(r, n):
    ops, length = [], 0
    for _ in range(n):
        k = r.weighted([("pushb", 8), ("pushf", 4), ("popf", 3), ("popb", 3), ("clear", 2), ("empty", 2)])
        if k in ("pushb", "pushf"):
            ops.append("l %s %d" % (k, r.range(-5, 50))); length += 1
        elif k in ("popf", "popb"):
            if length == 0:
                continue
            ops.append("l " + k); length -= 1
        elif k == "clear":
            ops.append("l clear"); length = 0
        else:
            ops.append("l empty")
    ops.append("l destroy")
    return ops


def gen_vec_ops(r, n):
    ops, length = [], 0
    holds_objects = False   # once the vector holds created objects the log no longer pops/clears (that would be the caller leaking them)
    for _ in range(n):
        k = r.weighted([("push", 10), ("reserve", 3), ("pop", 3), ("clear", 1), ("rtc", 3), ("ctp", 2)])
        if holds_objects and k in ("pop", "clear"):
            continue
        if k in ("rtc", "ctp"):
            holds_objects = True
        if k == "push":
            ops.append("v push %d" % r.range(-5, 50)); length += 1
        elif k == "reserve":
            ops.append("v reserve %d" % r.range(0, length + 8))
        elif k == "pop":
            if length == 0:
                continue
            ops.append("v pop"); length -= 1
        elif k == "clear":
            ops.append("v clear"); length = 0
        else:
            ops.append("v " + k); length += 1
    ops.append("v destroy")
    return ops


def gen_arena_ops(r, n):
    """ReusableArenaBlock<Boxed>: create / destroyObject over one block; indices follow the block's own free list
    (simulated without refusals; after a refusal a destroy may name an empty slot: replied `ub`, a caller error)"""
    size = r.range(1, 4)
    ops = ["a new %d" % size]
    free, objs = list(range(size)), []
    for _ in range(n):
        k = r.weighted([("create", 6), ("destroy", 3)])
        if k == "create":
            ops.append("a create %d" % r.range(0, 60))
            if len(objs) < size and free:
                objs.append(free.pop(0))
        elif objs:
            i = objs.pop(r.below(len(objs)))
            ops.append("a destroy %d" % i)
            free.insert(0, i)
    ops.append("a free")
    return ops


def gen_bvec_ops(r, n):
    """XalanVector<Boxed>: every element copy is a refusable allocation (grow / reserve / copy constructor / resize)"""
    ops, length = [], 0
    for _ in range(n):
        k = r.weighted([("push", 9), ("reserve", 3), ("pop", 2), ("clear", 1), ("resize", 3), ("copy", 3)])
        if k == "push":
            ops.append("bv push %d" % r.range(0, 60)); length += 1
        elif k == "reserve":
            ops.append("bv reserve %d" % r.range(0, length + 6))
        elif k == "pop":
            if length == 0:
                continue
            ops.append("bv pop"); length -= 1
        elif k == "clear":
            ops.append("bv clear"); length = 0
        elif k == "resize":
            n2 = r.range(0, length + 4)
            ops.append("bv resize %d %d" % (n2, r.range(0, 9))); length = n2
        else:
            ops.append("bv copy")
    ops.append("bv destroy")
    return ops


def gen_ra_ops(r, n):
    """ReusableArenaAllocator<Boxed>: creates beyond one block, releases in arbitrary order (objects named by creation index;
    after a refusal an index may name an object that was never made: replied `ub`, a caller error)"""
    ops = ["ra new %d" % r.range(1, 3)]
    made, alive = 0, []
    for _ in range(n + 4):
        if alive and r.chance(2, 5):
            j = alive.pop(r.below(len(alive)))
            ops.append("ra destroy %d" % j)
        else:
            ops.append("ra create %d" % r.range(0, 60)); alive.append(made); made += 1
    r2 = r.shuffle(alive)
    for j in r2[:len(r2) // 2]:
        ops.append("ra destroy %d" % j)
    ops.append("ra free")
    return ops


def gen_ap_ops(r, n):
    """two XalanMemMgrAutoPtr<Thing> and the raw pointers the caller got from release()"""
    ops = []
    for _ in range(n + 2):
        k = r.weighted([("make", 6), ("move", 3), ("release", 2), ("reset", 2)])
        if k == "move":
            ops.append("ap move %d %d" % (r.below(2), r.below(2)))
        else:
            ops.append("ap %s %d" % (k, r.below(2)))
    ops.append("ap destroy")
    return ops


def gen_aa_ops(r, n):
    """XalanArrayAllocator<long> with a small block size: best-fit reuse, oversized requests, reset() and clear()"""
    bs = r.choice([1, 2, 4, 4, 6])
    ops = ["aa new %d" % bs]
    for _ in range(n + 2):
        k = r.weighted([("alloc", 8), ("reset", 2), ("clear", 2)])
        ops.append("aa alloc %d" % r.range(1, bs + 2) if k == "alloc" else "aa " + k)
    ops.append("aa destroy")
    return ops


def gen_map_ops(r, n):
    """XalanMap<int,long> with a small bucket count, so that rehash, bucket growth and entry recycling all happen"""
    ops = ["m new %d" % r.choice([1, 2, 3, 5])]
    for _ in range(2 * n + 3):
        k = r.weighted([("ins", 12), ("erase", 5), ("clear", 1), ("find", 2)])
        if k == "ins":
            ops.append("m ins %d %d" % (r.range(0, 14), r.range(0, 99)))
        elif k == "erase":
            ops.append("m erase %d" % r.range(0, 14))
        elif k == "find":
            ops.append("m find %d" % r.range(0, 14))
        else:
            ops.append("m clear")
    ops.append("m destroy")
    return ops


def gen_dq_ops(r, n):
    """XalanDeque<long> / XalanDeque<Boxed>: push_back, pop_back, clear over small blocks (blocks are recycled)"""
    pre = r.choice(["dql", "dqb"])
    ops, cnt = ["%s new %d" % (pre, r.range(1, 3))], 0
    for _ in range(2 * n + 2):
        k = r.weighted([("push", 7), ("pop", 4), ("clear", 1)])
        if k == "push":
            ops.append("%s push %d" % (pre, r.range(0, 60))); cnt += 1
        elif k == "pop":
            if cnt == 0:
                continue
            ops.append(pre + " pop"); cnt -= 1
        else:
            ops.append(pre + " clear"); cnt = 0
    ops.append(pre + " destroy")
    return ops


def gen_bmap_ops(r, n):
    """XalanMap<int, Boxed>: the value copy is one more refusable request inside doCreateEntry"""
    return [o.replace("m ", "mb ", 1) for o in gen_map_ops(r, n)]


def gen_deque_ops(r, n):
    ops = ["d new %d" % r.range(1, 3)]
    for _ in range(n):
        k = r.weighted([("push", 8), ("size", 2)])
        ops.append("d push %d" % r.range(0, 60) if k == "push" else "d size")
    ops.append("d destroy")
    return ops


CONTAINER_CORPUS = [
    # XalanArrayAllocator<long>: clear() after allocations, nothing refused; and the create-then-push refusal of createEntry
    (0, ["aa new 4", "aa alloc 2", "aa alloc 3", "aa clear", "aa alloc 1", "aa destroy"]),
    (3, ["aa new 4", "aa alloc 1", "aa alloc 1", "aa destroy"]),
    # XalanMap<int, Boxed>: value copy of `ins 2` refused (request 13); the free entry already says erased = false and key 2, and the
    # single bucket still holds the stale iterator of the erased key 1 -> erase(2) finds the free entry
    (13, ["mb new 1", "mb ins 3 30", "mb ins 1 10", "mb erase 1", "mb ins 2 20", "mb erase 2", "mb destroy"]),
    # XalanDeque<Boxed>: element copy refused right after a new block was appended (request 4 = the element) -> empty trailing block
    (4, ["dqb new 1", "dqb push 1", "dqb destroy"]),
    (7, ["dqb new 1", "dqb push 1", "dqb push 2", "dqb pop", "dqb destroy"]),
    (0, ["dql new 2", "dql push 1", "dql push 2", "dql push 3", "dql pop", "dql pop", "dql push 4", "dql clear", "dql push 5", "dql destroy"]),
    # XalanMap<int, Boxed>: value copy refused inside doCreateEntry, splice refused after the value was constructed
    (6, ["mb new 1", "mb ins 1 10", "mb ins 2 20", "mb destroy"]),
    (7, ["mb new 1", "mb ins 1 10", "mb erase 1", "mb ins 2 20", "mb destroy"]),
    # XalanMap: rehash (third/fourth insert with 1-2 buckets), recycled entries, clear, and the refusals inside doCreateEntry
    (0, ["m new 2", "m ins 1 10", "m ins 2 20", "m ins 3 30", "m ins 4 40", "m ins 5 50", "m erase 2", "m ins 9 90", "m clear", "m ins 1 11", "m destroy"]),
    (7, ["m new 1", "m ins 1 10", "m ins 2 20", "m ins 3 30", "m destroy"]),
    # destroyObject of an object whose block is not at the head: the move to the front must not allocate (seeded break:
    # push_front before erase); refusal index 16 is the first request after the five creations
    (16, ["ra new 2", "ra create 1", "ra create 2", "ra create 3", "ra create 4", "ra create 5", "ra destroy 0", "ra destroy 2", "ra free"]),
    (0, ["ra new 2", "ra create 1", "ra create 2", "ra create 3", "ra create 4", "ra create 5", "ra destroy 0", "ra destroy 4",
         "ra destroy 2", "ra create 6", "ra create 7", "ra destroy 1", "ra destroy 3", "ra free"]),
    # refusal INSIDE the element-copy loop of the append path (copy constructor used by grow/reserve): only the constructed
    # prefix may be destroyed (seeded break: m_size set before the loop)
    (7, ["bv push 1", "bv push 2", "bv push 3", "bv destroy"]),
    (8, ["bv push 1", "bv push 2", "bv push 3", "bv destroy"]),
    (10, ["bv push 1", "bv push 2", "bv push 3", "bv copy", "bv reserve 9", "bv resize 6 5", "bv destroy"]),
    # XalanDeque::pushNewIndexBlock: XalanConstruct refused after the null placeholder was pushed
    (2, ["d new 2", "d push 1", "d size", "d destroy"]),
    (6, ["d new 1", "d push 1", "d push 2", "d push 3", "d destroy"]),
    # finding #6: constructor throws between allocateBlock() and commitAllocation(); ~ReusableArenaBlock destroys the slot
    (3, ["a new 2", "a create 1", "a free"]),
    (4, ["a new 3", "a create 1", "a create 2", "a create 3", "a destroy 0", "a create 4", "a free"]),
    # DESIGN §6 item 4: element copy throws on a freshly allocated node -> wild free-list link -> ~XalanList walks it
    (3, ["l pushb 1", "l destroy"]),
    # §6 item 5 mechanism: clear()/empty() on a never-used list allocate the sentinel
    (1, ["l clear", "l destroy"]),
    (0, ["l empty", "l clear", "l destroy"]),
    # reserve-before-create vs create-then-push with the growth allocation refused
    (4, ["v push 1", "v ctp", "v destroy"]),
    (4, ["v push 1", "v rtc", "v destroy"]),
]


def container_part(ctx, r, model):
    harness = common.build_harness("c19_containers", ["c19_containers.cpp"], flavor="hooks", sanitize=True, link_repo=False, extra=["-DNDEBUG"])
    work = os.path.join(common.CACHE, "work", "c19")
    os.makedirs(work, exist_ok=True)
    env = {"ASAN_OPTIONS": "detect_leaks=0:abort_on_error=0", "UBSAN_OPTIONS": "print_stacktrace=1"}

    # probe: which XalanList behaviour does the working tree have?
    probe = os.path.join(work, "probe.req")
    with open(probe, "w") as f:
        f.write("new 0\nl clear\nnew 3\nl pushb 1\nl destroy\nnew 3\na new 2\na create 1\na free\nnew 2\nd new 2\nd push 1\nd size\nnew 4\ndqb new 1\ndqb push 1\nnew 13\nmb new 1\nmb ins 3 30\nmb ins 1 10\nmb erase 1\nmb ins 2 20\nmb erase 2\nnew 0\naa new 4\naa alloc 2\naa clear\naa destroy\n")
    rc, out = common.sh("%s < %s" % (harness, probe), env=env)
    pl = [l for l in out.split("\n") if l.strip()]
    clear_guard = 1 if len(pl) > 1 and "reqs=0" in pl[1] else 0
    next_init = 0 if len(pl) > 4 and pl[4].startswith("ub") else 1
    skip_pending = 0 if len(pl) > 8 and pl[8].startswith("ub") else 1
    pop_null = 0 if len(pl) > 12 and pl[12].startswith("ub") else 1
    drop_empty = 0 if len(pl) > 15 and " idx=1 " in pl[15] else 1
    late_unerase = 0 if len(pl) > 22 and pl[22].startswith("ub") else 1
    arr_clear = 1 if len(pl) > 27 and " live=0 " in pl[27] else 0
    ctx.extra["list_variant"] = {"arrayClearDestroys": arr_clear, "clearGuard": clear_guard, "nextInit": next_init, "arenaSkipPending": skip_pending,
                                 "dequePopNull": pop_null, "dequeDropEmptyBlock": drop_empty, "mapLateUnerase": late_unerase}
    ctx.hist["variant:clearGuard=%d,nextInit=%d,arenaSkipPending=%d,dequePopNull=%d" % (clear_guard, next_init, skip_pending, pop_null)] = 1

    nseq, maxops = (60, 10) if not ctx.thorough else (400, 16)
    seqs = [(k, ops) for k, ops in CONTAINER_CORPUS]
    base = []
    for i in range(nseq):
        ops = (gen_list_ops, gen_vec_ops, gen_arena_ops, gen_deque_ops, gen_bvec_ops, gen_ra_ops, gen_ap_ops, gen_map_ops, gen_bmap_ops, gen_dq_ops, gen_aa_ops)[i % 11](r, r.range(1, maxops))
        base.append(ops)
    for ops in base:
        # every refusal index: an op makes at most 3 requests (+1 sentinel)
        top = 3 * len(ops) + 3
        if ops[0].startswith("ra"):
            top = min(5 * len(ops) + 6, 120)
        if ops[0].startswith(("m ", "mb ")):
            top = min(4 * len(ops) + 8, 90)
        if ops[0].startswith("dq"):
            top = min(4 * len(ops) + 6, 90)
        if ops[0].startswith("bv"):
            top = 4 + sum(6 + 2 * j for j in range(len(ops)))      # growth copies every element again
            top = min(top, 120)
        for k in range(0, top):
            seqs.append((k, ops))
    # The request stream is split into chunks (each starts with the cfg line) that run on a few workers, each with a
    # timeout proportional to its size: a loaded machine slows every forked probe, and one long stream with one fixed
    # timeout made the whole correspondence time out.
    cfg_line = "cfg %d %d %d %d %d %d %d" % (clear_guard, next_init, skip_pending, pop_null, drop_empty, late_unerase, arr_clear)
    chunk_lines_max = 6000
    chunks, cur, cur_owner = [], [cfg_line], [-1]
    for si, (k, ops) in enumerate(seqs):
        if len(cur) + len(ops) + 1 > chunk_lines_max and len(cur) > 1:
            chunks.append((cur, cur_owner)); cur, cur_owner = [cfg_line], [-1]
        for o in ["new %d" % k] + ops:
            cur.append(o); cur_owner.append(si)
    if len(cur) > 1:
        chunks.append((cur, cur_owner))

    def run_chunk(ci):
        cl, _ = chunks[ci]
        req = os.path.join(work, "containers_%d_%d.req" % (ctx.seed, ci))
        with open(req, "w") as f:
            f.write("\n".join(cl) + "\n")
        return common.run_pair([harness], [model], req, impl_env=env, timeout=300 + len(cl) // 2)

    from concurrent.futures import ThreadPoolExecutor
    with ThreadPoolExecutor(max_workers=max(2, min(6, common.NPROC // 3))) as ex:
        results = list(ex.map(run_chunk, range(len(chunks))))
    lines, owner, il, ml, ierr = [], [], [], [], ""
    for (cl, co), (cil, cml, irc, mrc, cierr, merr) in zip(chunks, results):
        # pad a chunk that stopped early so that line numbers stay aligned; the gap is reported below
        lines += cl; owner += co
        il += cil + [None] * (len(cl) - len(cil)); ml += cml + [None] * (len(cl) - len(cml))
        if len(cil) < len(cl):
            ierr = cierr
    ctx.hist["container:chunks"] = len(chunks)
    agree, disagreements = True, []
    seen_bad = set()
    for idx, o in enumerate(lines):
        si = owner[idx]
        iv = il[idx] if idx < len(il) else None
        mv = ml[idx] if idx < len(ml) else None
        if iv is None:
            ctx.oblige("container harness runs to the end of every chunk of the request stream", "correspondence", False,
                       "stopped at line %d (%s): %s" % (idx, o, ierr[-800:]))
            break
        if si < 0 or si in seen_bad or iv == "dead":
            continue
        k, ops = seqs[si]
        text = "failAt=%d ; %s" % (k, " ; ".join(ops))
        if iv.startswith("ub") and mv is not None and mv.startswith("ub"):
            mv = iv       # an undefined step: both sides stop here; what the real object looks like afterwards is not compared
        if iv != mv:
            agree = False
            disagreements.append({"seq": text, "line": o, "impl": iv, "model": mv})
            # fall through: the specification predicate is still evaluated on the implementation's reply, so that a
            # disagreement which is also a property violation is reported with its input
        # specification predicate on the implementation's reply
        f = fields(iv)
        word = iv.split()[0] if iv.split() else ""
        if iv != mv:
            seen_bad.add(si)      # one report per log
        if word == "oom" and o.startswith("ra destroy"):
            seen_bad.add(si)
            ctx.fail("ra.destroyObject-allocates: " + text, "ReusableArenaAllocator::destroyObject made an allocation request (refused: the "
                     "exception leaves destroyObject, which the library calls from destructors): " + iv, [("new %d" % k)] + ops)
        elif word == "ub" and o.startswith(("m ", "mb ")):
            seen_bad.add(si)
            ctx.fail("map.stale-bucket-finds-free-entry: " + text, "after a refused value copy / splice in insert() the half-made free entry is "
                     "found through a stale bucket iterator: erase()/insert() of that key destroys a dead value again (double free) and "
                     "corrupts size(): " + iv, [("new %d" % k)] + ops)
        elif word == "ub" and o in ("dql pop", "dqb pop") and " idx=0 " not in iv:
            seen_bad.add(si)
            ctx.fail("deque.empty-block-after-refused-copy: " + text, "pop_back() on a deque whose index ends in an EMPTY block (left by a "
                     "push_back whose element copy or free-vector growth was refused) is undefined: " + iv, [("new %d" % k)] + ops)
        elif word == "ub" and not (o.startswith("l pop") or o == "v pop" or o == "bv pop" or o.startswith("a destroy") or o.startswith("ra destroy")
                                   or o in ("dql pop", "dqb pop")):
            seen_bad.add(si)
            ctx.fail("list.ub-after-throwing-copy: " + text if o == "l destroy" else
                     "arena.ub-uncommitted-slot: " + text if o == "a free" else
                     "deque.null-block-after-refused-construct: " + text if o.startswith("d ") else
                     "bvec.ub-unconstructed-elements[%s]: %s" % (o.split()[1], text) if o.startswith("bv ") else
                     "container.ub[%s]: %s" % (o, text),
                     "the real template dereferences a wild pointer / crashes (child process died) at `%s`" % o, [("new %d" % k)] + ops)
        elif f.get("bad", "0") != "0":
            seen_bad.add(si)
            ctx.fail("container.badfree: " + text, "double or foreign free reported by the manager: " + iv, [("new %d" % k)] + ops)
        elif iv.endswith("destroyed"):
            fired = int(f["reqs"]) >= k > 0
            leaked_by_ctp = any(x == "v ctp" for x in ops) or ops[0].startswith(("ra ", "m ", "mb ", "aa "))   # push_front of a new arena block / push_back of a new map entry refused: block leaked
            if f["live"] != "0" and not fired and ops[0].startswith("aa ") and "aa clear" in ops:
                seen_bad.add(si)
                ctx.fail("arr.clear-leaks-vectors: " + text, "XalanArrayAllocator::clear() drops its vectors without destroying them; blocks "
                         "outstanding after the destructor, nothing refused: " + iv, [("new %d" % k)] + ops)
            elif f["live"] != "0" and not (fired and leaked_by_ctp):
                seen_bad.add(si)
                ctx.fail("container.unbalanced: " + text, "blocks outstanding after the destructor: " + iv, [("new %d" % k)] + ops)
    for si, (k, ops) in enumerate(seqs):
        nontriv = k > 0 and len(ops) > 2
        ctx.case(nontrivial_key=("c", k, " ".join(ops)) if nontriv else None,
                 sample={"failAt": k, "ops": ops} if si in (len(CONTAINER_CORPUS), len(CONTAINER_CORPUS) + 7) else None,
                 cls="container:" + ("bvec" if ops[0].startswith("bv") else "blocklist" if ops[0].startswith("ra") else "autoptr" if ops[0].startswith("ap") else "arrayalloc" if ops[0].startswith("aa") else "map" if ops[0].startswith(("m ", "mb ")) else "deque2" if ops[0].startswith("dq") else {"l": "list", "a": "arena", "d": "deque"}.get(ops[0][0], "vec")))
    ctx.extra["container_disagreements"] = disagreements[:5]
    ctx.oblige("correspondence: XalanList<Boxed>/XalanVector<long>/XalanConstruct (real templates, failing manager) = Lean model "
               "on every op log and every refusal index", "correspondence", agree, str(disagreements[:2]))
    if not clear_guard:
        ctx.hist["info:lazy-sentinel-allocated-by-clear"] = 1


# ---------------------------------------------------------------------------------------------------------------------
# real API fault enumeration

def api_part(ctx, r, model):
    exe = common.build_harness("c19_memmgr", ["c19_memmgr.cpp"], flavor="hooks", sanitize=False, extra=["-ldl", "-rdynamic"])
    work = os.path.join(common.CACHE, "work", "c19")
    os.makedirs(work, exist_ok=True)
    scenarios = list(THOROUGH_SCENARIOS if ctx.thorough else QUICK_SCENARIOS)
    scenarios += WRITER_SCENARIOS
    bad = [(b, "split") for b in BAD_FAMILY]
    if ctx.thorough:
        swept_bad = set(BAD_FAMILY)
    else:
        swept_bad = set(r.shuffle(BAD_FAMILY)[:4])
    scenarios += bad
    ctx.extra["bad_family_swept"] = sorted(swept_bad)
    excs = ["oom", "badalloc"] if ctx.thorough else ["oom"]
    jobs = str(max(2, min(16, common.NPROC)))
    stats = {"children": 0, "ended_normally": 0, "leak_after_failure": 0, "surfaced_as_exception": 0,
             "surfaced_as_status": 0, "absorbed": 0}
    trace_ok = True
    trace_detail = []
    unbalanced_alone = set()
    import time as _time
    per = ctx.extra.setdefault("seconds_per_scenario", {})
    _last = [_time.time(), None]

    def _tick(tag):
        now = _time.time()
        if _last[1] is not None:
            per[_last[1]] = round(per.get(_last[1], 0) + now - _last[0], 1)
        _last[0], _last[1] = now, tag
    for (name, api) in scenarios:
        xsl, xml = name + ".xsl", name + ".xml"
        tag = "%s-%s" % (name, api)
        _tick(tag)
        trace = os.path.join(work, "trace_%s.txt" % tag)
        rc, lines = run_harness(exe, ["count", xsl, xml, api, trace])
        died = [l for l in lines if l.startswith("counts-died")]
        if died:
            ctx.fail("api.died-without-refusal[%s] %s" % (tag, died[0].split("end=")[-1]),
                     "no allocation refused, yet the scenario ends the process: " + died[0], {"scenario": tag, "k": 0})
            continue
        cl = [l for l in lines if l.startswith("counts ")]
        if not cl:
            ctx.oblige("fault harness: counting run of scenario " + tag, "correspondence", False, "\n".join(lines)[-1500:])
            continue
        c = fields(cl[0])
        ctx.case(nontrivial_key=("count", tag), sample={"scenario": tag, "counts": cl[0]}, cls="balance-run")
        # balance with no injected failure (successful and failing transformations alike)
        if c["live"] != "0" or c["foreign"] != "0" or c["double"] != "0":
            unbalanced_alone.add((name, api))      # reported here; not drawn again for the multi-scenario histories
            ctx.fail("api.unbalanced[%s]" % tag, "no allocation refused, yet after ~XalanTransformer: " + cl[0], {"scenario": tag, "k": 0})
        # the compiled stylesheet alone (compile + destroyStylesheet): only the transformer's own vector buffer may remain
        if "cssleak" in c:
            if int(c["cssleak"]) > 1 or c.get("cssfinal") != "0" or c.get("cssbad") != "0":
                ctx.fail("api.unbalanced-compiled-stylesheet[%s]" % tag,
                         "compileStylesheet + destroyStylesheet leaves blocks behind / bad frees: cssleak=%s cssfinal=%s cssbad=%s" % (
                             c["cssleak"], c.get("cssfinal"), c.get("cssbad")), {"scenario": tag, "k": 0})
            ctx.case(nontrivial_key=("cssonly", tag), cls="balance-compiled-stylesheet")
        # evidence: blocks reached per arena allocator type (first block = 4 requests under allocateBlock, later ones 3)
        if c.get("arena", "-") != "-":
            blocks = {}
            for item in c["arena"].split(","):
                nm, nreq = item.rsplit(":", 1)
                blocks[nm] = 1 + max(0, int(nreq) - 4) // 3
            ctx.extra.setdefault("arena_blocks_reached", {})[tag] = blocks
        # the same verdict from the Lean ledger on the recorded event trace
        v = lean_trace_verdict(model, trace)
        if api in ("cross", "crossb"):
            pass        # two managers: the recorded trace is the one of manager MB only; the per-manager counters decide
        elif v is None or v["verdict"] == "rejected":
            trace_ok = False; trace_detail.append("%s: trace rejected by Ledger.replayAll" % tag)
        elif (v["verdict"] == "balanced") != (c["live"] == "0" and c["foreign"] == "0" and c["double"] == "0") or v.get("live") != c["live"]:
            trace_ok = False; trace_detail.append("%s: Lean ledger says %s, harness counters %s" % (tag, v, cl[0]))
        if name in BAD_FAMILY and name not in swept_bad:
            continue          # balance evaluated above; refusal sweep of this member is not in this run's rotation
        phases = PHASES if ctx.thorough else QUICK_PHASES.get(tag, QUICK_PHASES.get(name, PHASES))
        for exc in (excs if name in ("s1", "s3", "s6", "s8", "w2") else excs[:1]):
            for ph in phases:
                n = int(c.get("n_" + ph, "0"))
                if n == 0:
                    continue
                stride = 1 if ctx.thorough else QUICK_STRIDE.get(name, 1)
                first = 1 + (ctx.seed % stride if stride > 1 else 0)
                rc, out = run_harness(exe, ["sweep", xsl, xml, api, ph, str(first), str(n), jobs, exc, str(stride)])
                got = {}
                for l in out:
                    if l.startswith("k="):
                        f = fields(l)
                        got[int(f["k"])] = f
                if len(got) != len(range(first, n + 1, stride)):
                    ctx.oblige("fault harness: every index of %s/%s reported" % (tag, ph), "correspondence", False,
                               "%d of %d; rc=%d; %s" % (len(got), n, rc, "\n".join(out[-3:])))
                for k in sorted(got):
                    f = got[k]
                    stats["children"] += 1
                    where = "%s/%s/%s/k=%d" % (tag, ph, exc, k)
                    inp = {"scenario": tag, "xsl": xsl, "xml": xml, "api": api, "phase": ph, "k": k, "exc": exc}
                    ctx.case(nontrivial_key=(tag, ph, exc, k), cls="fault:" + ph,
                             sample=inp if (k == 1 and ph == "compile") else None)
                    if f.get("end") != "exit0":
                        ctx.extra.setdefault("_ended_abnormally", set()).add((tag, ph, k))
                        key = site_of(f) + " " + where
                        ctx.fail(key, "refusing allocation #%d of phase %s ends the process (%s): %s" % (
                            k, ph, f.get("end"), (f.get("terminate") or f.get("sigstack") or "")[:400]), inp)
                        continue
                    stats["ended_normally"] += 1
                    if f.get("fired") != "1":
                        ctx.oblige("fault harness: the refusal fired at " + where, "correspondence", False, str(f))
                        continue
                    if f.get("foreign") != "0" or f.get("double") != "0" or f.get("foreign2") != "0" or f.get("double2") != "0":
                        ctx.fail("api.badfree[%s] %s" % ("|".join(f.get("failsite", "?").split("|")[:2]), where),
                                 "double/foreign free after a refused allocation: " + str(f), inp)
                    res = f.get(ph)
                    if res in ("oom", "badalloc"):
                        stats["surfaced_as_exception"] += 1
                    elif res == "status":
                        stats["surfaced_as_status"] += 1
                    elif res == "ok":
                        # absorbed: acceptable only if the result is the one of the clean run
                        stats["absorbed"] += 1
                        if f.get("outhash") != c["outhash"] and ph in ("transform",):
                            frames = f.get("failsite", "?").split("|")
                            via = [x for x in frames if x.startswith("FunctionDocument::")]
                            ctx.fail("api.silent-wrong-output[%s] %s" % ("via " + via[0] if via else "|".join(frames[:2]), where),
                                     "refused allocation swallowed and a different result produced", inp)
                    else:
                        ctx.hist["surfaced-as:" + str(res)] = ctx.hist.get("surfaced-as:" + str(res), 0) + 1
                    if f.get("live") != "0":
                        stats["leak_after_failure"] += 1      # allowed: reclaimable by discarding the manager
                    if f.get("fresh") != "ok":
                        ctx.fail("api.fresh-transformer-fails[%s] %s" % ("|".join(f.get("failsite", "?").split("|")[:2]), where),
                                 "a new transformer does not reproduce the clean run after the failure: " + str(f), inp)
        # a sample of failing indices: full event trace replayed on the Lean ledger, compared with the harness counters
        for _ in range(0 if (name in BAD_FAMILY or api in ("cross", "crossb")) else (1 if not ctx.thorough else 6)):
            ph = r.choice([p for p in PHASES if int(c.get("n_" + p, "0")) > 0])
            k = r.range(1, int(c["n_" + ph]))
            tf = os.path.join(work, "trace_one.txt")
            if os.path.exists(tf):
                os.unlink(tf)
            rc, out = run_harness(exe, ["one", xsl, xml, api, ph, str(k), "oom", tf])
            f = fields(out[0]) if out else {}
            if f.get("end") != "exit0" or not os.path.exists(tf):
                continue          # already reported by the sweep
            v = lean_trace_verdict(model, tf)
            total_bad = int(f.get("foreign2", "0")) + int(f.get("double2", "0"))
            if v is None or v["verdict"] == "rejected" or int(v.get("bad", "-1")) != total_bad:
                trace_ok = False; trace_detail.append("%s/%s/k=%d: ledger %s vs harness %s" % (tag, ph, k, v, f))
            ctx.case(nontrivial_key=("trace", tag, ph, k), cls="trace-replay")
    _tick("sequences")
    # sequences of scenarios on ONE manager (balance across a history, failing and succeeding steps mixed)
    nseq = 4 if not ctx.thorough else 24
    for i in range(nseq):
        steps = []
        args = ["seq", "oom", os.path.join(work, "trace_seq.txt")]
        pool = [sa for sa in scenarios if sa not in unbalanced_alone]
        for _ in range(r.range(2, 4)):
            name, api = r.choice(pool)
            args += [name + ".xsl", name + ".xml", api, "none", "0"]
            steps.append("%s-%s" % (name, api))
        rc, out = run_harness(exe, args)
        f = fields(out[0]) if out else {}
        ok = f.get("end") == "exit0" and out and all(
            fields(s).get("live") == "0" and fields(s).get("foreign") == "0" and fields(s).get("double") == "0"
            for s in out[0].split(" step ")[1:])
        v = lean_trace_verdict(model, os.path.join(work, "trace_seq.txt"))
        ctx.case(nontrivial_key=("seq", tuple(steps)), cls="sequence-on-one-manager",
                 sample={"sequence": steps} if i == 0 else None)
        if not ok:
            ctx.fail("api.unbalanced-sequence[%s]" % ",".join(steps), "history on one manager not balanced: " + (out[0][:600] if out else "no output"),
                     {"sequence": steps})
        if v is None or v["verdict"] != "balanced":
            if ok:
                trace_ok = False; trace_detail.append("seq %s: ledger %s" % (steps, v))
    _tick(None)
    ctx.oblige("specification predicate via the Lean ledger (Ledger.replayAll/Balanced) agrees with the harness counters on "
               "every recorded trace", "correspondence", trace_ok, "\n".join(trace_detail[:5]))
    ab = ctx.extra.get("arena_blocks_reached", {})
    best = {}
    for tag2, bl in ab.items():
        for nm, nb in bl.items():
            best[nm] = max(best.get(nm, 0), nb)
    ctx.extra["arena_allocators_max_blocks"] = best
    ctx.hist["arena:allocator-types-seen"] = len(best)
    ctx.hist["arena:allocator-types-with>=2-blocks"] = sum(1 for v in best.values() if v >= 2)
    ctx.extra["fault_enumeration"] = stats
    ctx.extra["_ended_abnormally"] = ctx.extra.get("_ended_abnormally", set())
    for k2, v2 in stats.items():
        ctx.hist["api:" + k2] = v2


ENC_NAMES = {"UTF-16": "utf16", "UTF-8": "utf8", "ISO-8859-1": "latin1", "US-ASCII": "ascii", "X-NO-SUCH-ENCODING": "unsupported"}


def ostream_part(ctx, r, model, exe):
    """the transcoder slot of an application-owned XalanStdOutputStream as a state machine: the real stream replays
    setOutputEncoding histories with every request index refused once; the Lean model (OStream.setEnc) is driven with the same
    history and the failure kind the real call was observed to have; slot occupancy and bad frees must agree after every call,
    the destructor must leave nothing (when nothing was refused) and free nothing twice"""
    nhist = 6 if not ctx.thorough else 40
    corpus = [["ISO-8859-1", "UTF-16"], ["ISO-8859-1", "US-ASCII"], ["ISO-8859-1", "UTF-16", "US-ASCII", "US-ASCII", "X-NO-SUCH-ENCODING", "UTF-8"]]
    hists = corpus + [[r.choice(list(ENC_NAMES)) for _ in range(r.range(2, 6))] for _ in range(nhist)]
    agree, detail, runs = True, [], 0
    req_lines, expect = [], []
    for h in hists:
        for k in range(0, 8 * len(h) + 2):
            rc, out = run_harness(exe, ["enc", str(k)] + h)
            lines = [l for l in out if l.startswith(("enc ", "destroyed", "died"))]
            runs += 1
            ctx.case(nontrivial_key=("enc", tuple(h), k) if k else None, cls="ostream-history")
            text = "failAt=%d ; %s" % (k, " ; ".join(h))
            if any(l.startswith("died") for l in lines) or not lines or not lines[-1].startswith("destroyed"):
                ctx.fail("ostream.died: " + text, "setOutputEncoding history on one stream ends the process: " + " | ".join(lines)[-400:],
                         {"enc_history": h, "k": k})
                continue
            fin = fields(lines[-1])
            if fin.get("bad") != "0":
                ctx.fail("ostream.double-destroy: " + text, "double/foreign free: " + " | ".join(lines)[-400:], {"enc_history": h, "k": k})
            req_lines.append("os new"); expect.append(None)
            refused = False
            for l, e in zip(lines[:-1], h):
                t = l.split()
                word, f = t[2], fields(l)
                oracle = "0"
                if ENC_NAMES[e] == "unsupported" and word == "oom":
                    word = "exc"; refused = True      # refused while finding out that the encoding is unsupported: throws either way
                elif word == "oom":
                    oracle = "2" if (f["slot"] == "1" or ENC_NAMES[e] == "utf16") else "1"; refused = True
                req_lines.append("os setenc %s %s" % (ENC_NAMES[e], oracle))
                expect.append((text, "enc %s slot=%s bad=%s" % (word, f["slot"], f["bad"])))
            req_lines.append("os destroy")
            expect.append((text, None if refused else "destroyed live=%s bad=%s" % (fin["live"], fin["bad"])))
            if not refused and fin.get("live") != "0":
                ctx.fail("ostream.unbalanced: " + text, "blocks outstanding after ~XalanStdOutputStream: " + lines[-1], {"enc_history": h, "k": k})
    work = os.path.join(common.CACHE, "work", "c19")
    req = os.path.join(work, "ostream_%d.req" % ctx.seed)
    with open(req, "w") as f:
        f.write("\n".join(req_lines) + "\n")
    rc, out = common.sh("%s < %s" % (model, req))
    ml = out.split("\n")
    for i, ex in enumerate(expect):
        if ex is None or ex[1] is None:
            continue
        got = ml[i] if i < len(ml) else "<missing>"
        if got != ex[1]:
            agree = False
            detail.append({"history": ex[0], "impl": ex[1], "model": got})
            if len(detail) > 3:
                break
    ctx.hist["ostream:histories_x_indices"] = runs
    ctx.oblige("correspondence: XalanOutputStream transcoder slot (real stream, every refusal index) = Lean state machine OStream.setEnc",
               "correspondence", agree, str(detail[:2]))


def cache_part(ctx, r, model, exe):
    """XalanDOMStringCache as a busy/available partition: the real cache replays get/release/reset/clear histories (small bounds,
    and the default bound 100 with 103 strings borrowed at once, released in both orders); the Lean model (StrCache.step) is
    driven with the same history; list sizes, strings alive in the allocator and bad frees must agree after every call; nothing
    may be destroyed twice and the destructor must leave nothing."""
    n = 103
    corpus = [(100, ["g"] * n + ["r%d" % i for i in range(n)] + ["R"]),                       # released oldest first
              (100, ["g"] * n + ["r%d" % i for i in reversed(range(n))] + ["R", "g", "g"]),   # released newest first
              (100, ["g"] * n + ["r%d" % i for i in range(0, n, 2)] + ["R"] + ["g"] * 5 + ["R", "C"]),
              (1, ["g", "g", "g", "g", "r0", "r1", "r2", "R"])]
    # handles of the generated histories are get() ordinals: a get() that reuses an available string makes a NEW handle
    hists = list(corpus)
    for _ in range(12 if not ctx.thorough else 120):
        bound, ops = gen_cache_history_handles(r, r.range(4, 24))
        hists.append((bound, ops))
    agree, detail = True, []
    req_lines, expect = [], []
    for bound, ops in hists:
        text = "bound=%d ; %s" % (bound, " ".join(ops))
        rc, out = run_harness(exe, ["cache", str(bound)] + ops)
        lines = [l for l in out if l.startswith(("sc ", "destroyed", "died"))]
        ctx.case(nontrivial_key=("cache", bound, tuple(ops)), cls="string-cache-history",
                 sample={"cache_bound": bound, "cache_ops": ops} if len(expect) == 0 else None)
        inp = {"cache_bound": bound, "cache_ops": ops}
        died = [l for l in lines if l.startswith("died")]
        fin = fields(lines[-1]) if lines and lines[-1].startswith("destroyed") else None
        bad_seen = any(fields(l).get("bad", "0") != "0" for l in lines if l.startswith(("sc ", "destroyed")))
        if died or bad_seen or fin is None:
            ctx.fail("cache.double-destroy: " + text, "a string of the cache is destroyed twice (bad free, or the process dies): " +
                     " | ".join(lines[-3:])[-400:], inp)
        elif fin.get("live") != "0":
            ctx.fail("cache.unbalanced: " + text, "blocks outstanding after ~XalanDOMStringCache: " + lines[-1], inp)
        req_lines.append("sc new %d 0" % bound); expect.append((text, lines[0] if lines else "<none>"))
        for i, o in enumerate(ops):
            req_lines.append("sc get" if o == "g" else "sc rel " + o[1:] if o[0] == "r" else "sc reset" if o == "R" else "sc clear")
            expect.append((text, lines[i + 1] if i + 1 < len(lines) else "<none>"))
    work = os.path.join(common.CACHE, "work", "c19")
    req = os.path.join(work, "cache_%d.req" % ctx.seed)
    with open(req, "w") as f:
        f.write("\n".join(req_lines) + "\n")
    rc, out = common.sh("%s < %s" % (model, req))
    ml = out.split("\n")
    seen = set()
    for i, ex in enumerate(expect):
        got = ml[i] if i < len(ml) else "<missing>"
        if got != ex[1] and ex[0] not in seen:
            seen.add(ex[0])
            agree = False
            detail.append({"history": ex[0][:300], "call": req_lines[i], "impl": ex[1], "model": got})
    ctx.hist["cache:histories"] = len(hists)
    ctx.oblige("correspondence: XalanDOMStringCache (real cache: list sizes, strings alive in its allocator, bad frees after every "
               "call) = Lean model StrCache.step", "correspondence", agree, str(detail[:2]))


def gen_cache_history_handles(r, n):
    """as gen_cache_history, with handles = ordinals of the get() calls (what the harness and the Lean driver use): tracks, per
    string, the handles that name it; a handle of a string that has been destroyed is never used again"""
    bound = r.choice([0, 1, 1, 2, 3])
    avail, busy, ops = [], [], []       # lists of string ids; names[id] = handles naming the string
    names, nget, nstr = {}, 0, 0
    for _ in range(n):
        c = r.range(0, 11)
        if c < 5 or not (busy or avail):
            ops.append("g")
            if avail:
                s = avail.pop()
            else:
                s = nstr; nstr += 1; names[s] = []
            busy.append(s); names[s].append(nget); nget += 1
        elif c < 10:
            pool = busy if (busy and (not avail or r.range(0, 4) > 0)) else avail
            s = r.choice(pool)
            ops.append("r%d" % r.choice(names[s]))
            if s in busy:
                busy.remove(s)
                if len(avail) <= bound:
                    avail.append(s)
                else:
                    del names[s]
        elif c == 10:
            ops.append("R")
            if len(avail) <= bound:
                avail += list(reversed(busy))
            else:
                for s in busy:
                    del names[s]
            busy = []
        else:
            ops.append("C")
            avail, busy, names = [], [], {}
    return bound, ops


def init_part(ctx, exe):
    """global initialisation under a refusing manager, every request index, each in a fresh process, three histories:
    retry   -- XalanTransformer::initialize(mgr) with request k refused; initialize() again with the SAME manager; transform; terminate()
    discard -- the same refusal; the application DISCARDS that manager (its outstanding blocks are poisoned; any later call into it is
               counted); initialize() with a FRESH manager; transform; terminate(): the library must not hold or touch anything of
               the discarded manager (blocks still outstanding in it are allowed only if nothing refers to them)
    term    -- initialize(); transform; terminate() with ITS request k refused
    The retry must succeed, the transformation must give the result of the clean run, nothing may be freed twice or into the wrong
    manager, the manager the library ends up initialised with must be balanced after terminate(), the process must not die."""
    rc, lines = run_harness(exe, ["count", "s1.xsl", "s1.xml", "split", "-"])
    cl = [l for l in lines if l.startswith("counts ")]
    if not cl:
        return
    want = fields(cl[0])["outhash"]
    rc, out = run_harness(exe, ["init", "s1.xsl", "s1.xml", "0", "0", "1", want, "retry"])
    f0 = fields(out[0]) if out else {}
    ok0 = f0.get("end") == "exit0" and f0.get("init1") == "ok" and f0.get("work") == "ok" and f0.get("same") == "1" and f0.get("term") == "ok"
    ctx.oblige("fault harness: XalanTransformer::initialize(manager) / transform / terminate() with nothing refused reproduces the "
               "clean run", "correspondence", ok0, str(out[:1])[:600])
    if not ok0:
        return
    ctx.case(nontrivial_key=("init", 0), cls="global-init")
    if f0.get("live") != "0" or f0.get("foreign") != "0" or f0.get("double") != "0":
        ctx.fail("init.unbalanced", "initialize(manager) .. terminate() with nothing refused: " + out[0][-300:], {"init_k": 0, "init_mode": "retry", "outhash": want})
    jobs = str(max(2, min(16, common.NPROC)))
    stats = {}
    for mode, n in (("retry", int(f0["n_init"])), ("discard", int(f0["n_init"])), ("term", int(f0["n_term"]))):
        if n == 0:
            continue
        rc, out = run_harness(exe, ["init", "s1.xsl", "s1.xml", "1", str(n), jobs, want, mode])
        got = {}
        for l in out:
            if l.startswith("k="):
                f = fields(l)
                got[int(f["k"])] = f
        if len(got) != n:
            ctx.oblige("fault harness: every index of the global initialisation reported (%s)" % mode, "correspondence", False,
                       "%d of %d; rc=%d" % (len(got), n, rc))
        st = stats.setdefault(mode, {"children": 0, "survived_and_usable": 0, "blocks_left_in_failed_manager": 0})
        for k in sorted(got):
            f = got[k]
            st["children"] += 1
            inp = {"init_k": k, "init_mode": mode, "outhash": want}
            ctx.case(nontrivial_key=("init", mode, k), cls="fault:global-init-" + mode, sample=inp if k == 1 else None)
            fs = "|".join(f.get("failsite", "?").split("|")[:2])
            stage = f.get("stages", "").split(",")[-1]
            tag = "" if mode == "retry" else mode + "."
            what = ("request #%d of XalanTransformer::terminate()" if mode == "term" else "request #%d of XalanTransformer::initialize(manager)") % k
            if f.get("end") != "exit0":
                ctx.fail("init.%s%s during[%s] k=%d" % (tag, site_of(f)[4:], stage, k),
                         "refusing %s ends the process (%s) in stage `%s` of history `%s`; refused at %s" % (what, f.get("end"), stage, mode, fs), inp)
                continue
            if f.get("fired") != "1":
                ctx.oblige("fault harness: the refusal fired in the global initialisation, %s k=%d" % (mode, k), "correspondence", False, str(f)[:400])
                continue
            if f.get("foreign") != "0" or f.get("double") != "0":
                ctx.fail("init.%sbadfree[%s] k=%d" % (tag, fs, k), "double/foreign free after refusing %s: %s" % (what, str(f)[:400]), inp)
            if f.get("afterdiscard", "0") != "0":
                ctx.fail("init.discard.touches-discarded-manager[%s] k=%d" % (fs, k),
                         "after refusing %s the application discarded the manager; the library called into it %s more time(s) (statics still "
                         "hold objects of the discarded manager)" % (what, f.get("afterdiscard")), inp)
            elif mode == "term":
                if f.get("term") not in ("ok", "oom") or f.get("live") != "0":
                    ctx.fail("init.term.unbalanced[%s] k=%d" % (fs, k), "refusing %s: terminate() = %s, %s block(s) of the initialisation manager "
                             "outstanding afterwards" % (what, f.get("term"), f.get("live")), inp)
                else:
                    st["survived_and_usable"] += 1
            elif f.get("init2") != "ok":
                ctx.fail("init.%sretry-fails[%s] k=%d" % (tag, f.get("init2"), k),
                         "after refusing %s (at %s) XalanTransformer::initialize() fails again although nothing is refused" % (what, fs), inp)
            elif f.get("work") != "ok" or f.get("same") != "1":
                ctx.fail("init.%sretry-unusable[%s] k=%d" % (tag, stage if f.get("work") != "ok" else "other-output", k),
                         "after refusing %s (at %s) the second XalanTransformer::initialize() succeeds, but the library is not "
                         "initialised: the transformation %s" % (what, fs, "fails: work=" + str(f.get("work")) if f.get("work") != "ok" else "gives another result"), inp)
            elif mode == "discard" and f.get("live") != "0":
                ctx.fail("init.discard.unbalanced[%s] k=%d" % (fs, k), "fresh manager after initialize/transform/terminate: %s block(s) outstanding" % f.get("live"), inp)
            else:
                st["survived_and_usable"] += 1
                if (mode == "retry" and f.get("live") != "0") or (mode == "discard" and f.get("left") != "0"):
                    st["blocks_left_in_failed_manager"] += 1      # allowed: nothing refers to them (the discard history poisons them and goes on)
    ctx.extra["global_init_enumeration"] = stats
    for m, st in stats.items():
        for k2, v2 in st.items():
            ctx.hist["init:%s:%s" % (m, k2)] = v2


def liaison_part(ctx, exe):
    """XercesParserLiaison used directly under one manager: documents it parsed (and owns) handed back through both
    destroyDocument() overloads, or left to reset()/the destructor; nothing may remain after the liaison is gone."""
    for variant in ("reset", "xalandoc", "xercesdoc"):
        for ndocs in (1, 3):
            rc, out = run_harness(exe, ["liaison", "s2.xml", variant, str(ndocs)])
            f = fields(out[0]) if out else {}
            inp = {"liaison": variant, "ndocs": ndocs}
            ctx.case(nontrivial_key=("liaison", variant, ndocs), cls="parser-liaison", sample=inp if (variant, ndocs) == ("xalandoc", 1) else None)
            if f.get("end") != "exit0" or f.get("liaison") != "ok":
                ctx.fail("liaison.died[%s] %s" % (variant, "|".join((f.get("sigstack") or f.get("terminate") or "?").split("|")[:2])),
                         "parse %d document(s), destroyDocument (%s), ~XercesParserLiaison, nothing refused: %s" % (ndocs, variant, (out[0] if out else "")[:300]), inp)
            elif f.get("live") != "0" or f.get("foreign") != "0" or f.get("double") != "0":
                ctx.fail("liaison.unbalanced[%s]" % variant,
                         "parse %d document(s), destroyDocument (%s), ~XercesParserLiaison, nothing refused: %s" % (ndocs, variant, out[0][-200:]), inp)


XPE_EXPRS = ["//*", "count(//*)", "string(/*/*[2])", "concat(name(/*), '-', sum(//*[number(.) = number(.)]))",
             "//*[position() mod 2 = 1] | //@*", "normalize-space(translate(string(/), '\n', ' '))"]


def xpe_part(ctx, exe):
    """objects of one manager over objects of another: a document parsed under manager M1, an XPathEvaluator under manager M2
    evaluating expressions on it (XObjects, node lists, strings), every request of M2 refused once; per-manager ledgers."""
    args = ["xpe", "s2.xml"]
    rc, out = run_harness(exe, args + ["0"] + XPE_EXPRS)
    f0 = fields(out[0]) if out else {}
    ok0 = f0.get("end") == "exit0" and f0.get("xpe") == "ok"
    ctx.oblige("fault harness: XPathEvaluator (manager M2) over a XalanSourceTree document (manager M1), nothing refused, runs",
               "correspondence", ok0, str(out[:1])[:500])
    if not ok0:
        return
    n = int(f0["n"])
    from concurrent.futures import ThreadPoolExecutor
    with ThreadPoolExecutor(max_workers=max(2, min(8, common.NPROC // 2))) as ex:
        res = list(ex.map(lambda k: run_harness(exe, args + [str(k)] + XPE_EXPRS)[1], range(1, n + 1)))
    leaks = 0
    for k, o in [(0, out)] + list(zip(range(1, n + 1), res)):
        f = fields(o[0]) if o else {}
        inp = {"xpe_k": k}
        ctx.case(nontrivial_key=("xpe", k), cls="fault:xpath-evaluator-two-managers", sample=inp if k == 1 else None)
        fs = "|".join(f.get("failsite", "?").split("|")[:2])
        if f.get("end") != "exit0":
            ctx.fail("xpe." + site_of(f)[4:] + " k=%d" % k, "XPathEvaluator under M2 over a document of M1, request #%d of M2 refused: the process ends (%s)" % (k, f.get("end")), inp)
            continue
        if any(f.get(x) != "0" for x in ("foreign1", "double1", "foreign2", "double2")):
            ctx.fail("xpe.badfree[%s] k=%d" % (fs, k), "a block released to the wrong manager, or twice: " + o[0][-260:], inp)
        elif k == 0 and (f.get("live1") != "0" or f.get("live2") != "0"):
            ctx.fail("xpe.unbalanced", "nothing refused, evaluator and liaison destroyed: " + o[0][-260:], inp)
        elif k > 0 and f.get("fired") != "1":
            ctx.oblige("fault harness: the refusal fired in xpe k=%d" % k, "correspondence", False, str(f)[:300])
        elif k > 0 and f.get("xpe") == "ok" and f.get("outhash") != f0.get("outhash"):
            ctx.fail("xpe.silent-wrong-result[%s] k=%d" % (fs, k), "refused request swallowed and another result produced", inp)
        elif f.get("live1") != "0" or f.get("live2") != "0":
            leaks += 1
    ctx.hist["xpe:children"] = n + 1
    ctx.hist["xpe:leak_after_failure"] = leaks


def asan_part(ctx, r):
    """thorough tier: the same fault enumeration on an AddressSanitizer+UBSan build of the library, with a manager that
    really frees (so use-after-free / double free inside the library is seen by ASan), for two scenarios.
    Stack frames (hence finding keys) differ between the two builds (inlining), so a child that dies WITHOUT a sanitizer
    report (std::terminate, plain SIGSEGV) is left to the plain-build enumeration, which reports and keys it; this part reports
    sanitizer reports (heap-use-after-free, overflow, UBSan runtime errors), bad frees and fresh-transformer failures."""
    already = ctx.extra.get("_ended_abnormally", set())
    # the build runs sanitized tools of the tree (MsgCreator): LeakSanitizer must not fail the build
    os.environ.setdefault("ASAN_OPTIONS", "detect_leaks=0")
    ctx.build("asan")
    exe = common.build_harness("c19_memmgr", ["c19_memmgr.cpp"], flavor="asan", sanitize=True, extra=["-ldl", "-rdynamic"])
    env = {"ASAN_OPTIONS": "detect_leaks=0:abort_on_error=1:handle_segv=0:handle_abort=0", "UBSAN_OPTIONS": "halt_on_error=1",
           "C19_REALLY_FREE": "1", "C19_STDERR_TO_PIPE": "1"}
    jobs = str(max(2, min(16, common.NPROC)))
    n_children = 0
    for (name, api) in [("s1", "split"), ("s5", "split")]:
        xsl, xml = name + ".xsl", name + ".xml"
        tag = "%s-%s" % (name, api)
        rc, out = common.sh([exe, "count", xsl, xml, api], cwd=CORPUS_DIR, env=env, timeout=600)
        cl = [l for l in out.split("\n") if l.startswith("counts")]
        if not cl:
            ctx.oblige("ASan fault harness: counting run of " + tag, "correspondence", False, out[-1500:])
            continue
        c = fields(cl[0])
        if c["live"] != "0" or c["foreign"] != "0" or c["double"] != "0":
            ctx.fail("api.unbalanced[%s,asan]" % tag, "ASan build, no refusal: " + cl[0], {"scenario": tag, "k": 0})
        for ph in PHASES:
            n = int(c.get("n_" + ph, "0"))
            if n == 0:
                continue
            rc, out = common.sh([exe, "sweep", xsl, xml, api, ph, "1", str(n), jobs, "oom"], cwd=CORPUS_DIR, env=env, timeout=3000)
            for l in out.split("\n"):
                if not l.startswith("k="):
                    continue
                f = fields(l)
                n_children += 1
                k = int(f["k"])
                m = re.search(r"(AddressSanitizer: [\w-]+|runtime error: [^\n]{0,80})", l)
                if m:
                    f["asan"] = m.group(1).replace(" ", "_")
                where = "%s/%s/asan/k=%d" % (tag, ph, k)
                inp = {"scenario": tag, "xsl": xsl, "xml": xml, "api": api, "phase": ph, "k": k, "exc": "oom", "asan": True}
                ctx.case(nontrivial_key=("asan", tag, ph, k), cls="fault-asan:" + ph)
                if f.get("end") != "exit0" and not m:
                    # std::terminate / plain signal without a sanitizer report: this is what the plain-build enumeration
                    # reports and keys (frames and even indices differ between the two builds); counted, not re-reported
                    kind = "same-index" if (tag, ph, k) in already else "other-index"
                    ctx.hist["api:asan_died_without_report:" + kind] = ctx.hist.get("api:asan_died_without_report:" + kind, 0) + 1
                elif f.get("end") != "exit0" or m:
                    ctx.fail(site_of(f) + " " + where, "ASan build: refusing allocation #%d of %s: %s %s" % (
                        k, ph, f.get("end"), (m.group(1) if m else f.get("terminate") or f.get("sigstack") or "")[:300]), inp)
                elif f.get("foreign") != "0" or f.get("double") != "0" or f.get("fresh") != "ok":
                    ctx.fail("api.badfree-or-fresh[%s] %s" % ("|".join(f.get("failsite", "?").split("|")[:2]), where), str(f)[:600], inp)
    ctx.extra.pop("_ended_abnormally", None)
    ctx.hist["api:asan_children"] = n_children
    ctx.oblige("ASan fault enumeration ran (children > 0)", "correspondence", n_children > 0, "no child reported")


def run(ctx):
    ctx.rule = ("a case is (a) one container op log with one refusal index (every index of every generated log), "
                "(b) one child process = one scenario/phase/allocation index refused once, (c) one recorded trace replayed on "
                "the Lean ledger, (d) one multi-scenario history on one manager; non-trivial = refusal index > 0 that is "
                "reached; distinct = distinct (scenario, phase, exception kind, k) / distinct op log text")
    ctx.trusted += [
        "harness/c19_memmgr.cpp (fault-injecting manager, per-index child processes, stack symbolisation by dladdr), "
        "harness/c19_containers.cpp, checks/c19.py (specification predicate on outcomes)",
        "modelled, not verified: XalanMap, XalanDeque, arena allocators, XSLT/XPath classes (reached by fault enumeration "
        "over the fixed scenario set gen/corpus/c19 only); element construction = one refusable allocation",
    ]
    ctx.build("hooks")
    # regenerated on every run: the XalanConstruct/XalanCopyConstruct overloads and every placement-new site of the working tree
    ok_tr, tr_out = ctx.translate("c19_construct")
    ctx.extra["construct_translator"] = tr_out.strip().split("\n")[:12]
    # regenerated on every run: every bounded cache of the working tree, its bound, its eviction shape, its crossing scenario
    ok_tc, tc_out = ctx.translate("c19_caches")
    ctx.extra["cache_translator"] = tc_out.strip().split("\n")[:14]
    ctx.lean("XalanModel.Props.C19", THEOREMS, extra_targets=["xm_c19"])
    model = ctx.exe("xm_c19")
    if model is None:
        return
    r = Rng(ctx.seed)
    import time
    t0 = time.time()
    container_part(ctx, r, model)
    t1 = time.time()
    api_part(ctx, r, model)
    t2 = time.time()
    exe = common.build_harness("c19_memmgr", ["c19_memmgr.cpp"], flavor="hooks", sanitize=False, extra=["-ldl", "-rdynamic"])
    ostream_part(ctx, r, model, exe)
    t3 = time.time()
    cache_part(ctx, r, model, exe)
    init_part(ctx, exe)
    liaison_part(ctx, exe)
    xpe_part(ctx, exe)
    t4 = time.time()
    ctx.extra["seconds"] = {"container_correspondence": round(t1 - t0, 1), "api_fault_enumeration": round(t2 - t1, 1),
                            "ostream_state_machine": round(t3 - t2, 1), "cache_init_liaison": round(t4 - t3, 1)}
    if ctx.thorough:
        asan_part(ctx, r)
    ctx.extra.pop("_ended_abnormally", None)
    ctx.exhaustive = True   # in k: every allocation index of every phase of the scenario set; not in scenarios


def replay(ctx, path):
    import json
    d = json.load(open(path))
    inp = d.get("first", {}).get("input")
    ctx.build("hooks")
    if isinstance(inp, dict) and "phase" in inp:
        exe = common.build_harness("c19_memmgr", ["c19_memmgr.cpp"], flavor="hooks", sanitize=False, extra=["-ldl", "-rdynamic"])
        rc, out = run_harness(exe, ["sweep", inp["xsl"], inp["xml"], inp["api"], inp["phase"], str(inp["k"]), str(inp["k"]), "1", inp.get("exc", "oom")])
        print("\n".join(out))
        f = fields(out[0]) if out else {}
        return 0 if f.get("end") == "exit0" and f.get("fresh") == "ok" and f.get("foreign") == "0" and f.get("double") == "0" else 1
    if isinstance(inp, dict) and ("cache_ops" in inp or "init_k" in inp or "liaison" in inp or "xpe_k" in inp):
        exe = common.build_harness("c19_memmgr", ["c19_memmgr.cpp"], flavor="hooks", sanitize=False, extra=["-ldl", "-rdynamic"])
        if "cache_ops" in inp:
            rc, out = run_harness(exe, ["cache", str(inp["cache_bound"])] + inp["cache_ops"])
            print("\n".join(out[-6:]))
            return 0 if any(l.startswith("destroyed live=0 bad=0") for l in out) and not any(l.startswith("died") for l in out) else 1
        if "xpe_k" in inp:
            rc, out = run_harness(exe, ["xpe", "s2.xml", str(inp["xpe_k"])] + XPE_EXPRS)
            print("\n".join(out))
            f = fields(out[0]) if out else {}
            return 0 if f.get("end") == "exit0" and all(f.get(x) == "0" for x in ("foreign1", "double1", "foreign2", "double2")) else 1
        if "init_k" in inp:
            rc, out = run_harness(exe, ["init", "s1.xsl", "s1.xml", str(inp["init_k"]), str(inp["init_k"]), "1", inp.get("outhash", "0"), inp.get("init_mode", "retry")])
            print("\n".join(out))
            f = fields(out[0]) if out else {}
            return 0 if (f.get("end") == "exit0" and f.get("init2") in ("ok", "-") and f.get("work") == "ok" and f.get("same") == "1"
                         and f.get("afterdiscard", "0") == "0" and f.get("foreign") == "0" and f.get("double") == "0") else 1
        rc, out = run_harness(exe, ["liaison", "s2.xml", inp["liaison"], str(inp["ndocs"])])
        print("\n".join(out))
        f = fields(out[0]) if out else {}
        return 0 if f.get("end") == "exit0" and f.get("live") == "0" else 1
    if isinstance(inp, dict) and "scenario" in inp:
        exe = common.build_harness("c19_memmgr", ["c19_memmgr.cpp"], flavor="hooks", sanitize=False, extra=["-ldl", "-rdynamic"])
        name, api = inp["scenario"].rsplit("-", 1)
        rc, out = run_harness(exe, ["count", name + ".xsl", name + ".xml", api])
        print("\n".join(out))
        f = fields(out[-1]) if out else {}
        return 0 if f.get("live") == "0" and f.get("foreign") == "0" and f.get("double") == "0" else 1
    if isinstance(inp, list):
        common.lake_build(["xm_c19"])
        model = ctx.exe("xm_c19")
        harness = common.build_harness("c19_containers", ["c19_containers.cpp"], flavor="hooks", sanitize=True, link_repo=False, extra=["-DNDEBUG"])
        work = os.path.join(common.CACHE, "work", "c19")
        os.makedirs(work, exist_ok=True)
        req = os.path.join(work, "replay.req")
        with open(req, "w") as f:
            f.write("\n".join(inp) + "\n")
        il, ml, irc, mrc, ierr, merr = common.run_pair([harness], [model], req, impl_env={"ASAN_OPTIONS": "detect_leaks=0"})
        for a, b, c in zip(inp, il, ml):
            print("%-16s impl: %-50s model(as written): %s" % (a, b, c))
        return 1 if any(x.startswith("ub") for x in il) else 0
    print("nothing to replay in", path)
    return 1
