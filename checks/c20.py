"""C20 — Xalan's containers and string class behave like their standard models (DESIGN.md §5 C20, design/C20.md).

proof:          lean/XalanModel/Props/C20.lean — refinement of the transcribed code paths of XalanVector, XalanMap
                (+XalanSet), XalanDeque, XalanList and XalanDOMString to List / insertion-ordered association list,
                by induction over operation histories, with the class invariants.
correspondence: harness/c20_containers.cpp (real header templates, ASan+UBSan, lock-step with std::) and
                harness/c20_string.cpp (XalanDOMString from the freshly built libxalan-c) vs lean/Driver/C20.lean
                (the same transcribed paths) on the same generated request logs.
"""
import itertools
import json
import os
import re
import sys

from vlib import common
from vlib.common import Rng

sys.path.insert(0, os.path.join(common.ROOT, "gen"))
import c20_gen as G  # noqa: E402

CLAIMED = True
LEVEL = "proof"
TECHNIQUE = ("Lean 4 refinement proofs (hand models of the code paths of every container anchored in the property -> List / "
             "association list / set, invariants by induction over operation histories) + lock-step correspondence runs of "
             "the real code against the std:: containers and the compiled Lean models under ASan/UBSan, with int and with a "
             "non-trivially-copyable instrumented element type")
LEVEL_TEXT = ("Machine-checked (Props/C20.lean, 73 theorems, axioms propext/Classical.choice/Quot.sound at most): "
              "XalanVector - every operation history inside std::vector's preconditions makes no out-of-bounds / raw-cell / "
              "stale-iterator access, yields the std contents and size<=allocation; the three storage primitives are the "
              "placement discipline (construct only cell `size`, assign only below `size`, destroy only the last cell); "
              "copy_backward / forward copy modelled element-wise and proved safe for the overlap each is used with. "
              "XalanMap/XalanSet - every history of insert, operator[]=, find, erase (with erase-threshold compaction), clear, "
              "operator=, swap, and the copy constructor: no zero modulus / dangling bucket pointer / empty free list, the "
              "representation invariant, and iteration order + results of an insertion-ordered association list (sets: "
              "duplicate-free key list). XalanDeque - every push_back/pop_back/resize/clear/operator= history and swap for any "
              "block sizes: block-index invariant, std contents, size()/operator[]/back(). XalanList - insert/erase/clear "
              "histories through iterators: node invariant, free-list reuse, iterator stability. XalanDOMString - every "
              "history of all modelled mutators from both representations of the empty string: invariant (buffer empty or "
              "chars ++ [0], m_size) and std::u16string result. XalanObjectCache - under the release-what-you-hold contract "
              "no object is handed out twice and every object comes back reset. XalanDOMStringPool/HashTable - get returns "
              "the requested units as a length-carrying sequence (U+0000 included), equal keys the same object, pool = set of "
              "distinct keys for every history, size() = their number. XalanDOMStringCache - every string is in exactly one "
              "of busy / available / destroyed after every history; release beyond the bound destroys exactly once. "
              "XalanBitmap - set/clear/toggle change exactly the addressed bit (complete byte table by decide). Event form: "
              "every XalanVector history logs its copy constructions, assignments, destructor calls and buffer releases "
              "(VectorTrace.lean, same code paths, projection theorem) and the log passes the placement discipline - each "
              "cell constructed exactly once before use and destroyed exactly once; the same for deque, list and map "
              "elements (ElemTrace.lean). XalanList at pointer level (PList.lean, heap of value/prev/next nodes): the "
              "writes of constructNode / freeNode keep the doubly linked ring and the LIFO free chain and are the node-"
              "sequence edits of XList.lean; constructNode with an empty free chain (allocate(1)) and on a list without head "
              "node, and the freeNode loop of clear() for any length, are proved on the heap; plist_history: from the fresh "
              "object in any heap every push_back/push_front/pop_front/pop_back/clear/insert(it)/erase(it) sequence inside "
              "the std::list contract runs through the executable pointer code (PL.pstep, the function the driver executes "
              "against the C++) without an invalid dereference and reads back exactly the specified List; splice(pos, *this, "
              "it) is proved on the heap for any two places (plist_splice_same_refines) and as a history step preserving the "
              "same representation (plist_move_refines, PL.pmove executed by the driver). const XalanDOMChar* overloads and the compare / equals / ASCII-case-insensitive "
              "family against lexicographic order and equality. Bucket capacities, rehash points (41st/88th/188th insertion "
              "-> 64/139/299 buckets), 1.6x growth and deque block capacities as theorems. The models "
              "are tied to the working tree by replaying generated request logs on the real code (header templates and the "
              "freshly built libxalan-c, ASan+UBSan, lock-step with std::vector/map/set/deque/list/u16string/vector<bool>) and "
              "on the compiled Lean models, comparing the full observable dump after every request, including bucket / "
              "stale-pointer / free-list counters, the sum of bucket capacities, list block counts, the live-instance count "
              "of the element class, every returned iterator as an offset from the container's current begin() (by address "
              "comparison; `dangling` outside it), every returned reference by identity and, per request, the number of copy-constructor / assignment / destructor calls the "
              "container made (compared with the event counts of the models). The floating-point size computations "
              "(1.6*n, 1.6*n+0.5, 0.75*n) are compared with the models' integer formulas for all n <= 3 000 000.")
LEVEL_NOTE = ("Trusted: Lean kernel (+ leanchecker in the thorough tier); the hand transcription of XalanVector/Map/Set/Deque/"
              "List/ObjectCache.hpp, XalanDOMString.{hpp,cpp}, XalanDOMStringPool/HashTable.cpp, XalanBitmap.{hpp,cpp} (checked "
              "by the correspondence run, bounded by generator coverage); harnesses, generators and python references. "
              "Modelled, not verified: placement new / destructor calls themselves (observed through the instrumented element "
              "class), the prev/next pointer surgery of XalanList for range splice and swap (executable heap model "
              "compared with the real code under ASan; the other member functions are proved on the heap), "
              "capacities of bucket vectors and of deque blocks, memory-manager failure paths, the char* (transcoding) "
              "overloads of XalanDOMString, the XALAN_OBJECT_CACHE_KEEP_BUSY_LIST variant of XalanObjectCache (not compiled), "
              "the arena allocator behind XalanDOMStringPool. Partial theorems: list splice/swap histories (single-node splice, inside "
              "one list and between two lists, is proved at heap level; range splice and swap only run in the "
              "correspondence); deque and list event histories over the primitive alphabets push/pop/clear and "
              "insert/erase/clear, map events per operation; invariant 'bucket size <= bucket capacity' observed, not proved.")
DESIGN_REF = "DESIGN.md section 5, C20; design/C20.md"

THEOREMS = [
    "XalanModel.Props.C20.vector_step_refines",
    "XalanModel.Props.C20.vector_refines",
    "XalanModel.Props.C20.vector_reserve_capacity",
    "XalanModel.Props.C20.vector_insertNSelf_refines",
    "XalanModel.Props.C20.vector_resizeSelf_refines",
    "XalanModel.Props.C20.vector_alias_as_written_counterexample",
    "XalanModel.Props.C20.vector_placement_discipline",
    "XalanModel.Props.C20.vector_trace_projection",
    "XalanModel.Props.C20.vector_events_step",
    "XalanModel.Props.C20.vector_events_alias",
    "XalanModel.Props.C20.vector_events_history",
    "XalanModel.Props.C20.vector_events_init",
    "XalanModel.Props.C20.deque_events_history",
    "XalanModel.Props.C20.list_events_history",
    "XalanModel.Props.C20.map_events",
    "XalanModel.Props.C20.map_bucket_push_has_room",
    "XalanModel.Props.C20.map_bucket_pushCap",
    "XalanModel.Props.C20.map_compactCap",
    "XalanModel.Props.C20.map_default_rehash_points",
    "XalanModel.Props.C20.map_rehash_bucket_count",
    "XalanModel.Props.C20.vector_push_capacity",
    "XalanModel.Props.C20.returned_positions_spec",
    "XalanModel.Props.C20.vector_insert_return_ge_counterexample",
    "XalanModel.Props.C20.domstring_returned_positions",
    "XalanModel.Props.C20.deque_block_capacity",
    "XalanModel.Props.C20.vector_copy_backward_shift_right",
    "XalanModel.Props.C20.vector_copy_forward_shift_left",
    "XalanModel.Props.C20.vector_insert_forward_copy_counterexample",
    "XalanModel.Props.C20.map_step_refines",
    "XalanModel.Props.C20.map_refines",
    "XalanModel.Props.C20.map_copy_refines",
    "XalanModel.Props.C20.map_new_inv",
    "XalanModel.Props.C20.map_swap_inv",
    "XalanModel.Props.C20.deque_step_refines",
    "XalanModel.Props.C20.deque_refines",
    "XalanModel.Props.C20.deque_observers",
    "XalanModel.Props.C20.deque_resize_as_written_counterexample",
    "XalanModel.Props.C20.deque_swap_refines",
    "XalanModel.Props.C20.deque_swap_as_written_counterexample",
    "XalanModel.Props.C20.list_constructNode_refines",
    "XalanModel.Props.C20.list_node_source",
    "XalanModel.Props.C20.list_erase_refines",
    "XalanModel.Props.C20.list_clear_refines",
    "XalanModel.Props.C20.list_history_partial",
    "XalanModel.Props.C20.plist_ring_link",
    "XalanModel.Props.C20.plist_ring_unlink",
    "XalanModel.Props.C20.plist_constructNode_refines",
    "XalanModel.Props.C20.plist_freeNode_refines",
    "XalanModel.Props.C20.plist_clear_refines",
    "XalanModel.Props.C20.plist_constructNode_alloc_refines",
    "XalanModel.Props.C20.plist_constructNode_first_refines",
    "XalanModel.Props.C20.plist_history",
    "XalanModel.Props.C20.plist_splice_same_refines",
    "XalanModel.Props.C20.plist_move_refines",
    "XalanModel.Props.C20.plist_splice_cross_refines",
    "XalanModel.Props.C20.set_step_refines",
    "XalanModel.Props.C20.objcache_get_refines",
    "XalanModel.Props.C20.objcache_release_put_refines",
    "XalanModel.Props.C20.objcache_history",
    "XalanModel.Props.C20.pool_get_refines",
    "XalanModel.Props.C20.pool_get_canonical",
    "XalanModel.Props.C20.pool_new_clear_inv",
    "XalanModel.Props.C20.pool_step_refines_set",
    "XalanModel.Props.C20.pool_refines_set",
    "XalanModel.Props.C20.pool_embedded_nul_examples",
    "XalanModel.Props.C20.cache_busy_available_partition",
    "XalanModel.Props.C20.cache_operations",
    "XalanModel.Props.C20.bitmap_refines",
    "XalanModel.Props.C20.bitmap_new",
    "XalanModel.Props.C20.domstring_step_refines",
    "XalanModel.Props.C20.domstring_refines",
    "XalanModel.Props.C20.domstring_new_inv",
    "XalanModel.Props.C20.domstring_pointer_overloads",
    "XalanModel.Props.C20.domstring_compare_spec",
    "XalanModel.Props.C20.domstring_equals_spec",
    "XalanModel.Props.C20.domstring_compare_npos_as_written_counterexample",
    "XalanModel.Props.C20.domstring_erase_range_as_written_counterexample",
    "XalanModel.Props.C20.domstring_resize_as_written_counterexample",
    "XalanModel.Props.C20.domstring_substr_as_written_counterexample",
    "XalanModel.Props.C20.domstring_append_npos_as_written_counterexample",
]
KINDS_CONT = ("vec", "map", "set", "deq", "lst")

CORPUS = [
    # minimised past failures / DESIGN §6 candidates run first
    ("vec", ["vec push 0 1", "vec push 0 2", "vec push 0 3", "vec push 0 4", "vec reserve 0 8", "vec insself 0 0 1 2"]),
    ("vec", ["vec push 0 1", "vec push 0 2", "vec resizeself 0 9 0"]),
    # returned iterators at every fill level: single insert into a full vector (size == capacity), with spare capacity, at end
    ("vec", ["vec newcap 0 3", "vec push 0 1", "vec push 0 2", "vec push 0 3", "vec ins1 0 1 9", "vec ins1 0 0 8", "vec ins1 0 5 7",
             "vec erase1 0 2", "vec erase 0 1 3", "vec erase 0 0 0", "vec ins1 0 3 6"]),
    ("vec", ["vec ins1 0 0 5", "vec ins1 0 0 6", "vec ins1 0 2 7", "vec ins1 0 1 8"]),
    # a string built from a literal is exactly full: its first insert(iterator, ch) re-allocates
    ("str", ["str app 0 97.98.99", "str insat 0 1 120", "str insat 0 0 121", "str insat 0 5 122", "str eraseat 0 2", "str eraser 0 1 3"]),
    ("str", ["str insat 0 0 97", "str insat 0 1 98", "str insat 0 0 99"]),
    # in-place insert whose range stays inside the old contents, more than 2n elements behind the position: the tail must be
    # shifted with copy_backward (a forward element-wise copy smears it; invisible for memmove-able element types)
    ("vec", ["vec newcap 0 9", "vec push 0 1", "vec push 0 2", "vec push 0 3", "vec push 1 7", "vec insr 0 0 1 0 1"]),
    ("vec", ["vec newcap 0 12", "vec push 0 1", "vec push 0 2", "vec push 0 3", "vec push 0 4", "vec push 0 5", "vec insn 0 1 2 9",
             "vec ins1 0 0 8"]),
    ("vec", ["vec push 0 1", "vec push 0 2", "vec insself 0 2 3 0"]),
    ("deq", ["deq new 0 10 0", "deq resize 0 4"]),
    ("deq", ["deq new 0 3 8", "deq resize 0 0"]),
    ("deq", ["deq new 0 2 5", "deq new 1 3 0", "deq swap 1 0"]),
    ("deq", ["deq new 0 2 0", "deq new 1 3 0", "deq push 0 1", "deq push 0 2", "deq push 0 3", "deq push 1 9", "deq swap 0 1",
             "deq push 0 4", "deq push 1 5", "deq pop 1"]),
    ("str", ["str app 0 97.98", "str resize 0 5 120"]),
    ("str", ["str appn 0 0 5", "str resize 0 3 7"]),
    ("str", ["str app 0 1.2.3.4", "str substr 1 0 1 npos"]),
    ("str", ["str app 0 1.2.3.4", "str app 1 7", "str appsub 1 0 1 npos"]),
    ("str", ["str eraser 0 0 0"]),
    ("str", ["str ctor 0 97.98", "str ctor 1 -", "str ctor 0 0.97.98"]),
    ("pool", ["pool new 0 3", "pool get 0 0.1.2"]),
    ("pool", ["pool new 0 3", "pool gets 0 0.1.2"]),
    ("str", ["str app 1 5.6", "str assignit 0 1 1 1", "str resize 0 3 7"]),
    ("str", ["str app 0 5.6", "str eraser 0 0 2", "str resize 0 2 8", "str resize 0 0 1", "str resize 0 4 9"]),
    ("map", ["map new 0 3 4 2 3", "map ins 0 1 10", "map ins 0 2 20", "map ins 0 3 30", "map erase 0 3", "map ins 0 7 70",
             "map erase 0 1", "map erase 0 2", "map ins 0 3 33", "map find 0 7", "map copy 1 0", "map swap 1 0"]),
    # default-parameter map / set grown through the three first rehash points (41st, 88th, 188th distinct insertion)
    ("map", ["map ins 0 %d %d" % (100 + 2 * i, i) for i in range(190)] + ["map find 0 180", "map erase 0 274", "map find 0 476"]),
    ("set", ["set ins 0 %d" % (100 + 2 * i) for i in range(190)] + ["set count 0 180", "set erase 0 274", "set count 0 476"]),
    ("map", ["arith 3000000"]),
    ("sc", ["sc new 1", "sc get 0", "sc get 1", "sc get 2", "sc get 3", "sc release 0", "sc release 1", "sc release 2", "sc release 3",
            "sc get 4", "sc get 5", "sc get 6", "sc reset", "sc get 0", "sc clear", "sc get 1"]),
    ("cmp", ["cmp compare 97.98 97.98", "cmp compare 97.98 97.98.0.99", "cmp comparesub 97.98.99 0 2 97.98 npos",
             "cmp eqi 65.98 97.66", "cmp cmpi 65.98.99 97.66", "cmp cmpi 97 66", "cmp equals - -"]),
    ("oc", ["oc get 0", "oc put 0 5", "oc get 1", "oc release 0", "oc get 2", "oc put 2 7", "oc release 1", "oc release 2", "oc get 0",
            "oc get 3"]),
    # keys with embedded U+0000 through both overloads: "ab", "ab\0c", "ab\0d" are three strings
    ("pool", ["pool new 0 3", "pool gets 0 97.98", "pool gets 0 97.98.0.99", "pool gets 0 97.98.0.100", "pool get 0 97.98.0.99",
              "pool gets 0 97.98", "pool get 0 97.98.0", "pool gets 0 97.98.0"]),
    ("pool", ["pool new 0 3", "pool get 0 1.2", "pool get 0 2.1", "pool get 0 1.2", "pool get 0 -", "pool get 0 7", "pool get 0 1.2.3",
              "pool clear 0", "pool get 0 2.1"]),
    ("bmp", ["bmp new 0 17", "bmp set 0 0", "bmp set 0 7", "bmp set 0 8", "bmp set 0 16", "bmp toggle 0 7", "bmp clear 0 8",
             "bmp toggle 0 3", "bmp clearall 0", "bmp set 0 15"]),
    ("lst", ["lst pushb 0 1", "lst pushb 0 2", "lst save 0 0 1", "lst eraseat 0 0", "lst pushf 0 5", "lst deref 0 0",
             "lst pushb 1 7", "lst splice 1 0 0 1", "lst deref 0 1"]),
]


COUNTS = re.compile(r" C=\d+ A=\d+ D=\d+ N=\d+")


def run_stream(harness, model, seqs, workdir, tag, env=None, timeout=120, strip_counts=False):
    """seqs: list of op lists (one kind per stream).  The model is run once; the harness is restarted after a crash
    with the sequences that follow the crashed one.  Returns (results, leaked, model_lines_by_seq) with results[si] =
    (status, first_bad_index_in_ops, impl_line, model_line), status in ok|std|model|crash."""
    req = os.path.join(workdir, "c20_%s.req" % tag)
    lines = []
    for ops in seqs:
        lines.append("reset")
        lines.extend(ops)
    with open(req, "w") as f:
        f.write("\n".join(lines) + "\n")
    e = {"ASAN_OPTIONS": "detect_leaks=1:abort_on_error=0", "UBSAN_OPTIONS": "print_stacktrace=1"}
    if env:
        e.update(env)
    il, ml, irc, mrc, ierr, merr = common.run_pair([harness], [model], req, impl_env=e, timeout=timeout)
    if strip_counts:
        # the int build cannot count element-object calls: compare without the model's C/A/D/N prediction
        ml = [COUNTS.sub("", l) for l in ml]
    # split model lines per sequence
    mseq = []
    pos = 0
    for ops in seqs:
        mseq.append(ml[pos + 1:pos + 1 + len(ops)])
        pos += 1 + len(ops)
    res = [None] * len(seqs)
    leaked = 0
    start = 0           # first sequence of the current harness run
    guard = 0
    timeouts = 0
    while True:
        guard += 1
        if "TIMEOUT" in ierr:
            timeouts += 1
        pos = 0
        crashed_at = None
        clean_end = bool(il) and il[-1].startswith("live ")
        body = il[:-1] if clean_end else il
        for si in range(start, len(seqs)):
            ops = seqs[si]
            chunk = body[pos:pos + 1 + len(ops)]
            pos += 1 + len(ops)
            if len(chunk) < 1 + len(ops):
                # the harness died while answering request number len(chunk)-1 of this sequence
                k = max(0, len(chunk) - 1)
                res[si] = ("crash", min(k, len(ops) - 1), ierr[-1500:], "")
                crashed_at = si
                break
            out = chunk[1:]
            st = ("ok", -1, "", "")
            for k, iv in enumerate(out):
                mv = mseq[si][k] if k < len(mseq[si]) else "<model stopped: %s>" % merr[-300:]
                if iv == "skip":
                    break
                if iv.endswith("!std"):
                    st = ("std", k, iv, mv)
                    break
                if iv != mv:
                    st = ("model", k, iv, mv)
                    break
            res[si] = st
        if clean_end:
            try:
                leaked += int(il[-1].split()[1])
            except (IndexError, ValueError):
                pass
        if crashed_at is None or crashed_at + 1 >= len(seqs) or guard > 60 or timeouts >= 2:
            if crashed_at is None and not clean_end and start < len(seqs):
                # died after the last reply (e.g. in a destructor): attribute to the last sequence
                res[len(seqs) - 1] = ("crash", len(seqs[-1]) - 1, ierr[-1500:], "")
            break
        start = crashed_at + 1
        rest = []
        for ops in seqs[start:]:
            rest.append("reset")
            rest.extend(ops)
        req2 = os.path.join(workdir, "c20_%s_r.req" % tag)
        with open(req2, "w") as f:
            f.write("\n".join(rest) + "\n")
        il, _ml, irc, _mrc, ierr, _merr = common.run_pair([harness], ["true"], req2, impl_env=e, timeout=timeout)
    for si in range(len(seqs)):
        if res[si] is None:
            res[si] = ("unrun", 0, "not evaluated: the harness crashed more than 60 times (or hung twice) in this stream", "")
    return res, leaked, mseq


def features(kind, mlines):
    """which non-default model branches a sequence reached, read off the model's replies"""
    f = set()
    if kind in ("map", "set"):
        prev_nb = None; prev_free = None
        for l in mlines:
            m = re.search(r"nb=(\d+) ptr=(\d+) stale=(\d+) free=(\d+)", l)
            if not m:
                if kind == "set" and l.startswith("r="):
                    f.add("set-query")
                continue
            nb, ptr, stale, free = map(int, m.groups())
            if prev_nb not in (None, 0) and nb != prev_nb:
                f.add("rehash-or-rebucket")
            if prev_free is not None and free < prev_free:
                f.add("recycle")
            if stale > 0:
                f.add("stale-pointer")
            if ptr > int(l.split(" nb=")[0].split()[-1]) and stale == 0:
                f.add("stale-pointer-to-recycled-node")
            prev_nb, prev_free = nb, free
    elif kind == "deq":
        for l in mlines:
            m = re.match(r"(\d+) e=", l)
            if m and int(m.group(1)) > 3:
                f.add("multi-block")
    elif kind == "lst":
        prev = None
        for l in mlines:
            m = re.search(r"(\d+) blocks=(\d+)", l)
            if m:
                cur = (int(m.group(1)), int(m.group(2)))
                if prev and cur[0] > prev[0] and cur[1] == prev[1]:
                    f.add("free-list-reuse")
                prev = cur
            if l.startswith("r="):
                f.add("saved-iterator")
    elif kind == "str":
        for l in mlines:
            m = re.match(r"(\d+) (\d+) t=", l)
            if m and int(m.group(2)) > int(m.group(1)):
                f.add("spare-capacity")
    elif kind == "vec":
        f.add("vec")
    elif kind == "sc":
        if any(l.startswith("r=") and not l.startswith("r=0") and not l.startswith("r=1 ") and l != "r=1" for l in mlines):
            f.add("string-recycled")
    elif kind == "cmp":
        if any(l.startswith("r=0") for l in mlines) and any(l.startswith("r=-1") or l.startswith("r=1") for l in mlines):
            f.add("equal-and-unequal")
    elif kind == "oc":
        ids = [l.split()[0] for l in mlines if l.startswith("r=")]
        if len(ids) != len(set(ids)):
            f.add("object-reused")
    elif kind == "pool":
        if any(re.search(r" \d+=[2-9]", l) for l in mlines):
            f.add("bucket-collision")
        ids = [l.split()[0] for l in mlines if l.startswith("r=") and not l.startswith("r=E")]
        if len(ids) != len(set(ids)):
            f.add("pooled-string-returned-again")
    elif kind == "bmp":
        if any(" 1" in l.split(":", 1)[-1] for l in mlines):
            f.add("bit-set")
    return f


class Runner:
    def __init__(self, ctx, with_string=True):
        self.ctx = ctx
        self.work = os.path.join(common.CACHE, "work")
        os.makedirs(self.work, exist_ok=True)
        self.model = ctx.exe("xm_c20")
        self.h_cont = common.build_harness("c20_containers", ["c20_containers.cpp"], flavor="hooks", sanitize=True,
                                           link_repo=False)
        # same harness over an element class with user-provided copy/assignment/destructor (see the harness)
        self.h_elem = common.build_harness("c20_containers_elem", ["c20_containers.cpp"], flavor="hooks", sanitize=True,
                                           link_repo=False, extra=["-DC20_ELEM"])
        self.h_str = common.build_harness("c20_string", ["c20_string.cpp"], flavor="hooks", sanitize=True,
                                          extra=["-DNDEBUG"]) if with_string else None

    def harness(self, kind):
        return self.h_str if kind in ("str", "bmp", "pool", "cmp", "sc") else self.h_cont

    elem = False   # which element type the container streams currently use (toggled by run(ctx))

    def run(self, kind, seqs, tag, elem=None):
        if elem is None:
            elem = self.elem and kind in ("vec", "map", "deq", "lst")
        env = {"ASAN_OPTIONS": "detect_leaks=0:abort_on_error=0"} if kind in ("str", "bmp", "pool", "cmp", "sc") else None
        if elem:
            return run_stream(self.h_elem, self.model, seqs, self.work, tag + "_elem", env,
                              timeout=(900 if self.ctx.thorough else 30) if len(seqs) > 1 else 3)
        # a hang (e.g. a corrupted list that never reaches end()) is cut off and treated like a crash
        return run_stream(self.harness(kind), self.model, seqs, self.work, tag, env, strip_counts=True,
                          timeout=(900 if self.ctx.thorough else 30) if len(seqs) > 1 else 3)

    def shrink(self, kind, ops, want, wanttag):
        cur = list(ops)
        improved = True
        rounds = 0
        self.shrunk = getattr(self, "shrunk", 0) + 1
        if self.shrunk > 4:          # time box: only the first few failing cases of a run are minimised
            return cur
        while improved and rounds < 60:
            improved = False
            for k in range(len(cur) - 1, -1, -1):
                cand = cur[:k] + cur[k + 1:]
                tg = G.tags(kind, cand) if cand else None
                if not tg:
                    continue
                rounds += 1
                r, _, _ = self.run(kind, [cand], "shrink")
                st = r[0]
                if st[0] == want and (wanttag is None or tg[st[1]] == wanttag):
                    cur = cand[:st[1] + 1]
                    improved = True
                    break
        return cur


def known(ctx, key):
    return any(f.get("match") and re.search(f["match"], key) for f in ctx.findings)


def judge(ctx, rn, kind, ops, st, agree_box):
    """turn one non-ok sequence result into a failure / obligation"""
    status, idx, iv, mv = st
    tg = G.tags(kind, ops) or ["?"] * len(ops)
    tag = tg[idx] if 0 <= idx < len(tg) else "?"
    upto = ops[:idx + 1]
    if status in ("std", "crash"):
        word = "std-mismatch" if status == "std" else "crash"
        kname = kind + ("/elem" if rn.elem else "")
        key = "%s.%s[%s]: %s" % (kname, word, tag, " ; ".join(upto))
        if not known(ctx, key):
            small = rn.shrink(kind, upto, status, tag)
            key = "%s.%s[%s]: %s" % (kname, word, tag, " ; ".join(small))
            upto = small
        what = ("observable state differs from the std:: reference: impl=%r expected(model)=%r" % (iv, mv) if status == "std"
                else "harness aborted (sanitizer / assertion / crash): " + iv[-900:])
        ctx.fail(key, what, {"kind": kind, "ops": upto, "elem": rn.elem})
    else:
        agree_box[0] = False
        small = rn.shrink(kind, upto, "model", None)
        r, _, _ = rn.run(kind, [small], "shrink")
        ctx.extra.setdefault("model_disagreements", []).append(
            {"kind": kind, "elem": rn.elem, "ops": small, "impl": r[0][2], "model": r[0][3]})


def exhaustive_small(kind):
    """all sequences of <= n requests over a compact alphabet (thorough tier)"""
    if kind == "vec":
        alpha = ["vec push 0 1", "vec pop 0", "vec ins1 0 0 2", "vec insn 0 1 2 3", "vec erase 0 0 1",
                 "vec resize 0 3 4", "vec reserve 0 5", "vec copy 0 1", "vec push 1 7", "vec swap 0 1"]
        n = 4
    elif kind == "map":
        alpha = ["map new 0 3 4 1 2", "map ins 0 0 1", "map ins 0 1 2", "map ins 0 2 3", "map ins 0 4 5", "map erase 0 0",
                 "map erase 0 1", "map erase 0 2", "map set 0 1 9", "map clear 0", "map copy 1 0", "map swap 0 1"]
        n = 4
    elif kind == "deq":
        # both deques get block size 2 first (swap between different block sizes is the known finding C20-deque-swap-blocksize)
        pre = ["deq new 0 2 0", "deq new 1 2 0"]
        alpha = ["deq push 0 1", "deq push 0 2", "deq pop 0", "deq resize 0 1", "deq resize 0 3", "deq clear 0",
                 "deq copy 1 0", "deq swap 0 1", "deq copyctor 1 0", "deq push 1 7"]
        n = 5
    elif kind == "lst":
        alpha = ["lst pushb 0 1", "lst pushf 0 2", "lst popb 0", "lst popf 0", "lst insat 0 1 3", "lst eraseat 0 0",
                 "lst save 0 0 0", "lst eraseit 0 0", "lst splice 1 0 0 0", "lst splice 0 0 0 1", "lst clear 0", "lst swap 0 1"]
        n = 4
    elif kind == "str":
        alpha = ["str app 0 1.2", "str appn 0 0 5", "str appn 0 2 6", "str ins 0 1 7", "str erase 0 0 1", "str eraseat 0 0",
                 "str resize 0 1 8", "str resize 0 3 8", "str assign 1 0", "str assignsub 1 0 0 1", "str swap 0 1", "str erase 0 0 npos"]
        n = 4
    else:
        return []
    out = []
    setup = pre if kind == "deq" else []
    for k in range(1, n + 1):
        for combo in itertools.product(alpha, repeat=k):
            if G.tags(kind, setup + list(combo)) is not None:
                out.append(setup + list(combo))
    return out


def run(ctx):
    ctx.rule = ("a case is one operation sequence on up to 4 instances of one container kind (XalanVector<int>, XalanMap<CKey,int> "
                "with a pairwise-colliding hasher, XalanSet<CKey>, XalanDeque<int>, XalanList<int>, XalanDOMString), generated "
                "from VERIF_SEED within the std:: preconditions; non-trivial = the model reached, on that sequence, a rehash / "
                "recycled entry / stale bucket pointer (map, set), a second block (deque), a free-list reuse or saved iterator "
                "(list), spare capacity (string), a shifting insert/erase/resize/copy (vector); distinct = distinct request text")
    ctx.trusted += [
        "harness/c20_containers.cpp, harness/c20_string.cpp, gen/c20_gen.py, checks/c20.py (generators, std:: references, comparison)",
        "modelled, not verified: placement construction/destruction, pointer arithmetic of std::copy/copy_backward/fill/memmove, "
        "XalanList prev/next surgery (sequence edits in the model), bucket-vector capacities, char* overloads of XalanDOMString; "
        "exercised under ASan+UBSan in the harness",
    ]
    nolib = os.environ.get("VERIF_C20_NOLIB") == "1"   # mutation trials on the header-only containers: skip the library
    if not nolib:
        ctx.build("hooks")
    ctx.lean("XalanModel.Props.C20", THEOREMS, extra_targets=["xm_c20"])
    if ctx.exe("xm_c20") is None:
        return
    rn = Runner(ctx, with_string=not nolib)

    r = Rng(ctx.seed)
    T = ctx.thorough
    plan = {  # kind: (number of sequences, max ops)
        "vec": (1500, 60) if not T else (20000, 200),
        "map": (1500, 70) if not T else (20000, 250),
        "set": (300, 160) if not T else (2000, 400),
        "deq": (800, 60) if not T else (10000, 200),
        "lst": (1200, 60) if not T else (15000, 200),
        "str": (1500, 50) if not T else (20000, 150),
        "bmp": (300, 40) if not T else (4000, 120),
        "oc": (300, 40) if not T else (4000, 120),
        "cmp": (300, 40) if not T else (4000, 100),
        "sc": (300, 50) if not T else (4000, 150),
        "pool": (400, 60) if not T else (5000, 200),
    }
    gens = {
        "vec": lambda: G.gen_vec(r, plan["vec"][1], alias=(nbox[0] % 3 == 0)),
        "map": lambda: (G.gen_map_grow(r, 260) if nbox[0] % 12 == 6 else
                        G.gen_map(r, plan["map"][1] if not big_box[0] else 260, big=big_box[0])),
        "set": lambda: G.gen_set(r, plan["set"][1]),
        "deq": lambda: G.gen_deq(r, plan["deq"][1], multi=(nbox[0] % 6 == 0 and nbox[0] < 1200)),
        "lst": lambda: G.gen_lst(r, plan["lst"][1]),
        "bmp": lambda: G.gen_bmp(r, plan["bmp"][1]),
        "oc": lambda: G.gen_oc(r, plan["oc"][1]),
        "cmp": lambda: G.gen_cmp(r, plan["cmp"][1]),
        "sc": lambda: G.gen_sc(r, plan["sc"][1]),
        "pool": lambda: G.gen_pool(r, plan["pool"][1], leading=(nbox[0] % 8 == 0)),
        "str": lambda: G.gen_str(r, plan["str"][1], defects=(nbox[0] % 5 == 0 and nbox[0] < 1500)),
    }
    big_box = [False]
    # requests of the classes listed in known_findings.json (deque swap with different block sizes, string
    # erase(it,it) without a buffer) are confined to a bounded number of sequences per stream: on the unrepaired tree every one of them ends
    # its sequence (some abort the harness), on the repaired tree they are checked like everything else
    nbox = [0]
    agree = [True]
    unrun = [0]
    total_leak = 0
    kinds = ["vec", "map", "set", "deq", "lst", "oc", "str", "bmp", "pool", "cmp", "sc"]
    if nolib:
        kinds.remove("str"); kinds.remove("bmp"); kinds.remove("pool"); kinds.remove("cmp"); kinds.remove("sc")
        ctx.oblige("XalanDOMString correspondence was run (VERIF_C20_NOLIB unset)", "correspondence", False,
                   "VERIF_C20_NOLIB=1 is for mutation trials only")
    for kind in kinds:
        seqs = [list(ops) for k, ops in CORPUS if k == kind]
        ncorpus = len(seqs)
        for n in range(plan[kind][0]):
            nbox[0] = n
            big_box[0] = (kind == "map" and n % 12 == 0)   # default-parameter maps: rehash at 40, compaction at 50 erases
            seqs.append(gens[kind]())
        if T:
            seqs.extend(exhaustive_small(kind))
        seqs = [s for s in seqs if s]
        for elem in ([False, True] if kind in ("vec", "map", "deq", "lst") else [False]):
            rn.elem = elem
            if kind == "vec":
                # sequences ending in an aliasing request may abort the harness on the unrepaired tree: run them last
                seqs = ([s for s in seqs if s[-1].split()[1] not in ("insself", "resizeself")] +
                        [s for s in seqs if s[-1].split()[1] in ("insself", "resizeself")])
                ncorpus = 0
            res, leaked, mseq = rn.run(kind, seqs, kind)
            total_leak += leaked
            nbad = 0
            for si, st in enumerate(res):
                ops = seqs[si]
                feats = features(kind, mseq[si])
                if kind == "vec":
                    nontriv = len(ops) > 3 and any(o.split()[1] in ("ins1", "insn", "insr", "erase", "resize", "copy", "assign",
                                                                    "insself", "resizeself") for o in ops)
                else:
                    nontriv = bool(feats)
                ctx.case(nontrivial_key=("elem: " if elem else "") + " ; ".join(ops) if nontriv else None,
                         sample={"kind": kind, "ops": ops} if si == ncorpus else None,
                         cls="%s:len<=10" % (kind + ("/elem" if elem else "")) if len(ops) <= 10 else "%s:len<=40" % kind if len(ops) <= 40 else "%s:len>40" % kind)
                for ft in feats:
                    ctx.hist["reach:%s:%s" % (kind, ft)] = ctx.hist.get("reach:%s:%s" % (kind, ft), 0) + 1
                if st[0] == "unrun":
                    unrun[0] += 1
                elif st[0] != "ok":
                    nbad += 1
                    if nbad <= 12 or known(ctx, "%s.%s[%s]" % (kind, "std-mismatch" if st[0] == "std" else "crash",
                                                                  (G.tags(kind, ops) or ["?"] * len(ops))[st[1]])):
                        judge(ctx, rn, kind, ops, st, agree)
                    else:
                        ctx.hist["unjudged-failing-sequences"] = ctx.hist.get("unjudged-failing-sequences", 0) + 1
            for o in seqs[ncorpus:ncorpus + 150]:
                for op in o:
                    t = op.split()
                    ctx.hist["op:%s.%s" % (t[0], t[1])] = ctx.hist.get("op:%s.%s" % (t[0], t[1]), 0) + 1
    ctx.oblige("correspondence: real containers / XalanDOMString = Lean models on every generated request log", "correspondence",
               agree[0], json.dumps(ctx.extra.get("model_disagreements", [])[:3]))
    ctx.oblige("every generated sequence was evaluated on the real code", "correspondence", unrun[0] == 0,
               "%d sequences not evaluated (harness crashed repeatedly)" % unrun[0])
    ctx.oblige("memory manager balance: every block returned when the containers are destroyed", "correspondence",
               total_leak == 0, "blocks not returned: %r" % total_leak)
    ctx.exhaustive = False


def replay(ctx, path):
    d = json.load(open(path))
    inp = d.get("first", {}).get("input") or {}
    kind, ops = inp.get("kind"), inp.get("ops", [])
    ctx.build("hooks")
    common.lake_build(["xm_c20"])
    if not kind:
        print("replay file names no failing input; broken obligations:")
        for o in d.get("broken_obligations", []):
            print("  ", o.get("name"), "--", (o.get("detail") or "")[:1500])
        return 1
    rn = Runner(ctx)
    rn.elem = bool(inp.get("elem"))      # the element type the failure was found with (Elem class / int)
    res, _, mseq = rn.run(kind, [ops], "replay")
    print("kind:", kind, "(element type: %s)" % ("Elem (non-trivial copy)" if rn.elem else "int"))
    print("ops:", ops)
    print("tags:", G.tags(kind, ops))
    print("result:", res[0])
    print("model replies:", mseq[0])
    return 0 if res[0][0] == "ok" else 1
