"""C20 — Xalan's containers behave like their standard models (DESIGN.md §5 C20).

proof:          lean/XalanModel/Props/C20.lean (refinement of the transcribed code paths to List)
correspondence: harness/c20_containers.cpp (real templates, ASan+UBSan, lock-step with std::)
                vs lean/Driver/C20.lean (the same transcribed paths), same op log.
"""
import os
import subprocess

from vlib import common
from vlib.common import Rng

CLAIMED = True
LEVEL = "proof"
TECHNIQUE = "Lean 4 refinement proof (hand model of the container code paths -> List) + lock-step correspondence run against the real templates under ASan/UBSan"
LEVEL_TEXT = ("Machine-checked refinement: every history of XalanVector operations within std::vector's preconditions "
              "yields, in the transcribed code paths, no out-of-bounds/stale-iterator access, the std::vector element "
              "sequence and size<=allocation (Props/C20.lean, induction over histories). The model is tied to the "
              "working tree by replaying generated op logs on the real templates (ASan+UBSan, lock-step with std::) "
              "and on the compiled Lean model and comparing size/capacity/contents after every operation.")
LEVEL_NOTE = ("Trusted: Lean kernel; axioms propext/Classical.choice/Quot.sound only; the hand transcription of "
              "XalanVector.hpp (checked by the correspondence run, bounded by generator coverage); element "
              "construction/destruction and raw pointer arithmetic are abstracted to checked segment writes "
              "(modelled, not verified; ASan covers them in the run). Map/list/deque/string: see DESIGN.md C20.")
DESIGN_REF = "DESIGN.md section 5, C20"

THEOREMS = [
    "XalanModel.Props.C20.vector_step_refines",
    "XalanModel.Props.C20.vector_refines",
    "XalanModel.Props.C20.vector_reserve_capacity",
]

NV = 4  # vector ids


class PyVec:
    """reference used only to generate sequences that respect std::vector's preconditions"""
    def __init__(self):
        self.v = [[] for _ in range(NV)]


def gen_vec_seq(r, maxops):
    ref = [[] for _ in range(NV)]
    ops = []
    nops = r.range(1, maxops)
    small = r.chance(1, 2)
    for _ in range(nops):
        i = r.below(2) if small else r.below(NV)
        l = ref[i]
        k = r.weighted([("push", 10), ("pop", 3), ("ins1", 6), ("insn", 6), ("insr", 6), ("erase", 5),
                        ("resize", 3), ("reserve", 3), ("clear", 1), ("assign", 2), ("copy", 3), ("swap", 2),
                        ("newcap", 1)])
        x = r.range(-9, 99)
        if k == "push":
            ops.append("vec push %d %d" % (i, x)); l.append(x)
        elif k == "pop":
            if not l:
                continue
            ops.append("vec pop %d" % i); l.pop()
        elif k == "ins1":
            p = r.range(0, len(l))
            ops.append("vec ins1 %d %d %d" % (i, p, x)); l.insert(p, x)
        elif k == "insn":
            p = r.range(0, len(l)); n = r.weighted([(0, 1), (1, 3), (2, 3), (3, 2), (r.range(4, 12), 2)])
            ops.append("vec insn %d %d %d %d" % (i, p, n, x)); l[p:p] = [x] * n
        elif k == "insr":
            j = (i + 1 + r.below(NV - 1)) % NV
            if small:
                j = 1 - i if i < 2 else 0
            src = ref[j]
            a = r.range(0, len(src)); b = r.range(a, len(src))
            p = r.range(0, len(l))
            ops.append("vec insr %d %d %d %d %d" % (i, p, j, a, b)); l[p:p] = src[a:b]
        elif k == "erase":
            a = r.range(0, len(l)); b = r.range(a, min(len(l), a + 4))
            ops.append("vec erase %d %d %d" % (i, a, b)); del l[a:b]
        elif k == "resize":
            n = r.range(0, len(l) + 6)
            ops.append("vec resize %d %d %d" % (i, n, x))
            if n < len(l):
                del l[n:]
            else:
                l.extend([x] * (n - len(l)))
        elif k == "reserve":
            ops.append("vec reserve %d %d" % (i, r.range(0, len(l) + 10)))
        elif k == "clear":
            ops.append("vec clear %d" % i); del l[:]
        elif k == "assign":
            j = (i + 1 + r.below(NV - 1)) % NV
            src = ref[j]
            a = r.range(0, len(src)); b = r.range(a, len(src))
            ops.append("vec assign %d %d %d %d" % (i, j, a, b)); l[:] = src[a:b]
        elif k == "copy":
            j = r.below(NV)
            ops.append("vec copy %d %d" % (i, j)); l[:] = list(ref[j])
        elif k == "swap":
            j = r.below(NV)
            ops.append("vec swap %d %d" % (i, j)); ref[i], ref[j] = ref[j], ref[i]
        elif k == "newcap":
            ops.append("vec newcap %d %d" % (i, r.range(0, 12))); del l[:]
    return ops


RESET = ["vec new %d" % i for i in range(NV)]


def valid(ops):
    """re-check std preconditions of a (shrunk) sequence"""
    ref = [[] for _ in range(NV)]
    try:
        for o in ops:
            t = o.split()
            k = t[1]; a = [int(x) for x in t[2:]]
            i = a[0]; l = ref[i]
            if k in ("new", "newcap", "clear"):
                del l[:]
            elif k == "push":
                l.append(a[1])
            elif k == "pop":
                if not l:
                    return False
                l.pop()
            elif k == "ins1":
                if a[1] > len(l):
                    return False
                l.insert(a[1], a[2])
            elif k == "insn":
                if a[1] > len(l):
                    return False
                l[a[1]:a[1]] = [a[3]] * a[2]
            elif k == "insr":
                s = ref[a[2]]
                if a[2] == i or a[1] > len(l) or not (a[3] <= a[4] <= len(s)):
                    return False
                l[a[1]:a[1]] = s[a[3]:a[4]]
            elif k == "erase":
                if not (a[1] <= a[2] <= len(l)):
                    return False
                del l[a[1]:a[2]]
            elif k == "resize":
                if a[1] < len(l):
                    del l[a[1]:]
                else:
                    l.extend([a[2]] * (a[1] - len(l)))
            elif k == "reserve":
                pass
            elif k == "assign":
                s = ref[a[1]]
                if a[1] == i or not (a[2] <= a[3] <= len(s)):
                    return False
                l[:] = s[a[2]:a[3]]
            elif k == "copy":
                l[:] = list(ref[a[1]])
            elif k == "swap":
                ref[i], ref[a[1]] = ref[a[1]], ref[i]
            elif k in ("insself",):
                if a[1] > len(l) or a[3] >= len(l):
                    return False
                l[a[1]:a[1]] = [l[a[3]]] * a[2]
            elif k == "pushself":
                if a[1] >= len(l):
                    return False
                l.append(l[a[1]])
            else:
                return False
    except (IndexError, ValueError):
        return False
    return True


def run_stream(harness, model, seqs, workdir, tag):
    """seqs: list of op lists. Returns list of per-sequence results:
    (status, first_bad_index, impl_line, model_line) with status in ok|std|model|crash"""
    req = os.path.join(workdir, "c20_%s.req" % tag)
    lines = []
    owner = []
    for si, ops in enumerate(seqs):
        for o in RESET + ops:
            lines.append(o)
            owner.append(si)
    with open(req, "w") as f:
        f.write("\n".join(lines) + "\n")
    il, ml, irc, mrc, ierr, merr = common.run_pair([harness], [model], req,
                                                   impl_env={"ASAN_OPTIONS": "detect_leaks=1:abort_on_error=0",
                                                             "UBSAN_OPTIONS": "print_stacktrace=1"})
    res = [("ok", -1, "", "")] * len(seqs)
    res = list(res)
    live = None
    if il and il[-1].startswith("live "):
        live = int(il[-1].split()[1])
        il = il[:-1]
    done = set()
    for idx in range(len(lines)):
        si = owner[idx]
        if si in done:
            continue
        iv = il[idx] if idx < len(il) else None
        mv = ml[idx] if idx < len(ml) else None
        if iv is None:
            res[si] = ("crash", idx, ierr[-1500:], mv or "")
            done.add(si)
            break  # everything after a crash is unknown
        if "!std" in iv:
            res[si] = ("std", idx, iv, mv or "")
            done.add(si)
        elif iv != mv:
            res[si] = ("model", idx, iv, mv if mv is not None else "<model stopped: %s>" % merr[-300:])
            done.add(si)
    crashed = irc != 0
    return res, live, crashed, ierr, req


def shrink(harness, model, ops, workdir, want):
    """greedy one-op deletion keeping the same failure class"""
    cur = list(ops)
    improved = True
    rounds = 0
    while improved and rounds < 200:
        improved = False
        for k in range(len(cur) - 1, -1, -1):
            cand = cur[:k] + cur[k + 1:]
            if not valid(cand):
                continue
            rounds += 1
            r, _, _, _, _ = run_stream(harness, model, [cand], workdir, "shrink")
            if r[0][0] == want:
                cur = cand
                improved = True
    return cur


CORPUS = [
    # minimised past failures / design §6 candidates run first
    ["vec push 0 1", "vec push 0 2", "vec push 0 3", "vec push 0 4", "vec reserve 0 8", "vec insself 0 0 1 2"],
]


def run(ctx):
    ctx.rule = ("operation sequences on 4 XalanVector<int> instances generated from VERIF_SEED within std::vector's "
                "preconditions; a case is one sequence; non-trivial = sequence that reaches a re-allocation, an in-place "
                "insert (either split case) or an erase/resize shrink in the model; distinct = distinct op text")
    ctx.trusted += [
        "harness/c20_containers.cpp + checks/c20.py (generator, comparison)",
        "modelled, not verified: placement construction/destruction of elements, pointer arithmetic of std::copy/"
        "copy_backward/fill (abstracted to checked segment writes); exercised under ASan+UBSan in the harness",
    ]
    ctx.build("hooks")
    ctx.lean("XalanModel.Props.C20", THEOREMS, extra_targets=["xm_c20"])
    model = ctx.exe("xm_c20")
    harness = common.build_harness("c20_containers", ["c20_containers.cpp"], flavor="hooks", sanitize=True)
    work = os.path.join(common.CACHE, "work")
    os.makedirs(work, exist_ok=True)
    if model is None:
        return

    r = Rng(ctx.seed)
    nseq, maxops = (2000, 60) if not ctx.thorough else (60000, 200)
    seqs = [list(c) for c in CORPUS]
    ncorpus = len(seqs)
    for _ in range(nseq):
        seqs.append(gen_vec_seq(r, maxops))
    if ctx.thorough:
        # small-scope exhaustive: all sequences of <= 4 ops over a compact alphabet on one vector
        alpha = ["vec push 0 1", "vec pop 0", "vec ins1 0 0 2", "vec insn 0 1 2 3", "vec erase 0 0 1",
                 "vec resize 0 3 4", "vec reserve 0 5", "vec copy 0 1", "vec push 1 7", "vec swap 0 1"]
        import itertools
        for n in range(1, 5):
            for combo in itertools.product(alpha, repeat=n):
                if valid(list(combo)):
                    seqs.append(list(combo))
    res, live, crashed, ierr, req = run_stream(harness, model, seqs, work, "main")
    agree = True
    for si, (st, idx, iv, mv) in enumerate(res):
        ops = seqs[si]
        text = " ; ".join(ops)
        nontriv = any(o.split()[1] in ("ins1", "insn", "insr", "erase", "resize", "copy", "assign") for o in ops) and len(ops) > 3
        ctx.case(nontrivial_key=text if nontriv else None, sample=ops if si in (ncorpus, ncorpus + 1) else None,
                 cls="len<=10" if len(ops) <= 10 else "len<=30" if len(ops) <= 30 else "len>30")
        if st == "ok":
            continue
        if st == "crash":
            small = shrink(harness, model, ops, work, "crash")
            ctx.fail("vec.crash: " + " ; ".join(small), "harness aborted (sanitizer/crash): " + iv[-800:], small)
        elif st == "std":
            small = shrink(harness, model, ops, work, "std")
            kinds = sorted(set(o.split()[1] for o in small))
            key = "vec.std-mismatch[%s]: %s" % (",".join(k for k in kinds if k in ("insself", "pushself")) or "plain", " ; ".join(small))
            ctx.fail(key, "XalanVector contents differ from std::vector: impl=%r" % iv, small)
        elif st == "model":
            agree = False
            small = shrink(harness, model, ops, work, "model")
            ctx.extra.setdefault("model_disagreements", []).append({"ops": small, "impl": iv, "model": mv})
    ctx.oblige("correspondence: XalanVector<int> (real code) = Lean model on every generated op log", "correspondence",
               agree, str(ctx.extra.get("model_disagreements", [])[:2]))
    if crashed and not any(s[0] == "crash" for s in res):
        ctx.oblige("harness exits cleanly", "correspondence", False, ierr[-1500:])
    ctx.oblige("memory manager balance: every block returned at destruction (live == 0)", "correspondence",
               live == 0 or crashed, "live=%r" % live)
    for o in seqs[ncorpus:ncorpus + 200]:
        for op in o:
            k = op.split()[1]
            ctx.hist["op:" + k] = ctx.hist.get("op:" + k, 0) + 1
    ctx.exhaustive = False


def replay(ctx, path):
    import json
    d = json.load(open(path))
    ops = d["first"]["input"] if "first" in d else []
    ctx.build("hooks")
    common.lake_build(["xm_c20"])
    model = ctx.exe("xm_c20")
    harness = common.build_harness("c20_containers", ["c20_containers.cpp"], flavor="hooks", sanitize=True)
    work = os.path.join(common.CACHE, "work")
    os.makedirs(work, exist_ok=True)
    res, live, crashed, ierr, req = run_stream(harness, model, [ops], work, "replay")
    print("ops:", ops)
    print("result:", res[0])
    return 0 if res[0][0] == "ok" else 1
