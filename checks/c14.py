"""C14 — result elements/attributes get the requested expanded names; prefixes resolve (DESIGN.md §5 C14).

proof:          lean/XalanModel/Props/C14.lean (invariants of the result-event machine over all event sequences)
correspondence: harness/c14_transform.cpp (real library, XalanTransformer) vs lean/Driver/C14.lean on generated
                stylesheets; the serialized result is re-parsed (expat) to the raw start-tag/attribute stream,
                which must equal the model's event stream; the namespace-resolved result tree must equal the
                expanded names the generator asked for (specification oracle in gen/c14_gen.py).
"""
import json
import os
import shutil
import subprocess
import sys
import threading
import xml.parsers.expat

from vlib import common
from vlib.common import Rng

sys.path.insert(0, os.path.join(common.ROOT, "gen"))
import c14_gen as G  # noqa: E402

CLAIMED = True
LEVEL = "proof"
TECHNIQUE = ("Lean 4 proofs (induction over arbitrary engine-request sequences and over instruction trees, refinement of the "
             "lazily created namespace stack to a plain stack of frames, per-site theorems for the old and the repaired form of "
             "thirteen code sites (plus fixed-form obligations on the alias copy/override functions and the import order)) about a hand model of XSLTEngineImpl's result-event machine and NamespacesHandler; a regex "
             "translator (translate/c14_variant.py) selects the model variant the working tree has; correspondence run of "
             "generated stylesheets against the real library with a namespace-aware re-parse and an independent oracle")
LEVEL_TEXT = ("Machine-checked (Props/C14.lean, 29 theorems): for EVERY sequence of engine requests, and for every instruction "
              "tree run by the model's interpreter, no pending start tag holds two attributes with one qname; the invented "
              "ns<N> prefix is unbound in the whole namespace stack (pigeonhole); the lazily created XalanNamespacesStack "
              "refines a plain stack of frames for every push/pop/add history; in every engine state xsl:attribute (with and "
              "without namespace), copied attribute nodes and literal attributes end with the requested local name and a prefix "
              "bound to the requested URI - unconditionally for the repaired form of each code site (..._fixed), under stated "
              "hypotheses for the form first analysed (..._partial) together with a replayed ..._counterexample; with the "
              "proposed flushPending repair the delivered attribute list has pairwise distinct expanded names; compile-time "
              "exclusion keeps only needed declarations, aliasing leaves no stylesheet-side URI, own bindings win over "
              "inherited exclusions. The model is tied to the working tree on every run: translate/c14_variant.py reads ten "
              "code sites and picks the model variant, and generated stylesheets (literal elements, xsl:element/attribute with "
              "static/computed name+namespace, attribute sets, namespace-alias, exclude-result-prefixes, copy/copy-of of "
              "namespaced source elements and attributes, ns<N>-like prefixes) are run through the real library and the compiled "
              "model; the complete start-tag/attribute streams must agree, and an independent oracle checks the expanded names "
              "of every real output against what the stylesheet asked for.")
LEVEL_NOTE = ("Trusted: Lean kernel (leanchecker in the thorough tier); axioms propext/Classical.choice/Quot.sound only; the hand "
              "transcription XalanModel/C14/{Engine,Stylesheet}.lean, validated by the correspondence run and bounded by generator "
              "coverage; translate/c14_variant.py (normalised-text recognition of thirteen code sites (plus fixed-form obligations on the alias copy/override functions and the import order), cross-checked by the "
              "correspondence run); QName strings abstracted to (prefix, local) pairs; expat as reference parser; the oracle in "
              "gen/c14_gen.py. There is no single end-to-end theorem 'exec output has the requested names': the theorems are "
              "per engine operation / per code site and about qname uniqueness for whole trees; the interpreter exec is "
              "otherwise validated by correspondence only. Modelled, not verified: AVT evaluation, the serializer (C04), the "
              "source tree builder. Not modelled: xsl:import/include (hence the proposed import/alias repair is tested by hand "
              "only), nested use-attribute-sets, extension namespaces, result tree fragments, xml:/xmlns: names in "
              "xsl:attribute/xsl:element. Known findings still open in /repo until the round-5 diffs are committed: duplicate "
              "expanded attribute, excluded prefix re-bound, attribute set re-binds a literal attribute's prefix.")
DESIGN_REF = "design/C14.md (complete); DESIGN.md section 5 C14, section 6 item 19"

THEOREMS = [
    "XalanModel.Props.C14.pending_attrs_nodup_qname",
    "XalanModel.Props.C14.no_duplicate_expanded_attr_counterexample",
    "XalanModel.Props.C14.unique_prefix_is_fresh",
    "XalanModel.Props.C14.rns_refines_frames",
    "XalanModel.Props.C14.names_resolve_attr_ns_partial",
    "XalanModel.Props.C14.names_resolve_attr_ns_counterexample",
    "XalanModel.Props.C14.prefix_lookup_sound_fixed",
    "XalanModel.Props.C14.names_resolve_attr_ns_fixed",
    "XalanModel.Props.C14.no_undeclared_prefix_partial",
    "XalanModel.Props.C14.no_undeclared_prefix_counterexample",
    "XalanModel.Props.C14.no_undeclared_prefix_fixed",
    "XalanModel.Props.C14.attr_after_child_leaks_counterexample",
    "XalanModel.Props.C14.late_attribute_ignored_fixed",
    "XalanModel.Props.C14.element_empty_namespace_fixed",
    "XalanModel.Props.C14.excluded_not_emitted",
    "XalanModel.Props.C14.alias_replaced",
    "XalanModel.Props.C14.exec_pending_attrs_nodup_qname",
    "XalanModel.Props.C14.copied_attribute_resolves_fixed",
    "XalanModel.Props.C14.copied_attribute_counterexample",
    "XalanModel.Props.C14.no_duplicate_expanded_attr_fixed",
    "XalanModel.Props.C14.literal_attribute_keeps_namespace_fixed",
    "XalanModel.Props.C14.handler_own_bindings_first_fixed",
    "XalanModel.Props.C14.xml_like_prefix_is_ordinary_fixed",
    "XalanModel.Props.C14.xml_like_prefix_counterexample",
    "XalanModel.Props.C14.alias_override_assigns",
    "XalanModel.Props.C14.alias_copy_keeps",
    "XalanModel.Props.C14.alias_highest_precedence_wins",
    "XalanModel.Props.C14.fragment_self_contained_fixed",
    "XalanModel.Props.C14.fragment_depends_on_context_counterexample",
]

XML = G.XML


# ------------------------------------------------------------------------------------------------
# parsing the implementation's output

def raw_events(text):
    """non-namespace parse: list of ('S', qname, [(qname, value)]) / ('E', qname) / ('T',) ; adjacent text merged"""
    ev = []
    p = xml.parsers.expat.ParserCreate()
    p.ordered_attributes = True

    def st(name, attrs):
        ev.append(("S", name, [(attrs[i], attrs[i + 1]) for i in range(0, len(attrs), 2)]))

    def en(name):
        ev.append(("E", name))

    def ch(data):
        if not (ev and ev[-1] == ("T",)):
            ev.append(("T",))
    p.StartElementHandler = st
    p.EndElementHandler = en
    p.CharacterDataHandler = ch
    p.Parse(text, True)
    return ev


def ns_parse_ok(text):
    p = xml.parsers.expat.ParserCreate(namespace_separator=" ")
    try:
        p.Parse(text, True)
        return None
    except xml.parsers.expat.ExpatError as e:
        return str(e)


def model_events(line):
    """parse the model reply into the same shape; returns (events|None, tags, status)"""
    if line is None:
        return None, [], "none"
    if line == "BAD" or line == "bad":
        return None, [], line
    left, _, right = line.partition("|")
    tags = right.split()
    if left.strip() == "ERR":
        return None, tags, "ERR"
    t = left.split()
    ev = []
    i = 0
    while i < len(t):
        if t[i] == "S":
            n = int(t[i + 2])
            atts = []
            for j in range(n):
                a, v = t[i + 3 + 2 * j], t[i + 4 + 2 * j]
                atts.append((a, "" if v == "-" else v))
            ev.append(("S", t[i + 1], atts))
            i += 3 + 2 * n
        elif t[i] == "E":
            ev.append(("E", t[i + 1]))
            i += 2
        elif t[i] == "T":
            if not (ev and ev[-1] == ("T",)):
                ev.append(("T",))
            i += 1
        else:
            return None, tags, "unparsable"
    return ev, tags, "ok"


def resolve(ev):
    """namespace resolution of a raw event stream.  Returns (top-level node list, problems) where a node is
    {'name':(uri,local),'qname','atts':{(uri,local):value},'decls':[(prefix,uri)],'kids':[..]} or 'T' and problems
    is a list of (kind, detail)."""
    problems = []
    top = []
    stack = []      # (node, scope)
    for e in ev:
        if e[0] == "S":
            scope = dict(stack[-1][1]) if stack else {}
            decls = []
            for a, v in e[2]:
                if a == "xmlns":
                    scope[""] = v
                    decls.append(("", v))
                elif a.startswith("xmlns:"):
                    if v == "":
                        problems.append(("empty-prefixed-declaration", a))
                    scope[a[6:]] = v
                    decls.append((a[6:], v))
            p, l = G.split(e[1])
            if p and p != "xml" and p not in scope:
                problems.append(("unbound-prefix", "element " + e[1]))
            node = {"name": (XML if p == "xml" else scope.get(p, ""), l), "qname": e[1], "atts": {}, "decls": decls,
                    "kids": [], "aq": {}}
            for a, v in e[2]:
                if a == "xmlns" or a.startswith("xmlns:"):
                    continue
                ap, al = G.split(a)
                if ap and ap != "xml" and ap not in scope:
                    problems.append(("unbound-prefix", "attribute " + a))
                    uri = "?unbound:" + ap
                else:
                    uri = XML if ap == "xml" else (scope[ap] if ap else "")
                if (uri, al) in node["atts"]:
                    problems.append(("duplicate-attribute", "%s and %s" % (node["aq"][(uri, al)], a)))
                node["atts"][(uri, al)] = v
                node["aq"][(uri, al)] = a
            (stack[-1][0]["kids"] if stack else top).append(node)
            stack.append((node, scope))
        elif e[0] == "E":
            stack.pop()
        else:
            (stack[-1][0]["kids"] if stack else top).append("T")
    return top, problems


def used_uris(node):
    s = set()
    if node == "T":
        return s
    s.add(node["name"][0])
    for (u, _l) in node["atts"]:
        s.add(u)
    for k in node["kids"]:
        s |= used_uris(k)
    return s


def compare(exp, act):
    """first difference between the requested tree and the parsed result: (kind, instr id, detail) or None"""
    if len(exp) != len(act) or any((a == "T") != (b == "T") for a, b in zip(exp, act)):
        iid = next((e["id"] for e in exp if e != "T"), -1)
        return ("structure", iid, "expected %d children, got %d" % (len(exp), len(act)))
    for e, a in zip(exp, act):
        if e == "T":
            continue
        if e["name"] != a["name"]:
            return ("wrong-element-name", e["id"], "requested %r, result has %r (%s)" % (e["name"], a["name"], a["qname"]))
        missing = [k for k in e["atts"] if k not in a["atts"]]
        extra = [k for k in a["atts"] if k not in e["atts"]]
        if missing:
            k = missing[0]
            same_local = [x for x in extra if x[1] == k[1]]
            if same_local:
                return ("wrong-attribute-name", e["attsrc"][k],
                        "requested %r, result has %r (%s)" % (k, same_local[0], a["aq"][same_local[0]]))
            return ("missing-attribute", e["attsrc"][k], "requested %r on %s" % (k, a["qname"]))
        if extra:
            return ("extra-attribute", e["id"], "unrequested %r (%s) on %s" % (extra[0], a["aq"][extra[0]], a["qname"]))
        for k in e["atts"]:
            if e["atts"][k] != a["atts"][k]:
                return ("wrong-attribute-value", e["attsrc"][k], "%r: requested %r got %r" % (k, e["atts"][k], a["atts"][k]))
        if e.get("kind") == "L":
            used = used_uris(a)
            for p, u in a["decls"]:
                if u in e.get("aliased", ()) and u not in used:
                    return ("alias-source-emitted", e["id"], "xmlns%s=%s on %s is the stylesheet side of a namespace-alias and unused" % (":" + p if p else "", u, a["qname"]))
                if not e.get("hasAlias") and u in e.get("excluded", ()) and u not in used:
                    return ("excluded-emitted", e["id"], "xmlns%s=%s on %s is excluded and unused" % (":" + p if p else "", u, a["qname"]))
        r = compare(e["kids"], a["kids"])
        if r:
            return r
    return None


def judge(case, impl_line, model_line):
    """returns dict: corr (True/False/None), viol (None or (kind, tag, detail)), info"""
    exp, feats = G.expected(case)
    mev, tags, mstatus = model_events(model_line)
    res = {"corr": None, "viol": None, "feats": feats, "tags": tags, "mstatus": mstatus, "iid": -1}
    if impl_line is None:
        res["viol"] = ("crash", "?", "harness produced no reply")
        return res
    st, _, hx = impl_line.partition(" ")
    if st != "OK":
        msg = bytes.fromhex(hx).decode("utf-8", "replace") if hx and hx != "-" else ""
        res["impl_err"] = msg
        res["corr"] = (mstatus in ("ERR", "BAD"))
        if mstatus not in ("ERR", "BAD"):
            res["corr_detail"] = "implementation reported an error (%s), model did not" % msg[:200]
        # a reported error is not a wrong result; the generator only makes stylesheets with defined meaning, so flag it
        res["viol"] = ("error-reported", "?", msg[:300])
        return res
    text = bytes.fromhex(hx).decode("utf-8") if hx != "-" else ""
    res["text"] = text
    try:
        iev = raw_events(text)
    except xml.parsers.expat.ExpatError as e:
        res["viol"] = ("not-well-formed", "?", str(e))
        res["corr"] = False
        res["corr_detail"] = "result is not well-formed XML"
        return res
    if mev is None:
        res["corr"] = False
        res["corr_detail"] = "model: %s, implementation produced output" % mstatus
    else:
        res["corr"] = (iev == mev)
        if iev != mev:
            k = next((n for n, (x, y) in enumerate(zip(iev, mev)) if x != y), min(len(iev), len(mev)))
            res["corr_detail"] = "event %d: impl %r model %r" % (k, iev[k] if k < len(iev) else None, mev[k] if k < len(mev) else None)
    act, problems = resolve(iev)
    nserr = ns_parse_ok(text)
    if problems:
        kind, detail = problems[0]
        # attribute the problem to the instruction whose tag is most specific: use compare() when possible
        c = compare(exp, act)
        iid = c[1] if c else -1
        res["iid"] = iid
        res["viol"] = (kind, tags[iid] if 0 <= iid < len(tags) else "?", detail)
        return res
    if nserr is not None:
        res["viol"] = ("namespace-parse-error", "?", nserr)
        return res
    c = compare(exp, act)
    if c:
        kind, iid, detail = c
        res["iid"] = iid
        res["viol"] = (kind, tags[iid] if 0 <= iid < len(tags) else "?", detail)
    return res


def make_key(case, res):
    kind, tag, detail = res["viol"]
    feats = ",".join(sorted(res["feats"])) or "-"
    il = G.instr_list(case)
    iid = res.get("iid", -1)
    desc = G.describe(il[iid] if 0 <= iid < len(il) else None)
    short = sorted(set(t.replace("XalanModel.C14.", "").replace("ABranch.", "").replace("EBranch.", "").replace("CBranch.", "") for t in res["tags"]))
    return "%s@%s instr=%s feats=%s tags=%s :: %s" % (kind, tag.replace("XalanModel.C14.", ""), desc, feats,
                                                     ",".join(short) or "-", G.case_tokens(case))


# ------------------------------------------------------------------------------------------------
# running

def run_impl(harness, lines, nproc):
    """lines: list of request lines; split over nproc processes; returns list of replies (None if missing)"""
    n = len(lines)
    out = [None] * n
    chunks = [list(range(k, n, nproc)) for k in range(nproc)]

    def work(idx, k):
        if not idx:
            return
        data = ("\n".join(lines[i] for i in idx) + "\n").encode()
        # imported modules of a case are written here by the harness (one directory per harness process)
        d = os.path.join(common.CACHE, "work", "c14_modules_%d_%d" % (os.getpid(), k))
        os.makedirs(d, exist_ok=True)
        p = subprocess.run([harness, d], input=data, stdout=subprocess.PIPE, stderr=subprocess.PIPE)
        shutil.rmtree(d, ignore_errors=True)
        rep = p.stdout.decode("utf-8", "replace").split("\n")
        for j, i in enumerate(idx):
            if j < len(rep) and rep[j]:
                out[i] = rep[j]
    th = [threading.Thread(target=work, args=(c, k)) for k, c in enumerate(chunks)]
    [t.start() for t in th]
    [t.join() for t in th]
    return out


def run_model(model, lines):
    data = ("\n".join(lines) + "\n").encode()
    p = subprocess.run([model], input=data, stdout=subprocess.PIPE, stderr=subprocess.PIPE)
    rep = p.stdout.decode("utf-8", "replace").split("\n")
    return [rep[i] if i < len(rep) and rep[i] != "" else None for i in range(len(lines))]


def run_cases(harness, model, cases, nproc=8):
    xml_of = {}
    ilines = []
    mlines = []
    for c in cases:
        xsl = G.case_xsl(c).encode().hex()
        sx = G.src_xml(c["src"]).encode().hex()
        extra = "".join(" m%d.xsl=%s" % (k + 1, G.module_xsl(c, k + 1).encode().hex()) for k in range(len(c.get("mods", []))))
        ilines.append(xsl + " " + sx + extra)
        mlines.append(G.case_tokens(c))
    res = {}

    def m():
        res["m"] = run_model(model, mlines)
    t = threading.Thread(target=m)
    t.start()
    il = run_impl(harness, ilines, nproc)
    t.join()
    return [judge(c, i, ml) for c, i, ml in zip(cases, il, res["m"])]


def shrink(harness, model, case, want, budget=400):
    """greedy: keep a simplification while the same (kind, tag) violation (or, for want=None, the same
    correspondence disagreement) persists"""
    cur = case
    improved = True
    while improved and budget > 0:
        improved = False
        cands = [c for c in G.shrink_candidates(cur) if G.valid(c)]
        if not cands:
            break
        cands = cands[:budget]
        budget -= len(cands)
        rs = run_cases(harness, model, cands)
        for c, r in zip(cands, rs):
            if want == "corr":
                hit = r["corr"] is False
            else:
                hit = r["viol"] is not None and (r["viol"][0], r["viol"][1]) == want
            if hit:
                cur = c
                improved = True
                break
    return cur


def load_corpus():
    d = os.path.join(common.ROOT, "gen", "corpus", "c14")
    out = []
    if os.path.isdir(d):
        for f in sorted(os.listdir(d)):
            if f.endswith(".json"):
                out.append(json.load(open(os.path.join(d, f)))["case"])
    for c in out:
        c["aliases"] = [tuple(x) for x in c.get("aliases", [])]
        fix_mods(c)
        c["rootdecls"] = [tuple(x) for x in c["rootdecls"]]
        fix_tuples(c["src"])
        for b in c["body"]:
            fix_instr(b)
    return out


def fix_mods(c):
    for md in c.get("mods", []):
        md["rootdecls"] = [tuple(x) for x in md["rootdecls"]]
        md["aliases"] = [tuple(x) for x in md["aliases"]]
        for b in md["body"]:
            fix_instr(b)


def fix_tuples(n):
    n["decls"] = [tuple(x) for x in n["decls"]]
    n["atts"] = [tuple(x) for x in n["atts"]]
    for k in n["kids"]:
        fix_tuples(k)


def fix_instr(i):
    for f in ("decls", "atts"):
        if f in i:
            i[f] = [tuple(x) for x in i[f]]
    for b in i.get("body", []):
        fix_instr(b)


def small_scope_cases():
    """all nestings of <= 3 instructions over 2 prefixes x 2 URIs (thorough tier)"""
    import itertools
    P = ["p", "q"]
    U = ["urn:a", "urn:b"]
    roots = [[("xsl", G.XSLT), ("p", "urn:a"), ("q", "urn:b")], [("xsl", G.XSLT), ("p", "urn:a"), ("q", "urn:a"), ("", "urn:b")]]
    src = {"name": "doc", "decls": [("p", "urn:b")], "atts": [], "kids": [{"name": "p:e", "decls": [("q", "urn:a")], "atts": [("q:x", "s1")], "kids": []}]}
    elems = []
    for p in P + [""]:
        nm = (p + ":" if p else "") + "e"
        elems.append({"k": "L", "name": nm, "decls": [], "atts": [], "excl": []})
        elems.append({"k": "L", "name": nm, "decls": [("p", "urn:b")], "atts": [], "excl": []})
        elems.append({"k": "E", "name": nm, "ns": None})
        for u in U + [""]:
            if u == "" and p:
                continue
            elems.append({"k": "E", "name": nm, "ns": u})
    elems.append({"k": "Y", "n": 2})
    attrs = []
    for p in P + [""]:
        nm = (p + ":" if p else "") + "x"
        attrs.append({"k": "A", "name": nm, "ns": None, "value": "v"})
        for u in U:
            attrs.append({"k": "A", "name": nm, "ns": u, "value": "v"})
    import copy
    out = []
    for rd in roots:
        for e1 in elems:
            for a1 in attrs:
                c = {"rootdecls": rd, "rootexcl": [], "src": src, "body": [dict(copy.deepcopy(e1), body=[copy.deepcopy(a1)])]}
                out.append(c)
                for a2 in attrs:
                    c = {"rootdecls": rd, "rootexcl": [], "src": src,
                         "body": [dict(copy.deepcopy(e1), body=[copy.deepcopy(a1), copy.deepcopy(a2)])]}
                    out.append(c)
            for e2 in elems:
                for a1 in attrs:
                    c = {"rootdecls": rd, "rootexcl": [], "src": src,
                         "body": [dict(copy.deepcopy(e1), body=[dict(copy.deepcopy(e2), body=[copy.deepcopy(a1)])])]}
                    out.append(c)
    return [c for c in out if G.valid(c)]


def nontrivial(case, res):
    """a case is non-trivial when a namespace decision other than 'plain' was taken by the model"""
    return any(t not in ("L", "A:XalanModel.C14.ABranch.plain", "C", "Y") for t in res["tags"]) or \
        any(t.startswith("A:") for t in res["tags"])


def run(ctx):
    ctx.rule = ("a case is one generated stylesheet (nesting of literal result elements, xsl:element, xsl:attribute with "
                "static/computed name and namespace, xsl:copy-of / xsl:copy of namespaced source elements, "
                "exclude-result-prefixes) applied to a generated source document; non-trivial = the model executed at least "
                "one xsl:attribute/xsl:element namespace decision; distinct = distinct token encodings of such cases")
    ctx.trusted += [
        "harness/c14_transform.cpp, gen/c14_gen.py (generator, specification oracle), checks/c14.py (expat re-parse, comparison)",
        "modelled, not verified: AVT evaluation, attribute sets, namespace-alias, result tree fragments, serializer, source tree builder",
    ]
    ctx.build("hooks")
    # which of the four repaired code sites does the tree have?  (Generated/C14_Variant.lean; the driver uses it)
    ok, tout = ctx.translate("c14_variant")
    ctx.extra["variant"] = tout.strip()[-200:]
    ctx.lean("XalanModel.Props.C14", THEOREMS, extra_targets=["xm_c14"])
    model = ctx.exe("xm_c14")
    harness = common.build_harness("c14_transform", ["c14_transform.cpp"], flavor="hooks")
    if model is None:
        return
    # common.Rng(seed) and Rng(seed+1) are the same splitmix stream shifted by ONE draw (state = seed*gamma + c), so
    # consecutive seeds re-synchronise after a few cases; spread the seeds far apart along the stream instead.
    r = Rng(ctx.seed * 1000003 + 17)
    corpus = load_corpus()
    cases = list(corpus)
    n = 4000 if not ctx.thorough else 60000
    while len(cases) < len(corpus) + n:
        c = G.gen_case(r)
        if G.valid(c):
            cases.append(c)
    if ctx.thorough:
        cases += small_scope_cases()
        ctx.exhaustive = False
    results = run_cases(harness, model, cases, nproc=min(16, common.NPROC))
    corr_bad = []
    new_fail = {}
    for idx, (c, res) in enumerate(zip(cases, results)):
        toks = G.case_tokens(c)
        ctx.case(nontrivial_key=toks if nontrivial(c, res) else None,
                 sample={"tokens": toks} if idx in (len(corpus), len(corpus) + 1) else None,
                 cls="instrs<=3" if toks.count(" A ") + toks.count(" E ") + toks.count(" L ") <= 3 else "instrs>3")
        for t in res["tags"]:
            ctx.hist["branch:" + t.replace("XalanModel.C14.", "")] = ctx.hist.get("branch:" + t.replace("XalanModel.C14.", ""), 0) + 1
        if res["corr"] is False:
            corr_bad.append((c, res))
        if res["viol"] is not None:
            key = make_key(c, res)
            st = ctx.fail(key, "%s: %s" % (res["viol"][0], res["viol"][2]), {"case": c, "tokens": toks})
            if st == "new":
                # undo the provisional record; shrink one representative per (kind, tag) below
                ctx.failures.pop()
                new_fail.setdefault((res["viol"][0], res["viol"][1]), (c, res))
    for (kind, tag), (c, res) in sorted(new_fail.items())[:6]:
        small = shrink(harness, model, c, (kind, tag))
        r2 = run_cases(harness, model, [small])[0]
        if r2["viol"] is None:
            small, r2 = c, res
        ctx.fail(make_key(small, r2), "%s: %s | stylesheet: %s | source: %s | result: %s" % (
            r2["viol"][0], r2["viol"][2], G.case_xsl(small), G.src_xml(small["src"]), r2.get("text", r2.get("impl_err", ""))[:600]),
            {"case": small, "tokens": G.case_tokens(small)})
    detail = ""
    if corr_bad:
        c, res = corr_bad[0]
        small = shrink(harness, model, c, "corr")
        r2 = run_cases(harness, model, [small])[0]
        detail = "%d disagreeing cases; minimal: %s | %s | xsl: %s | src: %s | impl: %s" % (
            len(corr_bad), G.case_tokens(small), r2.get("corr_detail"), G.case_xsl(small), G.src_xml(small["src"]), r2.get("text", "")[:400])
        ctx.extra["model_disagreement"] = {"case": small, "detail": detail}
    ctx.oblige("correspondence: start-tag/attribute event stream of the real library = Lean model on every generated stylesheet",
               "correspondence", not corr_bad, detail)
    ctx.extra["violation_classes"] = {}
    for c, res in zip(cases, results):
        if res["viol"]:
            k = "%s@%s" % (res["viol"][0], res["viol"][1].replace("XalanModel.C14.", ""))
            ctx.extra["violation_classes"][k] = ctx.extra["violation_classes"].get(k, 0) + 1


def replay(ctx, path):
    d = json.load(open(path))
    first = d.get("first") or {}
    case = (first.get("input") or {}).get("case")
    if case is None:
        print("replay file names broken obligations only:", [o["name"] for o in d.get("broken_obligations", [])])
        return 1
    case["rootdecls"] = [tuple(x) for x in case["rootdecls"]]
    case["aliases"] = [tuple(x) for x in case.get("aliases", [])]
    fix_mods(case)
    fix_tuples(case["src"])
    for b in case["body"]:
        fix_instr(b)
    ctx.build("hooks")
    ctx.translate("c14_variant")
    common.lake_build(["xm_c14"])
    model = ctx.exe("xm_c14")
    harness = common.build_harness("c14_transform", ["c14_transform.cpp"], flavor="hooks")
    res = run_cases(harness, model, [case])[0]
    print("stylesheet:", G.case_xsl(case))
    print("source    :", G.src_xml(case["src"]))
    print("result    :", res.get("text", res.get("impl_err")))
    print("model     :", res["mstatus"], res["tags"])
    print("correspondence:", res["corr"], res.get("corr_detail", ""))
    print("specification :", "ok" if res["viol"] is None else "VIOLATED %r" % (res["viol"],))
    return 0 if res["viol"] is None and res["corr"] is not False else 1
